"""ROUTE family of the e2e engine: property C07 (requests are routed to exactly the handler the blueprint designates).

Enumerated (bounded, exhaustive inside the stated slices; see `tables_for`): route tables
  routes     <= 2 (quick) / <= 3 (thorough) over paths {/, /a, /a/b, /a/{x}, /a/{*r}, /{x}/b, /{x}}
             x method guards {GET, POST, GET+POST, ANY, custom FOO, ANY+non-standard}
  structure  {flat; nested under /p; nested under /p/{q}; first route at root + rest nested (/p);
              two nesting levels /p + /{q}}
  fallback   {none (framework default); custom at root; custom in the nested blueprint(s); both}
  domains    {none; all routes in one domain("a.t") nest; two nests a.t + {s}.t; two nests {*s}.t + a.t}
Every table is pushed alone through the real `pavexc` (accept/reject verdict). Accepted tables are compiled
and served either alone or packed: domain-agnostic tables nested side by side under distinct static prefixes
`/t<j>`, domain tables side by side at the root with a distinct top-level label `t<j>`. A pack is itself an
accepted blueprint and the reference router below is evaluated on the blueprint that is actually served, so
packing needs no extra modelling.
Requests per table: all paths of <= 3 segments over {a, b, p, zz} (plus `/`, plus trailing-slash variants,
plus deeper paths below the nesting prefix) x {GET, POST, FOO, DELETE} x the Host values relevant to the table.

Reference router (written from docs/guide/routing/*.md, the rustdoc of Blueprint::{prefix,domain,fallback},
`pavex::route` and property C20; NOT from the compiler): see `expect`.
"""
import collections
import concurrent.futures as cf
import hashlib
import itertools
import json
import os
import re
import shutil
import time

import lib_e2e as L
import refmodel as M

FAMILY = "route"

# --------------------------------------------------------------------------------------------------
# alphabet
# --------------------------------------------------------------------------------------------------
PATHS = {"root": "/", "a": "/a", "ab": "/a/b", "ax": "/a/{x}", "ar": "/a/{*r}", "xb": "/{x}/b", "x": "/{x}"}
PK = list(PATHS)
# other spellings of the shapes `ax`, `x`, `ar` (gen_app_extra_route.EXTRA_PATHS); only used by the Q8 / T8 slices
EXTRA_PATHS = {"ay": "/a/{y}", "y": "/{y}", "as": "/a/{*s}"}
ALL_PATHS = dict(PATHS, **EXTRA_PATHS)
MK = ["get", "post", "gp", "any", "foo", "anyns", "gf"]  # gf: GET + custom FOO in one guard
STD9 = frozenset(["GET", "POST", "PUT", "DELETE", "PATCH", "HEAD", "OPTIONS", "CONNECT", "TRACE"])
STRUCTS = ["flat", "nest:/p", "nest:/p/{q}", "split:/p", "nest2:/p+/{q}"]
# "g2": two nesting levels WITHOUT prefixes (see table_ops); its fallback factor is a set of positions "pos:S+L1+G2"
G2_POS = ["R", "S", "G1", "L1", "G2", "L2"]
FBS = ["none", "root", "nested", "both"]
DOMS = {"none": [], "one": ["a.T"], "lit+param": ["a.T", "{s}.T"], "catch+lit": ["{*s}.T", "a.T"],
        # parameters in an INNER label only (the first label is a literal): two guards that differ in their first label
        # (disjoint), and two that only differ in the parameter name (same hosts: C20 wants them rejected as conflicting)
        "inner-ok": ["a.{s}.T", "b.{s}.T"], "inner-clash": ["a.{s}.T", "a.{r}.T"],
        # ONE domain guard used for two sibling blueprints (`bp.domain("a.t").nest(x); bp.domain("a.t").prefix("/p").nest(y)`),
        # written the same way twice, or once in relative and once in absolute form (C20: one trailing dot is ignored)
        "same2": ["a.T", "a.T"], "samedot": ["a.T", "a.T."]}
MUST_REJECT_DOMS = {"inner-clash": "the two guards match exactly the same hosts (they differ only in the name of a parameter)"}
REQ_METHODS = ["GET", "POST", "FOO", "DELETE"]
SEGS = ["a", "b", "p", "zz"]
SINGLE_FBS = ("FB1__AM_0", "FB2__AM_0", "FB3__AM_0", "RFB42")
SHARED_ROOT_FB = "RFB43"
PACK_PLAIN = 10
PACK_DOMAIN = 8

# Reading of "the innermost blueprint whose prefix covers the request" for a request path that is
# exactly the nesting prefix (`/p` for prefix("/p")): judged as covered, because the rustdoc of
# `Blueprint::fallback` ("Nesting with prefix") names exactly that request (`POST /room`, nested route
# `/`, prefix `/room`) as served by the nested fallback, and DESIGN.md §4/C07 fixes the same reading.
JUDGE_BARE_PREFIX = True


def T(routes, struct="flat", fb="none", dom="none", mr=None):
    t = {"routes": [list(r) for r in routes], "struct": struct, "fb": fb, "dom": dom}
    if mr:
        t["must_reject"] = mr  # two of its routes can match the same request (same effective pattern shape, common method)
    return t


def valid_table(t):
    n = len(t["routes"])
    st, fb, dom = t["struct"], t["fb"], t["dom"]
    kind = st.split(":")[0]
    if kind == "g2":
        if n != 3 or not fb.startswith("pos:") or dom not in ("none", "one"):
            return False
        pos = [x for x in fb[4:].split("+") if x]
        return len(pos) <= 3 and all(x in G2_POS for x in pos) and len({tuple(r) for r in t["routes"]}) == 3
    if fb.startswith("pos:"):
        return False
    if kind in ("dnest", "pdom") and dom == "none":
        return False
    if kind == "dnest" and (dom == "one" or n < 2):
        return False
    if kind == "pdom" and dom != "one":
        return False
    if dom == "none":
        if st == "flat" and fb in ("nested", "both"):
            return False
        if kind in ("split", "pnsplit") and n < 2:
            return False
    else:
        if kind in ("nest2", "pnest", "pnsplit"):
            return False
        if dom == "one" and kind == "split":
            return False
        if dom != "one" and n < 2:
            return False
    # at most two identical (path, method) routes: there are two handler copies (RT_*, RU_*)
    cnt = collections.Counter(tuple(r) for r in t["routes"])
    return max(cnt.values()) <= 2


def tables_for(tier):
    """The enumerated slices (each slice is a full product of the listed factor values)."""
    out = []
    slices = collections.OrderedDict()

    def add(name, t):
        if valid_table(t):
            out.append(t)
            slices[name] = slices.get(name, 0) + 1

    if tier == "quick":
        # Q1 path interplay: every single path, every unordered pair of distinct paths (flat, default fallback)
        for p in PK:
            add("Q1:paths", T([(p, "gp")]))
        for p1, p2 in itertools.combinations(PK, 2):
            add("Q1:paths", T([(p1, "get"), (p2, "get")]))
        # Q2 method interplay on one path: every guard alone and every unordered pair of guards (incl. twice the same)
        for fb in ("none", "root"):
            for m in MK:
                add("Q2:methods", T([("a", m)], fb=fb))
            for m1, m2 in itertools.combinations_with_replacement(MK, 2):
                add("Q2:methods", T([("ax", m1), ("ax", m2)], fb=fb))
        # Q3 structure x fallback
        r3 = [[("a", "get"), ("ab", "post")], [("ax", "get"), ("xb", "gp")], [("root", "get"), ("ar", "any")],
              [("x", "foo"), ("a", "anyns")]]
        for rs in r3:
            for st in STRUCTS:
                for fb in FBS:
                    add("Q3:structure-x-fallback", T(rs, st, fb))
        # Q4 domains x fallback x prefix
        r4 = [[("a", "get"), ("a", "post")], [("ax", "gp"), ("ab", "foo")]]
        for rs in r4:
            for dm in ("one", "lit+param", "catch+lit"):
                for st in ("flat", "nest:/p", "split:/p"):
                    for fb in FBS:
                        add("Q4:domains", T(rs, st, fb, dm))
        # Q6 inherited constraints: a prefix-less (or domain-only) blueprint nested inside a prefixed one, a domain guard
        # nested inside another domain guard
        for rs in ([("a", "get"), ("ab", "post")], [("ax", "gp"), ("root", "get")]):
            for st in ("pnest:/p", "pnsplit:/p"):
                for fb in FBS:
                    add("Q6:inherited-prefix", T(rs, st, fb))
            for fb in ("none", "both"):
                add("Q6:inherited-prefix", T(rs, "pdom:/p", fb, "one"))
                for dm in ("lit+param", "catch+lit"):
                    add("Q6:domain-in-domain", T(rs, "dnest", fb, dm))
        for rs in ([("a", "get"), ("a", "post")], [("ax", "gp"), ("ab", "foo")]):
            for dm in ("inner-ok", "inner-clash"):
                for fb in ("none", "both"):
                    add("Q7:inner-label-parameters", T(rs, "flat", fb, dm))
        # Q9 one domain guard on two sibling blueprints (same spelling / relative + absolute spelling): the routes of both
        # are served under that domain; a fallback of the prefixed sibling only answers below its prefix
        for rs in ([("a", "get"), ("ab", "post")], [("ax", "gp"), ("root", "get")]):
            for dm in ("same2", "samedot"):
                for st, fbs_ in (("flat", ("none", "root")), ("split:/p", ("none", "root", "nested1", "both1"))):
                    for fb in fbs_:
                        add("Q9:one-domain-two-blueprints", T(rs, st, fb, dm))
        # Q8 one pattern shape under two spellings (different parameter names): disjoint method guards (no verdict: if accepted, the
        # server must start and route), a common method (C08: two routes that can match the same request => rejected)
        same = "both templates denote the same set of paths and share a method"
        for st in ("flat", "split:/p"):
            add("Q8:respelled-parameters", T([("ax", "get"), ("ay", "post")], st))
            add("Q8:respelled-parameters", T([("ar", "get"), ("as", "post")], st))
            add("Q8:respelled-parameters", T([("ax", "gp"), ("ay", "get")], st, mr=same if st == "flat" else None))
            add("Q8:respelled-parameters", T([("ar", "get"), ("as", "gp")], st, mr=same if st == "flat" else None))
        add("Q8:respelled-parameters", T([("ax", "get"), ("y", "post")], "split:/a"))
        add("Q8:respelled-parameters", T([("ax", "gp"), ("y", "get")], "split:/a", mr=same))
        add("Q8:respelled-parameters", T([("ax", "get"), ("as", "get")], "flat", mr="`/a/{x}` and `/a/{*s}` both match `/a/<one segment>` and share GET"))
        # Q5 grouping blueprints without prefixes: [nest{r0, S?}, nest{G1?, nest{r1, L1?}}, nest{G2?, nest{r2, L2?}}, R?]
        # every set of <= 3 fallback positions (inside one domain nest, so that the tables can be packed without a
        # path prefix on the chain), and 8 position sets without any domain (served alone)
        r5 = [("a", "get"), ("ab", "get"), ("root", "post")]
        for k in range(0, 4):
            for pos in itertools.combinations(G2_POS, k):
                add("Q5:prefix-free-nesting", T(r5, "g2", "pos:" + "+".join(pos), "one"))
        for pos in (("S", "L1", "L2"), ("S", "G1", "L2"), ("G1", "L1", "L2"), ("S", "L2"), ("L1", "L2"), ("G1", "G2"),
                    ("R", "L1", "L2"), ("S", "G2", "L2")):
            add("Q5:prefix-free-nesting", T(r5, "g2", "pos:" + "+".join(pos), "none"))
    else:
        choices = [(p, m) for p in PK for m in MK]
        # T1 all tables of <= 2 routes, flat, default fallback (incl. twice the same route)
        for c in choices:
            add("T1:all-1-2-route-tables", T([c]))
        for c1, c2 in itertools.combinations_with_replacement(choices, 2):
            add("T1:all-1-2-route-tables", T([c1, c2]))
        # T2 method interplay on three paths with a custom root fallback
        for p in ("a", "ax", "ar"):
            for m1, m2 in itertools.combinations_with_replacement(MK, 2):
                add("T2:methods-custom-fallback", T([(p, m1), (p, m2)], fb="root"))
        # T3 structure x fallback x route pairs
        r3 = [[(p1, "get"), (p2, "gp")] for p1, p2 in itertools.combinations(PK, 2)] + \
             [[("a", "get"), ("a", "post")], [("x", "foo"), ("a", "anyns")], [("root", "get"), ("ar", "any")],
              [("ax", "foo"), ("ax", "foo")]]
        for rs in r3:
            for st in STRUCTS:
                for fb in FBS:
                    add("T3:structure-x-fallback", T(rs, st, fb))
        # T9 one domain guard on two sibling blueprints (same spelling / relative + absolute spelling): the routes of both
        # are served under that domain; a fallback of the prefixed sibling only answers below its prefix
        for rs in ([("a", "get"), ("ab", "post")], [("ax", "gp"), ("root", "get")]):
            for dm in ("same2", "samedot"):
                for st, fbs_ in (("flat", ("none", "root")), ("split:/p", ("none", "root", "nested1", "both1"))):
                    for fb in fbs_:
                        add("T9:one-domain-two-blueprints", T(rs, st, fb, dm))
        # T8 one pattern shape under two spellings (different parameter names): disjoint method guards (no verdict: if accepted, the
        # server must start and route), a common method (C08: two routes that can match the same request => rejected)
        same = "both templates denote the same set of paths and share a method"
        for st in ("flat", "split:/p"):
            add("T8:respelled-parameters", T([("ax", "get"), ("ay", "post")], st))
            add("T8:respelled-parameters", T([("ar", "get"), ("as", "post")], st))
            add("T8:respelled-parameters", T([("ax", "gp"), ("ay", "get")], st, mr=same if st == "flat" else None))
            add("T8:respelled-parameters", T([("ar", "get"), ("as", "gp")], st, mr=same if st == "flat" else None))
        add("T8:respelled-parameters", T([("ax", "get"), ("y", "post")], "split:/a"))
        add("T8:respelled-parameters", T([("ax", "gp"), ("y", "get")], "split:/a", mr=same))
        add("T8:respelled-parameters", T([("ax", "get"), ("as", "get")], "flat", mr="`/a/{x}` and `/a/{*s}` both match `/a/<one segment>` and share GET"))
        # T4 domains
        r4 = [[("a", "get"), ("a", "post")], [("ax", "gp"), ("ab", "foo")], [("x", "any"), ("xb", "get")],
              [("root", "anyns"), ("ar", "get")]]
        for rs in r4:
            for dm in ("one", "lit+param", "catch+lit"):
                for st in ("flat", "nest:/p", "nest:/p/{q}", "split:/p"):
                    for fb in FBS:
                        add("T4:domains", T(rs, st, fb, dm))
        for rs in r4:
            for dm in ("inner-ok", "inner-clash"):
                for st in ("flat", "nest:/p"):
                    for fb in FBS:
                        add("T8:inner-label-parameters", T(rs, st, fb, dm))
        for rs in r3:
            for st in ("pnest:/p", "pnsplit:/p", "pnest:/p/{q}"):
                for fb in FBS:
                    add("T7:inherited-prefix", T(rs, st, fb))
        for rs in r4:
            for fb in FBS:
                add("T7:inherited-prefix", T(rs, "pdom:/p", fb, "one"))
                for dm in ("lit+param", "catch+lit"):
                    add("T7:domain-in-domain", T(rs, "dnest", fb, dm))
        # T5 three routes: all triples of distinct paths, method guards rotating, flat and nested
        for tri in itertools.combinations(PK, 3):
            for ms in (("get", "post", "gp"), ("any", "foo", "get"), ("foo", "anyns", "post")):
                for st, fb in (("flat", "root"), ("nest:/p", "both"), ("split:/p", "nested")):
                    add("T5:three-routes", T(list(zip(tri, ms)), st, fb))
        for rs in ([("a", "get"), ("ab", "get"), ("xb", "post")], [("x", "gf"), ("ax", "foo"), ("root", "any")]):
            for k in range(0, 4):
                for pos in itertools.combinations(G2_POS, k):
                    for dm in ("one", "none"):
                        add("T6:prefix-free-nesting", T(rs, "g2", "pos:" + "+".join(pos), dm))
    seed = int(os.environ.get("VERIF_SEED", "0") or 0)
    if seed and out:
        k = seed % len(out)
        out = out[k:] + out[:k]
    return out, dict(slices)


# --------------------------------------------------------------------------------------------------
# table -> blueprint ops
# --------------------------------------------------------------------------------------------------
def handler_ids(t):
    seen = collections.Counter()
    out = []
    for pk, mk in t["routes"]:
        seen[(pk, mk)] += 1
        out.append(f"{'RT' if seen[(pk, mk)] == 1 else 'RU'}_{pk.upper()}_{mk.upper()}")
    return out


def nest_op(ops, prefix=None, domain=None):
    op = {"k": "nest", "bp": {"ops": ops}}
    if prefix:
        op["prefix"] = prefix
    if domain:
        op["domain"] = domain
    return op


def table_ops(t, fbs=SINGLE_FBS, tld="t", with_root_fb=True):
    routes = [{"k": "route", "c": h} for h in handler_ids(t)]
    rootfb = [{"k": "fallback", "c": fbs[0]}] if (t["fb"] in ("root", "both", "both1") and with_root_fb) else []

    def nfb(i):
        if t["fb"] in ("nested1", "both1"):  # only the SECOND nested blueprint has a fallback of its own
            return [{"k": "fallback", "c": fbs[1 + i]}] if i == 1 else []
        return [{"k": "fallback", "c": fbs[1 + i]}] if t["fb"] in ("nested", "both") else []

    st = t["struct"]
    kind, _, arg = st.partition(":")
    doms = [d.replace("T", tld) for d in DOMS[t["dom"]]]
    if kind == "g2":
        pos = [x for x in G2_POS if x in t["fb"][4:].split("+")]
        ids = dict(zip(pos, fbs[1:4]))

        def gfb(x):
            return [{"k": "fallback", "c": ids[x]}] if x in ids else []

        body = [nest_op([routes[0]] + gfb("S")),
                nest_op([nest_op([routes[1]] + gfb("L1"))] + gfb("G1")),
                nest_op([nest_op([routes[2]] + gfb("L2"))] + gfb("G2"))] + gfb("R")
        return [nest_op(body, domain=doms[0])] if doms else body
    if not doms:
        if kind == "flat":
            return routes + rootfb
        if kind == "nest":
            return [nest_op(routes + nfb(0), prefix=arg)] + rootfb
        if kind == "split":
            return [routes[0], nest_op(routes[1:] + nfb(0), prefix=arg)] + rootfb
        if kind == "nest2":
            p1, p2 = arg.split("+")
            return [nest_op([nest_op(routes + nfb(0), prefix=p2)], prefix=p1)] + rootfb
        if kind == "pnest":  # a prefix-LESS blueprint nested inside a prefixed one: it inherits the prefix
            return [nest_op([nest_op(routes + nfb(0))], prefix=arg)] + rootfb
        if kind == "pnsplit":
            return [nest_op([routes[0], nest_op(routes[1:] + nfb(0))], prefix=arg)] + rootfb
        raise AssertionError(st)
    if kind == "pdom":  # a domain-guarded blueprint (no prefix of its own) nested inside a prefixed one
        return [nest_op([nest_op(routes + nfb(0), domain=doms[0])], prefix=arg)] + rootfb
    if kind == "dnest":  # a domain guard nested inside another domain guard: the innermost one is the effective one
        return [nest_op(routes[:1] + nfb(0) + [nest_op(routes[1:] + nfb(1), domain=doms[1])], domain=doms[0])] + rootfb
    if len(doms) == 1:
        return [nest_op(routes + nfb(0), prefix=arg if kind == "nest" else None, domain=doms[0])] + rootfb
    p0 = arg if kind == "nest" else None
    p1 = arg if kind in ("nest", "split") else None
    return [nest_op(routes[:1] + nfb(0), prefix=p0, domain=doms[0]),
            nest_op(routes[1:] + nfb(1), prefix=p1, domain=doms[1])] + rootfb


def single_spec(idx, t):
    return {"id": f"route{idx:05d}", "family": FAMILY, "bp": {"ops": table_ops(t)},
            "tables": [{"idx": idx, "table": t, "mount": "", "tld": "t"}]}


def pack_group(t):
    if t["struct"] == "g2" and t["dom"] == "none":
        return "solo"  # a mount prefix on the chain would change what is being checked
    if t["struct"].startswith("pdom"):
        return "solo"  # its prefix-only root-level blueprint would cover the paths of the other members of a domain pack
    if t["dom"] == "none":
        return "plain"
    return "domroot" if t["fb"] in ("root", "both", "both1") else "dom"


def pack_spec(group, n, members):
    """members: [(idx, table)]."""
    ops, tables = [], []
    for j, (idx, t) in enumerate(members):
        fbs = tuple(f"RFB{4 * j + i:02d}" for i in range(4))
        if group == "plain":
            ops.append(nest_op(table_ops(t, fbs), prefix=f"/t{j}"))
            tables.append({"idx": idx, "table": t, "mount": f"/t{j}", "tld": "t"})
        else:
            fbs = (SHARED_ROOT_FB,) + fbs[1:]
            ops.extend(table_ops(t, fbs, tld=f"t{j}", with_root_fb=False))
            tables.append({"idx": idx, "table": t, "mount": "", "tld": f"t{j}"})
    if group == "domroot":
        ops.append({"k": "fallback", "c": SHARED_ROOT_FB})
    return {"id": f"routepack_{group}_{n:03d}", "family": FAMILY, "bp": {"ops": ops}, "tables": tables, "pack": True,
            "members": [idx for idx, _ in members]}


# --------------------------------------------------------------------------------------------------
# request alphabet
# --------------------------------------------------------------------------------------------------
def paths_upto(n):
    out = ["/"]
    for k in range(1, n + 1):
        for segs in itertools.product(SEGS, repeat=k):
            p = "/" + "/".join(segs)
            out.append(p)
            out.append(p + "/")
    return out


S3 = paths_upto(3)
S2 = paths_upto(2)
S1 = paths_upto(1)


def table_paths(t, tier):
    full = list(S3)
    kind, _, arg = t["struct"].partition(":")
    if kind in ("nest", "split", "nest2", "pnest", "pnsplit", "pdom"):
        insts = ["/p"] if arg == "/p" else ["/p/zz", "/p/a"]
        for i, inst in enumerate(insts):
            full += [inst + s for s in (S3 if i == 0 else S2)]
        full += ["/pzz", "/pzz/a", "/pzz/a/b"]  # string prefix, not segment prefix: observed, never judged
    return list(dict.fromkeys(full))


def table_hosts(t, tld):
    if t["dom"] == "none":
        return [None]
    # with an explicit port too: "the domain requested by the client is determined using the Host header" (domain_guards.md),
    # i.e. the host part of `host[:port]`, in relative and in absolute (trailing dot) form
    hosts = [f"a.{tld}", f"b.{tld}", f"x.a.{tld}", f"a.{tld}.", "nope", None, f"a.{tld}:8080", f"a.{tld}.:8080", f"b.{tld}.:80"]
    if t["dom"].startswith("inner"):
        hosts += [f"a.x.{tld}", f"b.x.{tld}", f"c.x.{tld}", f"a.x.{tld}.", f"b.y.{tld}:8080", f"x.{tld}"]
    return hosts


def table_requests(entry, ti, tier):
    t, mount, tld = entry["table"], entry["mount"], entry["tld"]
    full = table_paths(t, tier)
    reqs = []
    guards = [g.replace("T", tld) for g in DOMS[t["dom"]]]
    for host in table_hosts(t, tld):
        # the full path set when the Host selects one of the table's nests (or the table has no guards);
        # a Host that no guard matches is answered by the top-level fallback whatever the path is
        hit = not guards or any(dmatch(g, norm_host(host)) for g in guards)
        for p in (full if hit else S1):
            for m in REQ_METHODS:
                reqs.append({"method": m, "path": mount + p, "host": host, "plan": [], "t": ti})
    return reqs


def unit_requests(spec, tier):
    if "requests" in spec:
        return spec["requests"]
    out = []
    for ti, entry in enumerate(spec["tables"]):
        out += table_requests(entry, ti, tier)
    return out


# --------------------------------------------------------------------------------------------------
# reference router
# --------------------------------------------------------------------------------------------------
def parse_pattern(p):
    segs = []
    for s in p.split("/")[1:]:
        if s.startswith("{*") and s.endswith("}"):
            segs.append(("c", s[2:-1]))
        elif s.startswith("{") and s.endswith("}"):
            segs.append(("p", s[1:-1]))
        else:
            segs.append(("s", s))
    return segs


def pmatch(segs, rsegs):
    """Path pattern vs request path (both split on '/'): static segments are equal, `{x}` is one
    non-empty segment, a trailing `{*r}` is the non-empty rest of the path."""
    for i, (k, text) in enumerate(segs):
        if k == "c":
            return i < len(rsegs) and "/".join(rsegs[i:]) != ""
        if i >= len(rsegs):
            return False
        if k == "s":
            if rsegs[i] != text:
                return False
        elif rsegs[i] == "":
            return False
    return len(segs) == len(rsegs)


RANK = {"s": 0, "p": 1, "c": 2}


def prio(segs):
    return tuple(RANK[k] for k, _ in segs)


def shape(segs):
    ks = {k for k, _ in segs}
    return "catchall" if "c" in ks else ("param" if "p" in ks else "static")


def norm_host(host):
    h = "localhost" if host is None else host  # the runner sends `Host: localhost` when no host is given
    if ":" in h and h.rsplit(":", 1)[1].isdigit():
        h = h.rsplit(":", 1)[0]
    if h.endswith("."):
        h = h[:-1]
    return h


def dmatch(guard, host):
    """C20: literal labels equal, `{p}` one label, a leading `{*p}` one or more labels."""
    g = guard[:-1] if guard.endswith(".") else guard
    gl, hl = g.split("."), host.split(".")
    if any(x == "" for x in hl):
        return False
    if gl[0].startswith("{*"):
        if len(hl) < len(gl):
            return False
        tail = gl[1:]
        htail = hl[len(hl) - len(tail):] if tail else []
        return all(a == b or (a.startswith("{") and b != "") for a, b in zip(tail, htail))
    if len(gl) != len(hl):
        return False
    return all(a == b or (a.startswith("{") and b != "") for a, b in zip(gl, hl))


def dprio(guard):
    labels = guard.rstrip(".").split(".")[::-1]
    return tuple(2 if l.startswith("{*") else (1 if l.startswith("{") else 0) for l in labels)


class Node:
    def __init__(self, parent, prefix, domain, depth, own=True):
        self.parent, self.prefix, self.domain, self.depth = parent, prefix, domain, depth
        self.own = own  # nested with a prefix or domain of its own (or the root); a pure grouping blueprint is not
        self.fallback = None
        self.psegs = parse_pattern(prefix) if prefix else []

    def chain(self):
        n = self
        while n is not None:
            yield n
            n = n.parent

    def applicable_fb(self):
        for n in self.chain():
            if n.fallback:
                return n.fallback, n
        return None, None


class Route:
    def __init__(self, cid, node):
        c = M.cat(cid)
        self.cid, self.node = cid, node
        self.pattern = node.prefix + c["path"]
        self.segs = parse_pattern(self.pattern)
        self.key = "/" + "/".join(t if k == "s" else ("{}" if k == "p" else "{*}") for k, t in self.segs)
        m = c["methods"]
        self.mk = "anyns" if m == "ANYNS" else ("any" if m == "ANY" else "+".join(m).lower())
        self.mset = None if m == "ANYNS" else (STD9 if m == "ANY" else frozenset(m))
        self.domain = node.domain

    def mmatch(self, method):
        return self.mset is None or method in self.mset


class Model:
    def __init__(self, spec):
        self.nodes, self.routes, self.fb_node = [], [], {}
        self.root = self._walk(spec["bp"], None, "", None, 0)
        self.domain_based = any(r.domain for r in self.routes)
        self.mixed = self.domain_based and any(r.domain is None for r in self.routes)
        self.guards = sorted({n.domain for n in self.nodes if n.domain})
        self.by_cid = {}
        for r in self.routes:
            self.by_cid.setdefault(r.cid, []).append(r)

    def _walk(self, bp, parent, prefix, domain, depth, own=True):
        n = Node(parent, prefix, domain, depth, own)
        self.nodes.append(n)
        for op in bp["ops"]:
            k = op["k"]
            if k == "route":
                self.routes.append(Route(op["c"], n))
            elif k == "fallback":
                n.fallback = op["c"]
                self.fb_node[op["c"]] = n
            elif k == "nest":
                self._walk(op["bp"], n, prefix + (op.get("prefix") or ""), (op.get("domain") or "").rstrip(".") or domain, depth + 1,
                           own=bool(op.get("prefix") or op.get("domain")))
        return n


def cover(node, rsegs):
    """Does the (concatenated) prefix of `node` cover the request path?
    'proper' (prefix followed by '/...'), 'bare' (path is exactly the prefix), 'string' (string prefix
    only: last static prefix segment is a proper prefix of the request segment), or None."""
    P = node.psegs
    if not P:
        return "proper"
    if len(rsegs) < len(P):
        return None
    string_only = False
    for i, (k, text) in enumerate(P):
        s = rsegs[i]
        if k == "s":
            if s == text:
                continue
            if i == len(P) - 1 and text and s.startswith(text):
                string_only = True
                continue
            return None
        if s == "":
            return None
    if string_only:
        return "string"
    return "bare" if len(rsegs) == len(P) else "proper"


class Exp:
    """primary: the outcome the documentation designates; alts: outcomes that are also accepted because
    the documentation does not force one answer (each with the tag that says why)."""

    def __init__(self, kind, primary, alts, tags, info=None):
        self.kind, self.primary, self.alts, self.tags, self.info = kind, primary, alts, tags, info or {}


def expect(model, method, path, host):
    rsegs = path.split("/")[1:]
    hostn = norm_host(host)
    tags, alts = [], []
    full = [r for r in model.routes if (r.domain is None or dmatch(r.domain, hostn)) and pmatch(r.segs, rsegs)
            and r.mmatch(method)]
    dom = None
    if model.domain_based:
        ms = [g for g in model.guards if dmatch(g, hostn)]
        if not ms:
            # "you can register a top-level fallback that will be invoked when no domain guard matches"
            return Exp("domain-miss", ("f", model.root.fallback, frozenset()), [], tags)
        if len(ms) > 1:
            tags.append("domain-overlap")
            ms.sort(key=dprio)
        dom = ms[0]
    cands = [r for r in model.routes if r.domain == dom]
    groups = collections.OrderedDict()
    for r in cands:
        if pmatch(r.segs, rsegs):
            groups.setdefault(r.key, []).append(r)
    # a blueprint nested without prefix and domain covers nothing by itself (Blueprint::fallback, "Nesting without
    # prefix": its fallback only serves method mismatches on its own routes)
    compat = [n for n in model.nodes if n.domain in (None, dom) and n.own]
    covering = sorted([(n, cover(n, rsegs)) for n in compat if cover(n, rsegs)], key=lambda x: (-x[0].depth, -len(x[0].psegs)))  # innermost = deepest, then longest prefix (siblings of one domain)
    info = {}
    if not groups:
        kind = "nomatch"
        primary = None
        for n, cv in covering:
            fb, fbn = n.applicable_fb()
            e = ("f", fb, frozenset())
            if cv == "proper" or (cv == "bare" and JUDGE_BARE_PREFIX):
                primary = e
                info["cover"] = cv
                info["cover_node"] = n
                if cv == "bare":
                    tags.append("bare-prefix")
                break
            alts.append((e, f"{cv}-prefix"))
            tags.append(f"{cv}-prefix")
        # a blueprint nested WITHOUT a prefix of its own inside a prefixed one: the property's statement ("the innermost
        # blueprint whose prefix ... covers the request", prefixes being concatenated) designates its fallback,
        # Blueprint::fallback ("Nesting without prefix": only method mismatches on its own routes) designates the
        # parent's; the documentation does not settle it, both are accepted
        for n in sorted(model.nodes, key=lambda n: -n.depth):
            if not n.own and n.psegs and n.domain in (None, dom) and cover(n, rsegs) in ("proper", "bare", "string") and n.fallback:
                alts.append((("f", n.fallback, frozenset()), "inherited-prefix-grouping"))
                tags.append("inherited-prefix-grouping")
        decider = None
        if dom is not None:
            # the selected domain's nest does not cover the path with its prefix: "prefix/domain covers" can be
            # read either way (the guide only says that the top-level fallback serves requests no guard matches)
            # (not when ANOTHER blueprint of the same domain covers the path: then that one answers)
            dom_covered = any(n.domain == dom and cover(n, rsegs) for n in compat)
            for n in sorted(compat, key=lambda n: -n.depth):
                if dom_covered:
                    break
                if n.domain == dom and not cover(n, rsegs):
                    alts.append((("f", n.applicable_fb()[0], frozenset()), "domain-covers-but-prefix-does-not"))
                    tags.append("domain-covers-but-prefix-does-not")
                    break
    else:
        keys = sorted(groups, key=lambda k: prio(groups[k][0].segs))
        best = groups[keys[0]]
        if len(keys) > 1:
            tags.append("path-overlap")
        hs = [r for r in best if r.mmatch(method)]
        decider = best[0].node
        info["group"] = best
        if len(hs) == 1:
            kind, primary = "handler", ("h", hs[0].cid)
        elif len(hs) > 1:
            kind, primary = "ambiguous", ("h", hs[0].cid)
            alts += [(("h", r.cid), "ambiguous") for r in hs[1:]]
            info["candidates"] = hs
        else:
            kind = "mm"
            allowed = frozenset().union(*[r.mset for r in best])
            fbs = list(dict.fromkeys(r.node.applicable_fb()[0] for r in best))
            primary = ("f", fbs[0], allowed)
            for fb in fbs[1:]:
                alts.append((("f", fb, allowed), "mm-routes-from-several-blueprints"))
                tags.append("mm-routes-from-several-blueprints")
        # a nested blueprint (not the one that owns the matched route) whose prefix covers the request:
        # Blueprint::fallback says its fallback is "invoked for all the requests that start with the
        # prefix but don't match any of the route paths registered against the nested blueprint"
        own = set(id(n) for n in decider.chain())
        for n, cv in covering:
            if id(n) in own or not n.psegs:
                continue
            fb, _ = n.applicable_fb()
            alts.append((("f", fb, None), "foreign-prefix-covers-matched-route"))
            tags.append("foreign-prefix-covers-matched-route")
    if kind in ("mm", "nomatch"):
        # a lower-priority pattern (or domain guard) has a handler for this request: the property's literal
        # reading ("the unique handler whose ... match") designates it, matchit's priority does not backtrack
        for r in full:
            alts.append((("h", r.cid), "priority-shadowed-full-match"))
            tags.append("priority-shadowed-full-match")
    return Exp(kind, primary, alts, list(dict.fromkeys(tags)), info)


# --------------------------------------------------------------------------------------------------
# observed outcome (compact)
# --------------------------------------------------------------------------------------------------
def outcome_of(resp):
    """'h:<ID>' | 'f:<ID>:<allowed>' | 'd:<status>:<allow>' | 'x:<json>' (anything inconsistent)."""
    status, body = resp.get("status"), resp.get("body") or ""
    calls = [l for l in resp.get("trace", []) if l.startswith("call ")]
    if len(calls) == 1:
        parts = calls[0].split(" ")
        kind, cid = parts[1], parts[2]
        if kind == "handler" and body == f"h:{cid}" and status == 200:
            return f"h:{cid}"
        if kind == "fallback" and body == f"fb:{cid}":
            m = re.search(r"allowed=(\S*)", calls[0])
            return f"f:{cid}:{m.group(1) if m else '?'}"
    if not calls and status in (404, 405) and body == "":
        allow = []
        for v in resp.get("allow") or []:
            allow += [x.strip() for x in v.split(",") if x.strip()]
        return f"d:{status}:{'+'.join(sorted(allow))}"
    return "x:" + json.dumps({"status": status, "body": body[:200], "trace": resp.get("trace", [])[:6],
                              "error": resp.get("error")}, sort_keys=True)


def fmt_allowed(a):
    return "*" if a is None else "+".join(sorted(a))


def allowed_set(o):
    """Allowed-methods part of a compact outcome ('f:<ID>:<a>' / 'd:<status>:<a>') as a set."""
    a = o.split(":", 2)[2]
    return {"ALL"} if a == "ALL" else set(x for x in a.split("+") if x)


def outcome_strings(e):
    """Predicate over compact outcome strings for one expected outcome tuple. Method lists are compared
    as sets (a list with a repeated entry is recorded as an observation, not judged)."""
    if e[0] == "h":
        return lambda o: o == f"h:{e[1]}"
    _, fb, allowed = e
    if fb is None:
        if allowed is None:
            return lambda o: o.startswith("d:")
        if allowed:
            return lambda o: o.startswith("d:405:") and allowed_set(o) == set(allowed)
        return lambda o: o == "d:404:"
    if allowed is None:
        return lambda o: o.startswith(f"f:{fb}:")
    if allowed:
        return lambda o: o.startswith(f"f:{fb}:") and allowed_set(o) == set(allowed)
    return lambda o: o in (f"f:{fb}:", f"f:{fb}:ALL")


def fmt_exp(e):
    if e is None:
        return "<not judged>"
    if e[0] == "h":
        return f"handler {e[1]}"
    return f"fallback {e[1] or '<framework default>'} allowed={{{fmt_allowed(e[2])}}}"


def verdict(exp, outcome):
    """-> ('ok', None) | ('alt', tag) | ('unjudged', None) | ('bad', None)"""
    if exp.primary is not None and outcome_strings(exp.primary)(outcome):
        return "ok", None
    for e, tag in exp.alts:
        if outcome_strings(e)(outcome):
            return "alt", tag
    if exp.primary is None:
        return "unjudged", None
    return "bad", None


# --------------------------------------------------------------------------------------------------
# violation keys
# --------------------------------------------------------------------------------------------------
def table_level(model, entry, node):
    """Where a blueprint sits relative to the table's own root (packing adds one level for plain tables)."""
    if node is None:
        return "default"
    if entry["mount"]:
        top = [n for n in node.chain() if n.depth == 1]
        if not top or top[0].prefix != entry["mount"]:
            return "pack-root" if node.depth == 0 else "foreign-table"
        d = node.depth - 1
    else:
        if node.domain and not node.domain.rstrip(".").endswith("." + entry["tld"]):
            return "foreign-table"
        d = node.depth
    return ["root", "nested", "nested2", "nested3"][min(d, 3)]


def method_class(ms):
    ms = set(ms)
    parts = []
    if ms & STD9:
        parts.append("standard")
    if ms - STD9:
        parts.append("custom")
    return "+".join(parts) or "none"


def route_of(model, entry, cid):
    """The route registered with handler `cid` inside the table of the request (packs reuse handlers)."""
    rs = model.by_cid.get(cid) or [None]
    for r in rs:
        if r is not None and table_level(model, entry, r.node) not in ("foreign-table", "pack-root"):
            return r
    return rs[0]


def violation_key(model, entry, exp, outcome):
    p = exp.primary
    dom_tag = ":domain" if entry["table"]["dom"] != "none" else ""

    def obs_class():
        if outcome.startswith("h:"):
            r = route_of(model, entry, outcome[2:])
            return f"handler-{shape(r.segs)}" if r else "handler-unknown"
        if outcome.startswith("f:"):
            return "fallback-" + table_level(model, entry, model.fb_node.get(outcome.split(":")[1]))
        if outcome.startswith("d:"):
            return "default" + outcome.split(":")[1]
        return "weird"

    if outcome.startswith("x:"):
        try:
            st = json.loads(outcome[2:]).get("status")
        except ValueError:
            st = "?"
        return f"route:unexpected-response:status-{st}:expected-{exp.kind}"
    if p[0] == "h":
        er = route_of(model, entry, p[1])
        if outcome.startswith("h:"):
            gr = route_of(model, entry, outcome[2:])
            if gr is not None and gr.key == er.key and gr.domain == er.domain:
                return f"route:wrong-handler:same-path:exp-{er.mk}:got-{gr.mk}{dom_tag}"
            return f"route:wrong-handler:{shape(er.segs)}-vs-{shape(gr.segs) if gr else 'unknown'}{dom_tag}"
        lvl = table_level(model, entry, er.node)
        return f"route:handler-not-invoked:{shape(er.segs)}:at-{lvl}:got-{obs_class()}{dom_tag}"
    # a fallback was expected
    _, fb, allowed = p
    if outcome.startswith("h:"):
        return f"route:unexpected-handler:{exp.kind}:got-{obs_class()}{dom_tag}"
    exp_lvl = table_level(model, entry, model.fb_node.get(fb)) if fb else "default"
    got_fb = outcome.split(":")[1] if outcome.startswith("f:") else None
    if (got_fb or None) != fb:
        extra = ""
        if exp.kind == "nomatch" and exp.info.get("cover") == "bare":
            cn = exp.info["cover_node"]
            parent_fb = cn.parent.applicable_fb()[0] if cn.parent is not None else None
            to = "parent" if (got_fb or None) == parent_fb and not outcome.startswith("d:405") else "other"
            return f"route:nested-fallback:bare-prefix-request-goes-to-{to}{dom_tag}"
        if exp.kind == "nomatch":
            extra = ":" + exp.info.get("cover", "?") + "-prefix"
            cn = exp.info.get("cover_node")
            if cn is not None and cn.psegs and cn.psegs[-1][0] == "p":
                extra += ":param-terminated-prefix"
        got_lvl = obs_class().replace("fallback-", "")
        return f"route:wrong-fallback:{exp.kind}:exp-{exp_lvl}:got-{got_lvl}{extra}{dom_tag}"
    # same fallback, different AllowedMethods / status
    if exp.kind in ("nomatch", "domain-miss") and outcome.startswith("d:405"):
        return f"route:405-although-no-path-matches:{exp.kind}{dom_tag}"
    got_allowed = outcome.split(":", 2)[2]
    got = set(x for x in got_allowed.split("+") if x) if got_allowed != "ALL" else {"ALL"}
    want = set(allowed or [])
    parts = []
    if want - got:
        parts.append("missing-" + method_class(want - got))
    if got - want:
        parts.append("extra-" + ("all" if got == {"ALL"} else method_class(got - want)))
    if not parts and fb is None:
        return f"route:default-fallback-status:{exp.kind}:got-{outcome.split(':')[1]}"
    return f"route:allowed-methods:{exp.kind}:{'+'.join(parts) or 'differs'}"


def panic_key(msg):
    line = (msg or "").strip().splitlines()[0] if (msg or "").strip() else "<no message>"
    line = re.sub(r'"[^"]*"', '"_"', line)
    line = re.sub(r"\d+", "N", line)
    return "route:startup-panic:" + line[:120]


# --------------------------------------------------------------------------------------------------
# observation
# --------------------------------------------------------------------------------------------------
ANSI = re.compile(r"\x1b\[[0-9;]*m")


def error_title(stderr):
    text = ANSI.sub("", stderr or "")
    m = re.search(r"ERROR:\s*\n?\s*[×x]\s*(.*?)(?:\n\s*\n|\n\s*│\s*\n|$)", text, flags=re.S)
    title = m.group(1) if m else text.strip()[:160]
    title = re.sub(r"\s*│\s*", " ", title)
    title = re.sub(r"\s+", " ", title).strip()
    title = re.sub(r"`[^`]*`", "`_`", title)
    return title[:140]


def slim_gen(g):
    g = dict(g)
    g["stderr"] = (g.get("stderr") or "")[-2500:]
    g["stdout"] = (g.get("stdout") or "")[-300:]
    return g


def run_sharded(binp, unit_reqs, nshards=None):
    """Run the batch runner over disjoint subsets of its SDKs in parallel. unit_reqs: {sid: [request]}."""
    nshards = nshards or L.NSLOTS
    order = sorted(unit_reqs, key=lambda s: -len(unit_reqs[s]))
    shards = [[] for _ in range(min(nshards, max(1, len(order))))]
    load = [0] * len(shards)
    for sid in order:
        k = load.index(min(load))
        shards[k].append(sid)
        load[k] += len(unit_reqs[sid]) + 200
    out = {}

    def one(k):
        link = f"{binp}.shard{k}"
        if os.path.lexists(link):
            os.remove(link)
        os.symlink(binp, link)
        script = {sid: [{"method": r["method"], "path": r["path"], "host": r.get("host"), "plan": []}
                        for r in unit_reqs[sid]] for sid in shards[k]}
        return L.run_runner(link, script)

    with cf.ThreadPoolExecutor(max_workers=len(shards)) as ex:
        for res in ex.map(one, range(len(shards))):
            crash = res.pop("__runner_exit__", None)
            for sid, r in res.items():
                out[sid] = r
            if crash:
                out.setdefault("__crashes__", []).append(crash)
    return out


def plugin_sha():
    """The orchestrator's observation cache is keyed by a tree hash that does not cover plug-in files;
    observations carry this fingerprint and the oracle re-observes when it is stale."""
    h = hashlib.sha256()
    here = os.path.dirname(os.path.abspath(__file__))
    for fn in ("fam_route.py", "gen_app_extra_route.py"):
        with open(os.path.join(here, fn), "rb") as f:
            h.update(f.read())
    return h.hexdigest()[:16]


def fresh(o, fam, tier):
    if "results" not in o or o.get("plugin_sha") == plugin_sha():
        return o
    L.log("route: cached observations were made by another version of fam_route.py; observing again")
    o = observe(tier)
    o.setdefault("family", fam)
    p = f"{L.OBS_ROOT}/{L.tree_hash()}/{fam}-{tier}.json"
    os.makedirs(os.path.dirname(p), exist_ok=True)
    with open(p + ".tmp", "w") as f:
        json.dump(o, f)
    os.replace(p + ".tmp", p)
    o["observations_reused"] = False
    return o


def observe(tier):
    t0 = time.time()
    d = f"{L.E2E_WORK}/{FAMILY}-{tier}"
    shutil.rmtree(d, ignore_errors=True)
    os.makedirs(d, exist_ok=True)
    tables, slices = tables_for(tier)
    caps = {}
    budget_s = float(os.environ.get("VERIF_ROUTE_BUDGET_S", "0") or 0) or (None if tier == "quick" else 17 * 60)
    singles = [single_spec(i, t) for i, t in enumerate(tables)]
    gen1 = L.generate_all(singles, f"{d}/singles")
    accepted = [i for i, s in enumerate(singles) if gen1[s["id"]]["exit"] == 0 and "lib_sha" in gen1[s["id"]]]
    if budget_s:
        # time cap (reported, never silent): compiling + serving + judging costs about 3x the verdict stage
        spent = time.time() - t0
        est = 3.0 * spent
        if spent + est > budget_s and accepted:
            keep = max(1, int(len(accepted) * max(0.0, budget_s - spent) / est))
            if keep < len(accepted):
                # an evenly strided subset of the enumeration order, so that every slice is still reached
                caps["accepted_tables_not_served_due_to_time_budget"] = len(accepted) - keep
                accepted = [accepted[(j * len(accepted)) // keep] for j in range(keep)]
    # a few tables are also compiled alone, so that the mechanisms a pack cannot reach (custom fallback
    # of the root blueprint of a domain-agnostic router) are exercised: the first accepted table of every
    # (structure, fallback in {root, both}) combination without domains
    solo, seen = [], set()
    for i in accepted:
        t = tables[i]
        k = (t["struct"], t["fb"])
        if t["dom"] == "none" and t["fb"] in ("root", "both") and k not in seen:
            seen.add(k)
            solo.append(i)
    groups = collections.OrderedDict((g, []) for g in ("plain", "dom", "domroot"))
    for i in accepted:
        g = pack_group(tables[i])
        if g == "solo":
            solo.append(i)
        else:
            groups[g].append((i, tables[i]))
    packs = []
    for g, members in groups.items():
        size = PACK_PLAIN if g == "plain" else PACK_DOMAIN
        for n, k in enumerate(range(0, len(members), size)):
            packs.append(pack_spec(g, n, members[k:k + size]))
    gen2 = L.generate_all(packs, f"{d}/packs") if packs else {}
    good_packs = [p for p in packs if gen2[p["id"]]["exit"] == 0 and "lib_sha" in gen2[p["id"]]]
    bad_packs = [p for p in packs if p not in good_packs]
    for p in bad_packs:  # members of a rejected pack are compiled alone
        solo.extend(p["members"])
    solo = sorted(set(solo))
    max_solo = 40 if tier == "quick" else 260
    if len(solo) > max_solo:
        caps["solo_units_dropped"] = len(solo) - max_solo
        solo = solo[:max_solo]
    allgen = f"{d}/gen"
    os.makedirs(allgen, exist_ok=True)
    units = []
    for p in good_packs:
        shutil.copytree(f"{d}/packs/gen/{p['id']}", f"{allgen}/{p['id']}")
        units.append(p)
    for i in solo:
        s = singles[i]
        shutil.copytree(f"{d}/singles/gen/{s['id']}", f"{allgen}/{s['id']}")
        units.append(s)
    build, results = {}, {}
    recheck = {}
    n_requests = 0
    if units:
        build, runners = L.build_batches(units, allgen, f"{d}/batch", batch_size=100)
        by_id = {u["id"]: u for u in units}
        for bd, ids, binp in runners:
            unit_reqs = {sid: unit_requests(by_id[sid], tier) for sid in ids}
            t1 = time.time()
            res = run_sharded(binp, unit_reqs)
            crashes = res.pop("__crashes__", None)
            n_requests += sum(len(v) for v in unit_reqs.values())
            L.log(f"route: {sum(len(v) for v in unit_reqs.values())} requests to {len(ids)} servers in {time.time() - t1:.1f}s")
            # determinism: every request whose outcome is not the primary expectation is sent again
            again = {}
            jobs = []
            for sid in ids:
                r = res.get(sid) or {"startup": None, "responses": []}
                st = r.get("startup")
                if crashes and (st is None or len(r["responses"]) < len(unit_reqs[sid])):
                    raise L.MachineryError(f"runner process crashed while serving {sid}: {crashes[0]}")
                outs = [outcome_of(x) for x in r["responses"]]
                results[sid] = {"startup": {k: v for k, v in (st or {}).items() if k != "trace"}, "outcomes": outs}
                if not st or not st.get("ok"):
                    continue
                if len(outs) != len(unit_reqs[sid]):
                    raise L.MachineryError(f"{sid}: {len(outs)} responses for {len(unit_reqs[sid])} requests")
                jobs.append((by_id[sid], tier, outs, {}, True))
            for lr in eval_units(jobs):
                if lr["machinery"]:
                    raise L.MachineryError(lr["machinery"])
                if lr["sus"]:
                    sus = lr["sus"][:400]
                    again[lr["sid"]] = (sus, [unit_reqs[lr["sid"]][qi] for qi in sus])
            if again:
                res2 = run_sharded(binp, {sid: reqs for sid, (_, reqs) in again.items()})
                res2.pop("__crashes__", None)
                for sid, (idxs, _) in again.items():
                    outs2 = [outcome_of(x) for x in (res2.get(sid) or {}).get("responses", [])]
                    recheck[sid] = {str(qi): o for qi, o in zip(idxs, outs2)}
    o = {
        "family": FAMILY, "tier": tier, "plugin_sha": plugin_sha(), "tables": tables, "slices": slices,
        "specs": [{k: v for k, v in s.items() if k != "requests"} for s in singles + packs],
        "gen": {sid: slim_gen(g) for sid, g in list(gen1.items()) + list(gen2.items())},
        "singles_gen": {}, "packs_gen": {}, "built_specs": [], "run": {}, "scripts": {},
        "unit_ids": [u["id"] for u in units], "build": build, "results": results, "recheck": recheck,
        "rejected_packs": [p["id"] for p in bad_packs], "solo": solo, "caps": caps,
        "n_requests_sent": n_requests, "route_observe_wall_s": round(time.time() - t0, 1),
    }
    return o


# --------------------------------------------------------------------------------------------------
# oracle
# --------------------------------------------------------------------------------------------------
def replay_spec(spec, reqs):
    s = {k: v for k, v in spec.items() if k != "requests"}
    s["requests"] = [{"method": r["method"], "path": r["path"], "host": r.get("host"), "plan": [], "t": r.get("t", 0)}
                     for r in reqs]
    return s


def describe_table(t):
    rs = ", ".join(f"{'+'.join(M.cat(h)['methods']) if isinstance(M.cat(h)['methods'], list) else M.cat(h)['methods']} "
                   f"{ALL_PATHS[pk]}" for (pk, mk), h in zip(t["routes"], handler_ids(t)))
    return f"routes[{rs}] structure={t['struct']} fallback={t['fb']} domains={t['dom']}"


def iter_units(o, tier):
    """(spec, requests, startup, outcomes, recheck) for both the family observation and the generic
    structure the replay loader builds ({"specs": [spec], "gen", "build", "run", "scripts"})."""
    if "results" in o:
        by_id = {s["id"]: s for s in o["specs"]}
        for sid in o["unit_ids"]:
            spec = by_id[sid]
            b = o["build"].get(sid)
            r = o["results"].get(sid)
            yield spec, unit_requests(spec, tier), b, (r or {}).get("startup"), (r or {}).get("outcomes", []), \
                o.get("recheck", {}).get(sid, {})
    else:
        for spec in o.get("specs", []):
            sid = spec["id"]
            if o["gen"][sid]["exit"] != 0:
                continue
            run = o.get("run", {}).get(sid) or {}
            st = run.get("startup")
            yield spec, spec.get("requests", []), o["build"].get(sid), st, [outcome_of(x) for x in run.get("responses", [])], {}


def eval_unit(job):
    """Judge every request of one served blueprint. Runs in a worker process; returns plain data.
    light=True: only the indexes of the requests whose outcome is not the primary expectation."""
    spec, tier, outs, recheck, light = job
    sid = spec["id"]
    reqs = unit_requests(spec, tier)
    res = {"sid": sid, "hist": collections.Counter(), "alt_hist": collections.Counter(), "distinct": set(), "samples": {},
           "observations": {}, "violations": [], "machinery": None, "tables": set(), "n": 0, "sus": []}
    if len(outs) != len(reqs):
        res["machinery"] = f"{sid}: {len(outs)} outcomes for {len(reqs)} requests"
        return res
    model = Model(spec)
    if model.mixed:
        res["hist"]["unit:mixed-domain-not-modelled"] += 1
        return res
    hist, seen_keys = res["hist"], set()
    for qi, (q, out) in enumerate(zip(reqs, outs)):
        exp = expect(model, q["method"], q["path"], q.get("host"))
        v, tag = verdict(exp, out)
        if light:
            if v != "ok":
                res["sus"].append(qi)
            continue
        entry = spec["tables"][q.get("t", 0)]
        t = entry["table"]
        res["tables"].add(entry["idx"])
        res["n"] += 1
        fbk = ""
        if exp.primary and exp.primary[0] == "f":
            fbk = ":custom" if exp.primary[1] else ":default"
            if exp.kind == "nomatch" and exp.primary[1]:
                fbk = ":custom-" + table_level(model, entry, model.fb_node.get(exp.primary[1]))
        branch = f"{exp.kind}{fbk}"
        if "path-overlap" in exp.tags and exp.kind in ("handler", "mm"):
            branch += ":by-priority"
        if "domain-overlap" in exp.tags:
            branch += ":domain-by-priority"
        hist[f"{branch}:{v}"] += 1
        if exp.kind == "mm" and v == "ok" and "priority-shadowed-full-match" in exp.tags:
            hist["observation:405-on-the-priority-pattern-although-a-lower-priority-pattern-accepts-the-method"] += 1
        if exp.kind != "nomatch" or (exp.primary and exp.primary[1]) or v != "ok":
            res["distinct"].add(f"{entry['idx']}|{exp.kind}|{exp.primary}|{out}")
        rq = [q["method"], q["path"], q.get("host")]
        if v == "alt":
            res["alt_hist"][f"{tag}: documented answer {fmt_exp(exp.primary).split(' ')[0]}, observed {out.split(':')[0]}"] += 1
            lst = res["observations"].setdefault("not_judged:" + tag, [])
            if len(lst) < 3:
                lst.append({"table": describe_table(t), "request": rq, "documented": fmt_exp(exp.primary), "observed": out})
        if v == "unjudged":
            lst = res["observations"].setdefault("not_judged:" + "+".join(exp.tags), [])
            if len(lst) < 3:
                lst.append({"table": describe_table(t), "request": rq, "observed": out})
        if v == "ok" and branch not in res["samples"]:
            res["samples"][branch] = {"table": describe_table(t), "served_as": sid, "request": rq,
                                      "expected": fmt_exp(exp.primary), "observed": out}
        if out[0] in "fd":
            al = out.split(":", 2)[2].split("+")
            if len(al) != len(set(al)):
                hist["observation:allowed-methods-list-has-a-repeated-entry"] += 1
        if str(qi) in recheck and recheck[str(qi)] != out:
            res["machinery"] = f"nondeterministic routing outcome for {sid} {q}: {out} then {recheck[str(qi)]}"
            return res
        if exp.kind == "ambiguous":
            cands = exp.info["candidates"]
            # one key per class of the method on which the guards overlap (all manifestations of "conflicts on
            # custom methods are not detected" collapse to one key)
            key = "route:ambiguous-accepted:same-path:overlap-on-" + ("standard" if q["method"] in STD9 else "custom") + "-method"
            if key not in seen_keys:
                seen_keys.add(key)
                res["violations"].append((
                    key,
                    f"pavexc accepted a blueprint in which {q['method']} {q['path']} is matched by {len(cands)} different routes "
                    f"with the same path pattern ({', '.join(r.cid for r in cands)}): there is no unique designated handler "
                    f"(observed: {out}); table: {describe_table(t)}",
                    {"oracle": "C07", "spec": replay_spec(spec, [q]), "table": t, "candidates": [r.cid for r in cands],
                     "observed": out, "request": q}))
        if v == "bad":
            key = violation_key(model, entry, exp, out)
            if key not in seen_keys:
                seen_keys.add(key)
                what = (f"{describe_table(t)} (served as {sid}): {q['method']} {q['path']} Host={q.get('host') or 'localhost'}: "
                        f"expected {fmt_exp(exp.primary)} [{exp.kind}{', ' + ','.join(exp.tags) if exp.tags else ''}], observed {out}")
                res["violations"].append((
                    key, what,
                    {"oracle": "C07", "spec": replay_spec(spec, [q]), "table": t, "request": q, "expected": fmt_exp(exp.primary),
                     "also_accepted": [fmt_exp(e) + " (" + tg + ")" for e, tg in exp.alts], "observed": out,
                     "observed_again": recheck.get(str(qi))}))
    return res


def eval_units(jobs):
    if not jobs:
        return []
    if len(jobs) == 1:
        return [eval_unit(jobs[0])]
    import multiprocessing
    M.load_catalog()  # before forking
    with cf.ProcessPoolExecutor(max_workers=min(L.NSLOTS, len(jobs)), mp_context=multiprocessing.get_context("fork")) as ex:
        return list(ex.map(eval_unit, jobs))


def unmount(entry, q):
    """The request as it reads for the table alone (no /t<j> mount prefix, top-level label `t`)."""
    path = q["path"][len(entry["mount"]):] if entry["mount"] else q["path"]
    host = q.get("host")
    if host and entry["tld"] != "t":
        host = re.sub(r"\." + re.escape(entry["tld"]) + r"(\.?)$", r".t\1", host)
    return {"method": q["method"], "path": path or "/", "host": host, "plan": [], "t": 0}


def confirm_and_report(pending, rep, tier, in_replay):
    """A violation seen on a packed blueprint is re-executed on the table alone (fresh pavexc + rustc +
    server): if the same key shows up there, the single-table case becomes the replay file (minimal);
    otherwise the packed case is reported as observed. Known findings and replays are reported directly."""
    first = collections.OrderedDict()
    for key, what, case in pending:
        first.setdefault(key, (what, case))
    todo = []
    for key, (what, case) in first.items():
        spec = case["spec"]
        if in_replay or key in rep.known or not spec.get("pack") or not case.get("request") or os.environ.get("VERIF_ROUTE_NO_CONFIRM"):
            continue
        q = case["request"]
        entry = spec["tables"][q.get("t", 0)]
        s1 = single_spec(entry["idx"], entry["table"])
        s1["id"] = f"routeconfirm{len(todo):03d}"
        s1["requests"] = [unmount(entry, q)]
        todo.append((key, s1))
    confirmed = {}
    if todo:
        import orchestrator
        d = f"{L.E2E_WORK}/{FAMILY}-confirm"
        shutil.rmtree(d, ignore_errors=True)
        o = orchestrator.observe_specs([s1 for _, s1 in todo], d)
        for key, s1 in todo:
            sid = s1["id"]
            run = o["run"].get(sid) or {}
            if o["gen"][sid]["exit"] != 0 or not (o["build"].get(sid) or {}).get("build_ok") or not (run.get("startup") or {}).get("ok"):
                continue
            r = eval_unit((s1, tier, [outcome_of(x) for x in run.get("responses", [])], {}, False))
            for k2, what2, case2 in r["violations"]:
                if k2 == key:
                    confirmed[key] = (what2, case2)
    for key, (what, case) in first.items():
        if key in confirmed:
            what2, case2 = confirmed[key]
            case2["also_observed_in_pack"] = {"pack": case["spec"]["id"], "request": case.get("request"), "observed": case.get("observed")}
            rep.violation(key, what2 + f" [first seen in {case['spec']['id']}, reproduced on the table alone]", case2)
        else:
            if any(k == key for k, _ in todo):
                what += " [NOT reproduced on the table alone: specific to the packed blueprint]"
            rep.violation(key, what, case)


def oracle_c07(obs, rep, tier):
    hist = collections.Counter()
    alt_hist = collections.Counter()
    distinct = set()
    samples = []
    sample_kinds = set()
    n_eval = 0
    n_servers = 0
    n_tables_served = set()
    verdicts = collections.Counter()
    reject_titles = collections.Counter()
    observations = collections.OrderedDict()
    caps = {}
    n_pavexc = 0
    obs = {fam: fresh(o, fam, tier) for fam, o in obs.items()}
    for fam, o in obs.items():
        caps.update(o.get("caps") or {})
        if "results" in o:
            for s in o["specs"]:
                g = o["gen"][s["id"]]
                n_pavexc += 1
                if s.get("pack"):
                    verdicts["pack:" + ("accepted" if g["exit"] == 0 else "rejected")] += 1
                    if g["exit"] != 0:
                        if g.get("timed_out"):
                            caps["pavexc_timeouts"] = caps.get("pavexc_timeouts", 0) + 1
                        observations.setdefault("rejected_packs", []).append(
                            {"pack": s["id"], "members_served_alone": True,
                             "diagnostic": "pavexc did not finish within the harness timeout (not a verdict)" if g.get("timed_out")
                             else error_title(g["stderr"])})
                else:
                    verdicts["table:" + ("accepted" if g["exit"] == 0 else "rejected")] += 1
                    t0 = s["tables"][0]["table"]
                    if g["exit"] == 0 and t0["dom"] in MUST_REJECT_DOMS:
                        rep.violation("route:conflicting-domain-guards-accepted",
                                      f"{describe_table(t0)}: pavexc accepted the blueprint although {MUST_REJECT_DOMS[t0['dom']]}: "
                                      f"{[d for d in DOMS[t0['dom']]]} (C20: two guards that can match the same host are rejected as conflicting)",
                                      {"oracle": "C07", "spec": replay_spec(s, []), "tables": [t0]})
                    if g["exit"] == 0 and t0.get("must_reject"):
                        rep.violation("route:overlapping-routes-accepted:" + "+".join(f"{a}.{b}" for a, b in t0["routes"]) + ":" + t0["struct"],
                                      f"{describe_table(t0)}: pavexc accepted the blueprint although {t0['must_reject']} "
                                      f"(C08: two routes that can match the same request are rejected)",
                                      {"oracle": "C07", "spec": replay_spec(s, []), "tables": [t0]})
                    if g["exit"] != 0:
                        if g.get("timed_out"):
                            # the harness's own limit (machine load), never a verdict: reported as a cap
                            reject_titles["pavexc did not finish within the harness timeout (not a verdict)"] += 1
                            caps["pavexc_timeouts"] = caps.get("pavexc_timeouts", 0) + 1
                        elif g.get("panic"):
                            m = re.search(r"in (compiler/[^\s,]+), line (\d+)", g.get("stderr") or "")
                            where = f"{m.group(1)}:{m.group(2)}" if m else "unknown"
                            reject_titles[f"pavexc PANIC at {where} (C09's business, not judged here)"] += 1
                            lst = observations.setdefault("pavexc_panics", [])
                            if len(lst) < 4:
                                lst.append({"table": describe_table(s["tables"][0]["table"]), "where": where})
                        else:
                            reject_titles[error_title(g["stderr"])] += 1
        jobs = []
        pending = []
        for spec, reqs, b, st, outs, recheck in iter_units(o, tier):
            sid = spec["id"]
            if b is not None and not b.get("build_ok"):
                hist["unit:does-not-compile(C01's business)"] += 1
                continue
            if st is None:
                L.machinery(f"no start-up record for {sid}")
            n_servers += 1
            if not st.get("ok"):
                msg = st.get("panic") or st.get("error") or ""
                hist["startup:panic" if "panic" in st else "startup:error"] += 1
                rep.violation(panic_key(msg),
                              f"pavexc accepted the blueprint {sid} ({'; '.join(describe_table(e['table']) for e in spec['tables'][:3])}"
                              f"{' ...' if len(spec['tables']) > 3 else ''}) but the generated server fails at start-up: {msg[:300]}",
                              {"oracle": "C07", "spec": replay_spec(spec, []), "startup": st,
                               "tables": [e["table"] for e in spec["tables"]]})
                continue
            hist["startup:ok"] += 1
            jobs.append((spec, tier, outs, recheck, False))
        for res in eval_units(jobs):
            if res["machinery"]:
                L.machinery(res["machinery"])
            hist.update(res["hist"])
            alt_hist.update(res["alt_hist"])
            distinct |= res["distinct"]
            n_eval += res["n"]
            n_tables_served |= res["tables"]
            for k, lst in res["observations"].items():
                cur = observations.setdefault(k, [])
                cur.extend(lst[:max(0, 3 - len(cur))])
            for branch, sm in res["samples"].items():
                if branch not in sample_kinds and len(samples) < 16:
                    sample_kinds.add(branch)
                    samples.append(sm)
            for key, what, case in res["violations"]:
                pending.append((key, what, case))
        confirm_and_report(pending, rep, tier, in_replay="results" not in o)
    if n_eval == 0 and n_servers == 0:
        L.machinery("ROUTE family: nothing was served")
    cov = {
        "evaluations": n_eval, "distinct_nontrivial": len(distinct), "exhaustive": not caps,
        "rule": "Route tables (slices listed in `slices`: full products of the named factor values) over paths "
                "{/, /a, /a/b, /a/{x}, /a/{*r}, /{x}/b, /{x}} x method guards {GET, POST, GET+POST, ANY, custom FOO, ANY+non_standard} "
                "x structure {flat, nest /p, nest /p/{q}, first route at root + rest under /p, two levels /p + /{q}} x fallback "
                "{framework default, custom at root, custom nested, both} x domain guards {none, one nest a.t, a.t + {s}.t, {*s}.t + a.t}; "
                "each table alone through the real pavexc for its verdict; accepted tables are compiled by rustc and served on loopback, "
                "alone or packed (plain tables nested under /t<j>, domain tables side by side with top-level label t<j>; the pack is an "
                "accepted blueprint and the reference is evaluated on the blueprint actually served). Requests: all paths of <= 3 segments "
                "over {a,b,p,zz} incl. `/` and trailing-slash variants (+ the same set below the nesting prefix) x {GET,POST,FOO,DELETE} x Host "
                "{a.t, b.t, x.a.t, a.t., nope, default}. Oracle: server starts; the component that logged the request (trace + body) is the "
                "one a reference router written from the routing guide designates (prefix concatenation, C20 host matching, ANY = the 9 standard "
                "methods, static > {p} > {*p} left to right among matching patterns, method mismatch -> fallback of the routes' blueprint with "
                "AllowedMethods / 405+Allow = union of the methods registered for that pattern, no match -> fallback of the innermost blueprint "
                "whose prefix/domain covers the request, 404 by default); outcomes the documentation does not force are accepted and counted in "
                "`not_judged`. non-trivial = (table, expected outcome, observed outcome) with an expected outcome other than the framework's 404.",
        "samples": samples, "slices": {f: o.get("slices") for f, o in obs.items()},
        "tables_enumerated": sum(len(o.get("tables", [])) for o in obs.values()), "tables_served": len(n_tables_served),
        "pavexc_runs": n_pavexc, "verdict_histogram": dict(verdicts), "rejection_diagnostics": dict(reject_titles),
        "servers_started": n_servers, "outcome_histogram": dict(sorted(hist.items())), "not_judged_histogram": dict(alt_hist),
        "observations": observations, "caps": caps,
        "requests_sent": sum(o.get("n_requests_sent", 0) for o in obs.values()),
        "route_observe_wall_s": {f: o.get("route_observe_wall_s") for f, o in obs.items()},
    }
    return "exploration", cov, [
        "one worker thread, sequential HTTP/1.1 requests with Connection: close; a request without a relevant Host is sent with `Host: localhost`",
        "overlap of different path patterns (or of domain guards) resolved by matchit's static > {p} > {*p} order is accepted, not judged",
        "request paths whose first segment merely starts with the nesting prefix (`/pzz`), and requests for which a lower-priority "
        "pattern or a foreign nested prefix would also fit, are recorded but not judged",
        "the request path equal to a nesting prefix (`/p`) is judged as covered by that prefix (rustdoc of Blueprint::fallback, DESIGN C07)",
    ]


PROPERTIES = {"C07": (lambda tier: [FAMILY], oracle_c07)}
