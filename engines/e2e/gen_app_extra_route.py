"""Extra verif_app components for the ROUTE family (fam_route.py, property C07).

* `RU_<path>_<methods>`: a second, independent copy of the ROUTE-family handlers over the C07 path
  alphabet, so that a route table can contain two *different* routes with the same path pattern and the
  same method guard (e.g. the same custom method twice on one path, DESIGN §7 item 6).
* `RT_<path>_GF` / `RU_<path>_GF`: a guard that MIXES a standard and a custom method (`GET` + `FOO`).
* `RFB<k>`: fallbacks that log the `AllowedMethods` they receive; one distinct fallback per
  (table, blueprint) when several tables are packed into one blueprint, so that a request answered by
  the fallback of a *different* table is visible.
"""

# must stay in sync with gen_app.ROUTE_PATHS / ROUTE_METHODS (restricted to the C07 alphabet)
PATHS = {"root": "/", "a": "/a", "ab": "/a/b", "ax": "/a/{x}", "ar": "/a/{*r}", "xb": "/{x}/b", "x": "/{x}"}
METHODS = {
    "get": ('method = "GET"', ["GET"]),
    "post": ('method = "POST"', ["POST"]),
    "gp": ('method = ["GET", "POST"]', ["GET", "POST"]),
    "any": ("allow(any_method)", "ANY"),
    "foo": ('method = "FOO", allow(non_standard_methods)', ["FOO"]),
    "anyns": ("allow(any_method, non_standard_methods)", "ANYNS"),
}
EXTRA_PATHS = {"y": "/{y}", "as": "/a/{*s}"}  # `ay` (= /a/{y}) already exists in gen_app.ROUTE_PATHS
MIXED = ('method = ["GET", "FOO"], allow(non_standard_methods)', ["GET", "FOO"])
N_FALLBACKS = 44


def gen(w, catalog):
    for pk, path in PATHS.items():
        for prefix, mk, (attr, methods) in [("ru", mk, v) for mk, v in METHODS.items()] + [("rt", "gf", MIXED), ("ru", "gf", MIXED)]:
            name = f"{prefix}_{pk}_{mk}"
            ident = name.upper()
            w(f"#[pavex::route({attr}, path = \"{path}\", id = \"{ident}\")]")
            w(f"pub fn {name}(p: &pavex::request::path::RawPathParams<'_, '_>) -> pavex::Response {{")
            w(f"    rt::call_params(\"handler\", \"{ident}\", p);")
            w(f"    rt::respond(\"h\", \"{ident}\")")
            w("}")
            catalog.append({"id": ident, "kind": "handler", "macro": "route", "inputs": [], "fallible": False, "err": None,
                            "path": path, "methods": methods, "route_family": True, "route_copy": 1 if prefix == "rt" else 2})
    # the same pattern SHAPES as `ax`, `x`, `ar` spelled with other parameter names (two templates that are the same route)
    for pk, path in EXTRA_PATHS.items():
        for mk in ("get", "post", "gp"):
            attr, methods = METHODS[mk]
            name = f"rt_{pk}_{mk}"
            ident = name.upper()
            w(f"#[pavex::route({attr}, path = \"{path}\", id = \"{ident}\")]")
            w(f"pub fn {name}(p: &pavex::request::path::RawPathParams<'_, '_>) -> pavex::Response {{")
            w(f"    rt::call_params(\"handler\", \"{ident}\", p);")
            w(f"    rt::respond(\"h\", \"{ident}\")")
            w("}")
            catalog.append({"id": ident, "kind": "handler", "macro": "route", "inputs": [], "fallible": False, "err": None,
                            "path": path, "methods": methods, "route_family": True, "route_copy": 1})
    for k in range(N_FALLBACKS):
        name = f"rfb{k:02d}"
        ident = name.upper()
        w(f"#[pavex::fallback(id = \"{ident}\")]")
        w(f"pub fn {name}(am: &pavex::router::AllowedMethods) -> pavex::Response {{")
        w(f"    rt::call_allowed(\"fallback\", \"{ident}\", am, &[]);")
        w(f"    rt::respond_status(\"fb\", \"{ident}\", 460)")
        w("}")
        catalog.append({"id": ident, "kind": "fallback", "macro": "fallback", "inputs": [], "allowed_methods": True,
                        "idx": 100 + k, "route_family": True})
    w()
