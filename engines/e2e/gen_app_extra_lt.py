"""Extra verif_app components for the `lt` family (fam_lt.py): lifetime-parameterised and generic components.

  * borrowed VIEWS: `V1x<'a>` built from `&'a T0x`, `V2x<'a>` built from `&'a V1x<'a>` (C_V2Rx) or from `V1x<'a>` by value
    (C_V2Vx); x in {P (plain), K (Clone)};
  * `ARCHx` consumes T0x by value (a sibling consumer of the value the views keep borrowed);
  * `Pair<'a, 'b>`: one constructor uses the SAME named lifetime in both slots, the other two different ones; handlers
    spell the type with elided lifetimes;
  * generic constructors `WG<T>` (from `&T`) and `WGV<T>` (from `T` by value), specialised per use site, with consumers of
    every kind (pre / wrap / post / handler) for `WG<T0P>` and `WG<T0K>`.
Bodies are instrumentation only; tags follow the verif_app convention (`Type#id/root/BY/o`), so construction events link a
view to the value it was built from.
"""


def gen(w, catalog):
    def add(cid, kind, macro, **kw):
        d = {"id": cid, "kind": kind, "macro": macro, "inputs": [], "fallible": False, "async": False, "err": None, "lt": True}
        d.update(kw)
        catalog.append(d)

    w("// ================= gen_app_extra_lt.py =================")
    for x in ("P", "K"):
        t0 = f"T0{x}"
        w(f"#[derive(Debug)] pub struct V1{x}<'a> {{ pub src: &'a {t0}, pub id: u64, pub by: &'static str }}")
        w(f"impl<'a> V1{x}<'a> {{ pub fn tag(&self) -> String {{ rt::tag(\"V1{x}\", self.id, self.id, self.by, false) }} }}")
        w(f"#[derive(Debug)] pub struct V2{x}<'a> {{ pub src: &'a {t0}, pub id: u64, pub by: &'static str }}")
        w(f"impl<'a> V2{x}<'a> {{ pub fn tag(&self) -> String {{ rt::tag(\"V2{x}\", self.id, self.id, self.by, false) }} }}")
        w(f"#[derive(Debug)] pub struct Arch{x} {{ pub id: u64 }}")
        w(f"impl Arch{x} {{ pub fn tag(&self) -> String {{ rt::tag(\"Arch{x}\", self.id, self.id, \"C_ARCH{x}\", false) }} }}")
        # constructors
        w(f"#[pavex::request_scoped(id = \"C_V1{x}\")]")
        w(f"pub fn c_v1{x.lower()}<'a>(a0: &'a {t0}) -> V1{x}<'a> {{ let id = rt::new_value(\"V1{x}\", \"C_V1{x}\", &[a0.tag()]); V1{x} {{ src: a0, id, by: \"C_V1{x}\" }} }}")
        add(f"C_V1{x}", "ctor", "constructor", out=f"V1{x}", inputs=[{"type": t0, "mode": "r"}])
        w(f"#[pavex::request_scoped(id = \"C_V2R{x}\")]")
        w(f"pub fn c_v2r{x.lower()}<'a>(a0: &'a V1{x}<'a>) -> V2{x}<'a> {{ let id = rt::new_value(\"V2{x}\", \"C_V2R{x}\", &[a0.tag()]); V2{x} {{ src: a0.src, id, by: \"C_V2R{x}\" }} }}")
        add(f"C_V2R{x}", "ctor", "constructor", out=f"V2{x}", inputs=[{"type": f"V1{x}", "mode": "r"}])
        w(f"#[pavex::request_scoped(id = \"C_V2V{x}\")]")
        w(f"pub fn c_v2v{x.lower()}<'a>(a0: V1{x}<'a>) -> V2{x}<'a> {{ let id = rt::new_value(\"V2{x}\", \"C_V2V{x}\", &[a0.tag()]); V2{x} {{ src: a0.src, id, by: \"C_V2V{x}\" }} }}")
        add(f"C_V2V{x}", "ctor", "constructor", out=f"V2{x}", inputs=[{"type": f"V1{x}", "mode": "v"}])
        # the same three constructors written with ELIDED lifetimes (`&T -> V<'_>`, `V1<'_> -> V2<'_>`): the compiler has to un-elide
        # the output lifetime from the inputs, also when the only input that carries one is not a reference
        w(f"#[pavex::request_scoped(id = \"C_V1E{x}\")]")
        w(f"pub fn c_v1e{x.lower()}(a0: &{t0}) -> V1{x}<'_> {{ let id = rt::new_value(\"V1{x}\", \"C_V1E{x}\", &[a0.tag()]); V1{x} {{ src: a0, id, by: \"C_V1E{x}\" }} }}")
        add(f"C_V1E{x}", "ctor", "constructor", out=f"V1{x}", inputs=[{"type": t0, "mode": "r"}])
        w(f"#[pavex::request_scoped(id = \"C_V2RE{x}\")]")
        w(f"pub fn c_v2re{x.lower()}<'a>(a0: &'a V1{x}<'_>) -> V2{x}<'a> {{ let id = rt::new_value(\"V2{x}\", \"C_V2RE{x}\", &[a0.tag()]); V2{x} {{ src: a0.src, id, by: \"C_V2RE{x}\" }} }}")
        add(f"C_V2RE{x}", "ctor", "constructor", out=f"V2{x}", inputs=[{"type": f"V1{x}", "mode": "r"}])
        w(f"#[pavex::request_scoped(id = \"C_V2VE{x}\")]")
        w(f"pub fn c_v2ve{x.lower()}(a0: V1{x}<'_>) -> V2{x}<'_> {{ let id = rt::new_value(\"V2{x}\", \"C_V2VE{x}\", &[a0.tag()]); V2{x} {{ src: a0.src, id, by: \"C_V2VE{x}\" }} }}")
        add(f"C_V2VE{x}", "ctor", "constructor", out=f"V2{x}", inputs=[{"type": f"V1{x}", "mode": "v"}])
        w(f"#[pavex::request_scoped(id = \"C_ARCH{x}\")]")
        w(f"pub fn c_arch{x.lower()}(a0: {t0}) -> Arch{x} {{ let id = rt::new_value(\"Arch{x}\", \"C_ARCH{x}\", &[a0.tag()]); Arch{x} {{ id }} }}")
        add(f"C_ARCH{x}", "ctor", "constructor", out=f"Arch{x}", inputs=[{"type": t0, "mode": "v"}])
        # handlers: (view parameter) x (extra consumer of T0)
        views = {"V1V": (f"V1{x}<'_>", f"V1{x}", "v"), "V1R": (f"&V1{x}<'_>", f"V1{x}", "r"),
                 "V2V": (f"V2{x}<'_>", f"V2{x}", "v"), "V2R": (f"&V2{x}<'_>", f"V2{x}", "r")}
        extras = {"0": None, "R": (f"&{t0}", t0, "r"), "V": (t0, t0, "v"), "A": (f"Arch{x}", f"Arch{x}", "v")}
        for vk, (vty, vcat, vmode) in views.items():
            for ek, ex in extras.items():
                cid = f"HLT_{x}_{vk}_{ek}"
                ps = [f"a0: {vty}"] + ([f"a1: {ex[0]}"] if ex else [])
                tags = "a0.tag(), a0.src.tag()" + (", a1.tag()" if ex else "")
                w(f"#[pavex::get(path = \"/r0\", id = \"{cid}\")]")
                w(f"pub fn {cid.lower()}({', '.join(ps)}) -> pavex::Response {{ rt::call(\"handler\", \"{cid}\", &[{tags}]); rt::respond(\"h\", \"{cid}\") }}")
                add(cid, "handler", "route", path="/r0", methods=["GET"],
                    inputs=[{"type": vcat, "mode": vmode}] + ([{"type": ex[1], "mode": ex[2]}] if ex else []))
        # middlewares borrowing V1
        cid = f"PRELT_{x}_V1R"
        w(f"#[pavex::pre_process(id = \"{cid}\")]")
        w(f"pub fn {cid.lower()}(a0: &V1{x}<'_>) -> pavex::middleware::Processing {{ rt::call(\"pre\", \"{cid}\", &[a0.tag(), a0.src.tag()]); pavex::middleware::Processing::Continue }}")
        add(cid, "pre", "pre_process", inputs=[{"type": f"V1{x}", "mode": "r"}], idx=1)
        cid = f"POSTLT_{x}_V1R"
        w(f"#[pavex::post_process(id = \"{cid}\")]")
        w(f"pub fn {cid.lower()}(resp: pavex::Response, a0: &V1{x}<'_>) -> pavex::Response {{ rt::call(\"post\", \"{cid}\", &[a0.tag(), a0.src.tag()]); resp }}")
        add(cid, "post", "post_process", inputs=[{"type": f"V1{x}", "mode": "r"}], idx=1)
        cid = f"WRAPLT_{x}_V1R"
        w(f"#[pavex::wrap(id = \"{cid}\")]")
        w(f"pub async fn {cid.lower()}<C>(next: pavex::middleware::Next<C>, a0: &V1{x}<'_>) -> pavex::Response")
        w("where C: std::future::IntoFuture<Output = pavex::Response> {")
        w(f"    rt::call(\"wrap\", \"{cid}\", &[a0.tag(), a0.src.tag()]); let resp = next.await; rt::ev(format!(\"wrapexit {cid}\")); resp }}")
        add(cid, "wrap", "wrap", inputs=[{"type": f"V1{x}", "mode": "r"}], idx=1)
    # pairs
    w("#[derive(Debug)] pub struct Pair<'a, 'b> { pub x: &'a T0P, pub y: &'b T1P, pub id: u64, pub by: &'static str }")
    w("impl<'a, 'b> Pair<'a, 'b> { pub fn tag(&self) -> String { rt::tag(\"Pair\", self.id, self.id, self.by, false) } }")
    w("#[pavex::request_scoped(id = \"C_PAIR_SAME\")]")
    w("pub fn c_pair_same<'a>(a0: &'a T0P, a1: &'a T1P) -> Pair<'a, 'a> { let id = rt::new_value(\"Pair\", \"C_PAIR_SAME\", &[a0.tag(), a1.tag()]); Pair { x: a0, y: a1, id, by: \"C_PAIR_SAME\" } }")
    add("C_PAIR_SAME", "ctor", "constructor", out="Pair", inputs=[{"type": "T0P", "mode": "r"}, {"type": "T1P", "mode": "r"}])
    w("#[pavex::request_scoped(id = \"C_PAIR_DIFF\")]")
    w("pub fn c_pair_diff<'a, 'b>(a0: &'a T0P, a1: &'b T1P) -> Pair<'a, 'b> { let id = rt::new_value(\"Pair\", \"C_PAIR_DIFF\", &[a0.tag(), a1.tag()]); Pair { x: a0, y: a1, id, by: \"C_PAIR_DIFF\" } }")
    add("C_PAIR_DIFF", "ctor", "constructor", out="Pair", inputs=[{"type": "T0P", "mode": "r"}, {"type": "T1P", "mode": "r"}])
    for cid, ty, mode in (("HLT_PAIR_V", "Pair<'_, '_>", "v"), ("HLT_PAIR_R", "&Pair<'_, '_>", "r")):
        w(f"#[pavex::get(path = \"/r0\", id = \"{cid}\")]")
        w(f"pub fn {cid.lower()}(a0: {ty}) -> pavex::Response {{ rt::call(\"handler\", \"{cid}\", &[a0.tag(), a0.x.tag(), a0.y.tag()]); rt::respond(\"h\", \"{cid}\") }}")
        add(cid, "handler", "route", path="/r0", methods=["GET"], inputs=[{"type": "Pair", "mode": mode}])
    w("#[pavex::get(path = \"/r0\", id = \"HLT_PAIR_NAMED\")]")
    w("pub fn hlt_pair_named<'x, 'y>(a0: &Pair<'x, 'y>) -> pavex::Response { rt::call(\"handler\", \"HLT_PAIR_NAMED\", &[a0.tag(), a0.x.tag(), a0.y.tag()]); rt::respond(\"h\", \"HLT_PAIR_NAMED\") }")
    add("HLT_PAIR_NAMED", "handler", "route", path="/r0", methods=["GET"], inputs=[{"type": "Pair", "mode": "r"}])
    # generic constructors
    w("#[derive(Debug)] pub struct WG<T> { pub inner: String, pub id: u64, _t: std::marker::PhantomData<T> }")
    w("impl<T> WG<T> { pub fn tag(&self) -> String { rt::tag(\"WG\", self.id, self.id, \"C_WG\", false) } }")
    w("#[pavex::request_scoped(id = \"C_WG\")]")
    w("pub fn c_wg<T: crate::Tagged>(a0: &T) -> WG<T> { let id = rt::new_value(\"WG\", \"C_WG\", &[a0.tagged()]); WG { inner: a0.tagged(), id, _t: std::marker::PhantomData } }")
    add("C_WG", "ctor", "constructor", out="WG<T>", inputs=[{"type": "T", "mode": "r"}], generic=True)
    w("#[derive(Debug)] pub struct WGV<T> { pub inner: String, pub id: u64, _t: std::marker::PhantomData<T> }")
    w("impl<T> WGV<T> { pub fn tag(&self) -> String { rt::tag(\"WGV\", self.id, self.id, \"C_WGV\", false) } }")
    w("#[pavex::request_scoped(id = \"C_WGV\")]")
    w("pub fn c_wgv<T: crate::Tagged>(a0: T) -> WGV<T> { let id = rt::new_value(\"WGV\", \"C_WGV\", &[a0.tagged()]); WGV { inner: a0.tagged(), id, _t: std::marker::PhantomData } }")
    add("C_WGV", "ctor", "constructor", out="WGV<T>", inputs=[{"type": "T", "mode": "v"}], generic=True)
    for x in ("P", "K"):
        t0 = f"T0{x}"
        for g, gm, gty in (("WG", "r", f"&WG<{t0}>"), ("WGV", "r", f"&WGV<{t0}>")):
            cid = f"HLT_{g}_{x}"
            w(f"#[pavex::get(path = \"/r0\", id = \"{cid}\")]")
            w(f"pub fn {cid.lower()}(a0: {gty}) -> pavex::Response {{ rt::call(\"handler\", \"{cid}\", &[a0.tag(), a0.inner.clone()]); rt::respond(\"h\", \"{cid}\") }}")
            add(cid, "handler", "route", path="/r0", methods=["GET"], inputs=[{"type": f"{g}<{t0}>", "mode": gm}])
            cid = f"H1LT_{g}_{x}"
            w(f"#[pavex::get(path = \"/r1\", id = \"{cid}\")]")
            w(f"pub fn {cid.lower()}(a0: {gty}) -> pavex::Response {{ rt::call(\"handler\", \"{cid}\", &[a0.tag(), a0.inner.clone()]); rt::respond(\"h\", \"{cid}\") }}")
            add(cid, "handler", "route", path="/r1", methods=["GET"], inputs=[{"type": f"{g}<{t0}>", "mode": gm}])
            cid = f"PRELT_{g}_{x}"
            w(f"#[pavex::pre_process(id = \"{cid}\")]")
            w(f"pub fn {cid.lower()}(a0: {gty}) -> pavex::middleware::Processing {{ rt::call(\"pre\", \"{cid}\", &[a0.tag(), a0.inner.clone()]); pavex::middleware::Processing::Continue }}")
            add(cid, "pre", "pre_process", inputs=[{"type": f"{g}<{t0}>", "mode": gm}], idx=1)
            cid = f"POSTLT_{g}_{x}"
            w(f"#[pavex::post_process(id = \"{cid}\")]")
            w(f"pub fn {cid.lower()}(resp: pavex::Response, a0: {gty}) -> pavex::Response {{ rt::call(\"post\", \"{cid}\", &[a0.tag(), a0.inner.clone()]); resp }}")
            add(cid, "post", "post_process", inputs=[{"type": f"{g}<{t0}>", "mode": gm}], idx=1)
            cid = f"WRAPLT_{g}_{x}"
            w(f"#[pavex::wrap(id = \"{cid}\")]")
            w(f"pub async fn {cid.lower()}<C>(next: pavex::middleware::Next<C>, a0: {gty}) -> pavex::Response")
            w("where C: std::future::IntoFuture<Output = pavex::Response> {")
            w(f"    rt::call(\"wrap\", \"{cid}\", &[a0.tag(), a0.inner.clone()]); let resp = next.await; rt::ev(format!(\"wrapexit {cid}\")); resp }}")
            add(cid, "wrap", "wrap", inputs=[{"type": f"{g}<{t0}>", "mode": gm}], idx=1)
    w()
