"""FW family of the e2e engine: FRAMEWORK-PROVIDED inputs needed in exactly one place (or in two).

Feeds C01 (accepted => the generated crate compiles), C09 (verdict / no panic) and a run-time comparison of the values
every consumer received with the request that was sent (reported under VALUES_PROPERTY).

Code under test: compiler/pavexc/src/compiler/codegen/router.rs (`path_router`: the closure `needs_framework_item`
decides once per generated `route` method whether `request_body`, `connection_info` and `url_params` are materialised,
from the needs of (a) the method-specific pipelines of every path, (b) the catch-all pipeline of every path, (c) the
root fallback; `codegen_invocation` / `routing_failure_fallback_block` generate every match arm from that pipeline's
own needs) and analyses/processing_pipeline/codegen.rs (`needs_input_type` looks at stage 0 of a pipeline only, so the
need of an inner stage has to be threaded through the `Next` states of the wrapping middlewares).

Enumerated space
  trees      R | R>A (A nested under `/a`) | R>A>B (B nested under `/b` inside A), every level with its own
             `GET /fw/{x}` handler, `GET /plain` handler and custom fallback; D>A: the domain-based router (A nested with
             the domain guard `a.t`, the root has middlewares and a fallback but no routes)
  positions  per level L: H_L (the /fw/{x} handler), F_L (the fallback), PRE_L / WRAP_L / POST_L (middlewares registered
             in L), CH_L / CF_L (request-scoped constructor `C_FWV_<item>` of a marker type, registered at the root, whose
             only user is the handler / the fallback of L), EH_L (error handler of L's fallible handler), OBS_L (error
             observer registered in L)
  items      RH (&RequestHead), CIV / CIR (ConnectionInfo, &), BV / BR (RawIncomingBody, &), PPV / PPR (RawPathParams, &),
             MPV / MPR (MatchedPathPattern, &), AMV / AMR (AllowedMethods, &)
  singles    exactly ONE component of the whole application takes a framework input: every (position, item)
  pairs      exactly TWO: every unordered pair of positions that can coexist (H/CH/EH|OBS share the handler slot of a
             level, F/CF the fallback slot) x {same item twice (all 11), two different item classes (one mode per class)}
  skeleton   lean = no middleware except the consuming ones; full = an input-free pre, wrap and post at every level
  every other component of the blueprint takes no framework input. One blueprint = one pavexc run = one generated
  crate (never packed: the property under test is a whole-router decision).
Requests per level (prefix P): GET P/fw/<n>, GET P/plain, GET P/zz (no route: fallback of the level), POST P/fw/<n> and
  POST P/plain (method not allowed: fallback of the level with AllowedMethods), and GET P/fw/<n> with the fault plan
  `fail:FWHF_<L>` when the level's handler is the fallible one (error handler / observer positions). Tree D>A: the
  same with `Host: a.t`, plus two requests with `Host: b.t` (no guard matches: root fallback).
Tiers     quick: slices Q1-Q6 of `enumerate_specs` (every (position, item) alone on R>A; rotating items on R, on the full
          skeleton, on level B and on D>A; every other compatible position pair of R>A with a rotating item combination).
          thorough: singles on every tree with both skeletons, pairs of R and R>A with {same item twice: all 11} +
          {3 rotating different-class combinations}, pairs of D>A and of R>A>B (with a position in B) with the same item
          twice; what is left out of the full product is counted in `caps` (VERIF_FW_FULL=1 enumerates the full product,
          21852 blueprints, hours). Wall-clock budget of the thorough tier: 17 min (VERIF_FW_BUDGET_S), blueprints not
          compiled when it runs out are counted in `caps` (build order is spread evenly over the enumeration).
Keys      fw:accepted-but-does-not-compile:<position>:<item>:<rustc code>   (C01; `<position>@domain` on tree D>A; a pair is
                                                                            attributed to a failing single when there is one)
          fw:wrong-value:<item>:<position>, fw:unexpected-response:<request kind>, fw:startup-failure   (VALUES_PROPERTY)
          fw:panic:<where> / fw:hang / ...                                  (C09, shared oracle)
VERIF_SEED rotates the item choices of the rotating slices and the enumeration order, nothing else.
"""
import collections
import itertools
import json
import os
import re
import shutil
import time

import lib_e2e as L

FAMILY = "fw"
VALUES_PROPERTY = "C07"
BATCH_SIZE = 110

TREES = collections.OrderedDict([("R", ["R"]), ("R>A", ["R", "A"]), ("R>A>B", ["R", "A", "B"]), ("D>A", ["R", "A"])])
PREFIX = {"R": "", "A": "/a", "B": "/a/b"}
NEST_PREFIX = {"A": "/a", "B": "/b"}
# Tree D>A (domain-based router, codegen/router.rs `domain_router`): the root blueprint has middlewares and a fallback
# but no route of its own; A is nested with the domain guard `a.t` and no path prefix. A request whose Host matches no
# guard is answered by the root fallback from inside `Router::route` itself.
DOMAIN_TREE = "D>A"
DOMAIN = "a.t"
OTHER_HOST = "b.t"
ROOT_ROUTE_KINDS = ("H", "CH", "EH", "OBS")
PARAM_VALUE = {"R": "7", "A": "8", "B": "9"}
POS_KINDS = ["H", "F", "PRE", "WRAP", "POST", "CH", "CF", "EH", "OBS"]
HANDLER_SLOT = {"H": "h", "CH": "ch", "EH": "f", "OBS": "f"}  # EH and OBS both use the fallible handler: compatible
FALLBACK_SLOT = ("F", "CF")
ITEMS = collections.OrderedDict([
    ("RH", "RH"), ("CIV", "CI"), ("CIR", "CI"), ("BV", "B"), ("BR", "B"), ("PPV", "PP"), ("PPR", "PP"),
    ("MPV", "MP"), ("MPR", "MP"), ("AMV", "AM"), ("AMR", "AM")])
PRIMARY = ["RH", "CIV", "BV", "PPR", "MPV", "AMR"]  # one mode per class for the "two different items" pairs
ITEM_TYPE = {"RH": "&RequestHead", "CIV": "ConnectionInfo", "CIR": "&ConnectionInfo", "BV": "RawIncomingBody", "BR": "&RawIncomingBody",
             "PPV": "RawPathParams", "PPR": "&RawPathParams", "MPV": "MatchedPathPattern", "MPR": "&MatchedPathPattern",
             "AMV": "AllowedMethods", "AMR": "&AllowedMethods"}


def levels_of(tree):
    return TREES[tree]


def chain(level):
    return ["R", "A", "B"][:["R", "A", "B"].index(level) + 1]


def prefix_of(tree, lv):
    return "" if tree == DOMAIN_TREE else PREFIX[lv]


def positions(tree):
    return [f"{k}_{lv}" for lv in levels_of(tree) for k in POS_KINDS
            if not (tree == DOMAIN_TREE and lv == "R" and k in ROOT_ROUTE_KINDS)]


def split_pos(pos):
    k, lv = pos.rsplit("_", 1)
    return k, lv


def compatible(p1, p2):
    (k1, l1), (k2, l2) = split_pos(p1), split_pos(p2)
    if p1 == p2:
        return False
    if l1 != l2:
        return True
    if k1 in HANDLER_SLOT and k2 in HANDLER_SLOT:
        return HANDLER_SLOT[k1] == HANDLER_SLOT[k2]
    if k1 in FALLBACK_SLOT and k2 in FALLBACK_SLOT:
        return False
    return True


# --------------------------------------------------------------------------------------------------
# (tree, consumers, skeleton) -> blueprint
# --------------------------------------------------------------------------------------------------
def component_of(pos, item):
    """Component that logs the `fwsee` event of this consumer."""
    k, lv = split_pos(pos)
    return {"H": f"FWH_{lv}_{item}", "F": f"FWFB_{lv}_{item}", "PRE": f"FWPRE_{lv}_{item}", "WRAP": f"FWWRAP_{lv}_{item}",
            "POST": f"FWPOST_{lv}_{item}", "CH": f"C_FWV_{item}", "CF": f"C_FWV_{item}", "EH": f"FWEH_{lv}_{item}",
            "OBS": f"FWOBS_{lv}_{item}"}[k]


def level_plan(tree, consumers, full):
    """-> {level: {"handler", "eh", "fallback", "pre", "wrap", "post", "observers"}}, [constructors at the root]"""
    by = {pos: item for pos, item in consumers}
    plan, ctors = collections.OrderedDict(), []
    for lv in levels_of(tree):
        g = lambda k: by.get(f"{k}_{lv}")
        d = {"handler": f"FWH_{lv}_0", "eh": None, "fallback": f"FWFB_{lv}_0", "observers": []}
        if g("H"):
            d["handler"] = f"FWH_{lv}_{g('H')}"
        elif g("CH"):
            d["handler"] = f"FWHV_{lv}_{g('CH')}"
            ctors.append(f"C_FWV_{g('CH')}")
        elif g("EH") or g("OBS"):
            d["handler"] = f"FWHF_{lv}"
            d["eh"] = f"FWEH_{lv}_{g('EH') or '0'}"
            if g("OBS"):
                d["observers"].append(f"FWOBS_{lv}_{g('OBS')}")
        if g("F"):
            d["fallback"] = f"FWFB_{lv}_{g('F')}"
        elif g("CF"):
            d["fallback"] = f"FWFBV_{lv}_{g('CF')}"
            ctors.append(f"C_FWV_{g('CF')}")
        for k, comp in (("PRE", "FWPRE"), ("WRAP", "FWWRAP"), ("POST", "FWPOST")):
            d[k.lower()] = f"{comp}_{lv}_{g(k)}" if g(k) else (f"{comp}_{lv}_0" if full else None)
        plan[lv] = d
    return plan, list(dict.fromkeys(ctors))


def blueprint_ops(tree, consumers, full):
    plan, ctors = level_plan(tree, consumers, full)
    lvs = levels_of(tree)

    def ops_of(i):
        lv = lvs[i]
        d = plan[lv]
        ops = [{"k": "observer", "c": c} for c in d["observers"]]
        if lv == "R":
            ops += [{"k": "ctor", "c": c, "lc": "request_scoped"} for c in ctors]
        for k in ("pre", "wrap", "post"):
            if d[k]:
                ops.append({"k": k, "c": d[k]})
        h = {"k": "route", "c": d["handler"]}
        if d["eh"]:
            h["eh"] = d["eh"]
        if not (tree == DOMAIN_TREE and lv == "R"):
            ops += [h, {"k": "route", "c": f"FWPL_{lv}"}]
        ops.append({"k": "fallback", "c": d["fallback"]})
        if i + 1 < len(lvs):
            nest = {"k": "nest", "bp": {"ops": ops_of(i + 1)}}
            if tree == DOMAIN_TREE:
                nest["domain"] = DOMAIN
            else:
                nest["prefix"] = NEST_PREFIX[lvs[i + 1]]
            ops.append(nest)
        return ops

    return ops_of(0), plan


def requests_of(tree, plan):
    out = []
    if tree == DOMAIN_TREE:
        v = PARAM_VALUE["A"]
        for m, path, kind in (("GET", f"/fw/{v}", "handler"), ("GET", "/plain", "plain"), ("GET", "/zz", "nomatch"),
                              ("POST", f"/fw/{v}", "mm"), ("POST", "/plain", "mm-plain")):
            out.append({"method": m, "path": path, "host": DOMAIN, "plan": [], "kind": kind, "level": "A"})
        if plan["A"]["eh"]:
            out.append({"method": "GET", "path": f"/fw/{v}", "host": DOMAIN, "plan": ["fail:FWHF_A"], "kind": "fail", "level": "A"})
        # no domain guard matches: the root fallback, whatever the path
        out.append({"method": "GET", "path": f"/fw/{v}", "host": OTHER_HOST, "plan": [], "kind": "nomatch", "level": "R"})
        out.append({"method": "POST", "path": "/zz", "host": OTHER_HOST, "plan": [], "kind": "nomatch", "level": "R"})
        return out
    for lv in levels_of(tree):
        p, v = PREFIX[lv], PARAM_VALUE[lv]
        out.append({"method": "GET", "path": f"{p}/fw/{v}", "plan": [], "kind": "handler", "level": lv})
        out.append({"method": "GET", "path": f"{p}/plain", "plan": [], "kind": "plain", "level": lv})
        out.append({"method": "GET", "path": f"{p}/zz", "plan": [], "kind": "nomatch", "level": lv})
        out.append({"method": "POST", "path": f"{p}/fw/{v}", "plan": [], "kind": "mm", "level": lv})
        out.append({"method": "POST", "path": f"{p}/plain", "plan": [], "kind": "mm-plain", "level": lv})
        if plan[lv]["eh"]:
            out.append({"method": "GET", "path": f"{p}/fw/{v}", "plan": [f"fail:FWHF_{lv}"], "kind": "fail", "level": lv})
    return out


def build(tree, consumers, full=False, sid=None):
    consumers = [list(c) for c in consumers]
    ops, plan = blueprint_ops(tree, consumers, full)
    return {"id": sid, "family": FAMILY, "bp": {"ops": ops}, "requests": requests_of(tree, plan),
            "fw": {"tree": tree, "consumers": consumers, "full": full}}


# --------------------------------------------------------------------------------------------------
# enumeration
# --------------------------------------------------------------------------------------------------
def item_combos_for_pairs():
    same = [(i, i) for i in ITEMS]
    diff = [(i, j) for i in PRIMARY for j in PRIMARY if ITEMS[i] != ITEMS[j]]
    return same, diff


def position_pairs(tree):
    ps = positions(tree)
    return [(p1, p2) for p1, p2 in itertools.combinations(ps, 2) if compatible(p1, p2)]


def enumerate_specs(tier):
    """-> (specs, slices: {slice name: count}, caps: {name: count not enumerated})"""
    seed = int(os.environ.get("VERIF_SEED", "0") or 0)
    specs, slices, caps = [], collections.OrderedDict(), {}

    def add(name, tree, consumers, full=False):
        specs.append(build(tree, consumers, full))
        slices[name] = slices.get(name, 0) + 1

    same, diff = item_combos_for_pairs()
    items = list(ITEMS)
    full_product = bool(os.environ.get("VERIF_FW_FULL"))
    if tier == "quick":
        # Q1 every (position, item) alone, tree R>A, lean skeleton
        for pos in positions("R>A"):
            for it in ITEMS:
                add("Q1:single:R>A:lean", "R>A", [(pos, it)])
        k = seed
        # Q2 tree R alone (the root fallback is also every path's catch-all), two rotating items per position
        for pos in positions("R"):
            for j in range(2):
                add("Q2:single:R:lean", "R", [(pos, items[(k + 5 * j) % len(items)])])
            k += 1
        # Q3 full skeleton (the need has to be threaded through input-free wrapping middlewares): rotating item per position
        for pos in positions("R>A"):
            add("Q3:single:R>A:full", "R>A", [(pos, items[k % len(items)])], full=True)
            k += 4
        # Q4 deepest level of R>A>B, rotating item
        for pos in [p for p in positions("R>A>B") if p.endswith("_B")]:
            add("Q4:single:R>A>B:lean", "R>A>B", [(pos, items[k % len(items)])])
            k += 3
        # Q6 domain-based router (tree D>A): every position, three rotating items
        for pos in positions(DOMAIN_TREE):
            for j in range(3):
                add("Q6:single:D>A:lean", DOMAIN_TREE, [(pos, items[(k + 4 * j) % len(items)])], full=(j == 2 and pos.startswith(("H_", "F_"))))
            k += 1
        # Q5 rotating subset of the pairs of R>A: every other compatible position pair, item combination rotating over
        # {same item twice} + {two different classes}
        combos = same + diff
        for n, (p1, p2) in enumerate(position_pairs("R>A")):
            if (n + seed) % 2:
                continue
            i1, i2 = combos[(n // 2 * 7 + seed) % len(combos)]
            add("Q5:pair:R>A", "R>A", [(p1, i1), (p2, i2)], full=(n % 8 == 6))
    else:
        # T1 every (position, item) alone, both skeletons; in R>A>B only the positions of level B (a position of R or A
        # in R>A>B differs from the same position in R>A only by the presence of an input-free level B)
        for tree in TREES:
            for full in (False, True):
                for pos in positions(tree):
                    if tree == "R>A>B" and not pos.endswith("_B") and not full_product:
                        caps["singles_of_tree_R>A>B_outside_level_B_not_enumerated"] = \
                            caps.get("singles_of_tree_R>A>B_outside_level_B_not_enumerated", 0) + len(ITEMS)
                        continue
                    for it in ITEMS:
                        add(f"T1:single:{tree}:{'full' if full else 'lean'}", tree, [(pos, it)], full)
        # T2 pairs: every compatible position pair x {same item twice (all 11)} + {two different classes: all 30 ordered
        # combinations with VERIF_FW_FULL=1, else 3 rotating ones (the remainder is a stated cap)}
        for tree in ("R", "R>A"):
            for n, (p1, p2) in enumerate(position_pairs(tree)):
                dd = diff if full_product else [diff[(n * 3 + j * 11 + seed) % len(diff)] for j in range(3)]
                caps["different-item_pair_combinations_not_enumerated"] = \
                    caps.get("different-item_pair_combinations_not_enumerated", 0) + len(diff) - len(dd)
                for i1, i2 in same + dd:
                    add(f"T2:pair:{tree}", tree, [(p1, i1), (p2, i2)], full=(n % 2 == 1))
        for n, (p1, p2) in enumerate(position_pairs(DOMAIN_TREE)):
            for it in PRIMARY:
                add("T2:pair:D>A", DOMAIN_TREE, [(p1, it), (p2, it)], full=(n % 2 == 1))
        # T3 R>A>B: the pairs with at least one position in B (one mode per class, same item twice); everything with
        # VERIF_FW_FULL=1
        n_all = 0
        for n, (p1, p2) in enumerate(position_pairs("R>A>B")):
            n_all += len(same + diff)
            if full_product:
                cc = same + diff
            elif p1.endswith("_B") or p2.endswith("_B"):
                cc = [(PRIMARY[(n + seed) % len(PRIMARY)],) * 2]
            else:
                cc = []
            for i1, i2 in cc:
                add("T3:pair:R>A>B", "R>A>B", [(p1, i1), (p2, i2)], full=(n % 2 == 1))
        caps["pairs_of_tree_R>A>B_not_enumerated"] = n_all - slices.get("T3:pair:R>A>B", 0)
        caps = {k: v for k, v in caps.items() if v}
    if seed and specs:
        k = seed % len(specs)
        specs = specs[k:] + specs[:k]
    for i, s in enumerate(specs):
        s["id"] = f"fw{i:05d}"
    return specs, dict(slices), caps


# --------------------------------------------------------------------------------------------------
# observation
# --------------------------------------------------------------------------------------------------
def slim(o):
    for g in o["gen"].values():
        g.pop("stdout", None)
        g["stderr"] = (g.get("stderr") or "")[-3000:]
    return o


def prune_batch_target():
    """The batch target dir keeps one ~6 MB rlib per generated crate (twice: deps/ and the uplifted copy) and one
    ~130 MB runner per batch: dropped after every batch (the dependency closure stays warm)."""
    dbg = f"{L.BATCH_TARGET}/debug"
    for sub, pat in (("deps", r"(lib)?s_fw[0-9a-z_]*-|runner-"), ("", r"(lib)?s_fw[0-9a-z_]*\.|runner(\.d)?$"),
                     (".fingerprint", r"s_fw[0-9a-z_]*-|runner-")):
        dd = os.path.join(dbg, sub)
        if not os.path.isdir(dd):
            continue
        for fn in os.listdir(dd):
            if re.match(pat, fn):
                p = os.path.join(dd, fn)
                try:
                    shutil.rmtree(p) if os.path.isdir(p) else os.remove(p)
                except OSError:
                    pass
    shutil.rmtree(f"{dbg}/incremental", ignore_errors=True)


def spread(n):
    """A permutation of range(n) whose every prefix is spread evenly over the enumeration order (so that a time cap
    leaves every slice reached)."""
    if n <= 2:
        return list(range(n))
    k = max(1, int(n * 0.6180339887))
    while __import__("math").gcd(k, n) != 1:
        k += 1
    return [(i * k) % n for i in range(n)]


def observe_specs(specs, d, batch_size, budget_s=None, t0=None):
    """Same stages as orchestrator.observe_specs (pavexc on every spec, then L.build_batches + L.run_runner on the
    accepted ones), batch by batch with the batch artefacts deleted in between (6 MB per generated crate), and with an
    optional wall-clock budget: blueprints not compiled when it runs out are counted, never silently dropped."""
    t0 = t0 or time.time()
    gen = L.generate_all(specs, d)
    ok = [s for s in specs if gen[s["id"]]["exit"] == 0 and "lib_sha" in gen[s["id"]]]
    if budget_s:
        ok = [ok[i] for i in spread(len(ok))]
    build, run, scripts = {}, {}, {}
    not_built = 0
    for k in range(0, len(ok), batch_size):
        if budget_s and time.time() - t0 > budget_s:
            not_built = len(ok) - k
            break
        part = ok[k:k + batch_size]
        b, runners = L.build_batches(part, f"{d}/gen", f"{d}/batch", batch_size=batch_size)
        build.update(b)
        for bd, ids, binp in runners:
            script = {}
            for s in part:
                if s["id"] in ids:
                    scripts[s["id"]] = s["requests"]
                    script[s["id"]] = [{"method": r["method"], "path": r["path"], "host": r.get("host"), "plan": r["plan"]}
                                       for r in s["requests"]]
            res = L.run_runner(binp, script)
            crash = res.pop("__runner_exit__", None)
            for sid in ids:
                run[sid] = res.get(sid, {"startup": None, "responses": []})
                if crash and (run[sid]["startup"] is None or len(run[sid]["responses"]) < len(script.get(sid, []))):
                    run[sid]["runner_crash"] = crash
        shutil.rmtree(f"{d}/batch", ignore_errors=True)
        prune_batch_target()
    return {"gen": gen, "build": build, "run": run, "scripts": scripts}, not_built


def observe(tier):
    t0 = time.time()
    specs, slices, caps = enumerate_specs(tier)
    d = f"{L.E2E_WORK}/{FAMILY}-{tier}"
    shutil.rmtree(d, ignore_errors=True)
    budget_s = float(os.environ.get("VERIF_FW_BUDGET_S", "0") or 0) or (None if tier == "quick" else 17 * 60)
    o, not_built = observe_specs(specs, d, BATCH_SIZE, budget_s, t0)
    slim(o)
    if not_built:
        caps["accepted_blueprints_not_compiled_due_to_time_budget"] = not_built
    shutil.rmtree(f"{d}/gen", ignore_errors=True)
    o.update({"family": FAMILY, "tier": tier, "specs": specs, "slices": slices, "caps": caps,
              "built_specs": [s for s in specs if s["id"] in o["build"]], "singles_gen": o["gen"], "packs_gen": {},
              "fw_observe_wall_s": round(time.time() - t0, 1)})
    return o


# --------------------------------------------------------------------------------------------------
# reference: which consumer logs what for a request
# --------------------------------------------------------------------------------------------------
def consumer_active(pos, req):
    k, lv = split_pos(pos)
    kind, rl = req["kind"], req["level"]
    if k in ("PRE", "WRAP", "POST"):
        return lv in chain(rl)
    if k in ("H", "CH"):
        return kind == "handler" and rl == lv
    if k in ("F", "CF"):
        return kind in ("nomatch", "mm", "mm-plain") and rl == lv
    if k == "EH":
        return kind == "fail" and rl == lv
    if k == "OBS":
        return kind == "fail" and lv in chain(rl)
    raise AssertionError(pos)


def expected_value(item, req, tree="R>A"):
    """The value a consumer must log, or None when the documentation does not fix it (recorded, not judged)."""
    cls, kind, lv = ITEMS[item], req["kind"], req["level"]
    p = prefix_of(tree, lv)
    if cls == "RH":
        return f"m={req['method']} p={req['path']}"
    if cls == "CI":
        return "peer=127.0.0.1"  # the runner connects from loopback
    if cls == "B":
        return "body=1"
    if cls == "PP":
        if kind in ("handler", "fail", "mm"):
            return f"params=x={PARAM_VALUE[lv]}"
        return "params=" if kind in ("plain", "mm-plain") else None
    if cls == "MP":
        if kind in ("handler", "fail", "mm"):
            return f"mp={p}/fw/{{x}}"
        return f"mp={p}/plain" if kind in ("plain", "mm-plain") else None
    if cls == "AM":
        # "The set of HTTP methods that are allowed for a given path" (rustdoc of AllowedMethods; C07: a fallback 'sees
        # exactly the set of methods registered for that path'); no path matched: the rustdoc example answers 404
        # because `allow_header_value()` is None, i.e. the list is empty
        return "am=" if kind == "nomatch" else "am=GET"
    raise AssertionError(item)


def expected_response(spec, req):
    plan = level_plan(spec["fw"]["tree"], spec["fw"]["consumers"], spec["fw"]["full"])[0][req["level"]]
    kind = req["kind"]
    if kind == "handler":
        return 200, f"h:{plan['handler']}"
    if kind == "plain":
        return 200, f"h:FWPL_{req['level']}"
    if kind == "fail":
        return 510, f"eh:{plan['eh']}"
    return 470, f"fb:{plan['fallback']}"


def judge_response(spec, req, resp):
    """-> (problems [(key, what)], unjudged observations [str], n consumers checked)"""
    problems, unjudged = [], []
    status, body = expected_response(spec, req)
    rq = f"{req['method']} {req['path']}{' Host=' + req['host'] if req.get('host') else ''}{' plan=' + ','.join(req['plan']) if req['plan'] else ''}"
    if resp.get("status") != status or resp.get("body") != body:
        problems.append((f"fw:unexpected-response:{req['kind']}",
                         f"{rq}: expected status {status} body {body!r}, observed status {resp.get('status')} body "
                         f"{(resp.get('body') or '')[:80]!r} error={resp.get('error')}"))
        return problems, unjudged, 0
    seen = collections.defaultdict(list)
    for line in resp.get("trace", []):
        if line.startswith("fwsee "):
            _, cid, item, val = line.split(" ", 3)
            seen[(cid, item)].append(val)
    n = 0
    expected_keys = set()
    for pos, item in spec["fw"]["consumers"]:
        if not consumer_active(pos, req):
            continue
        n += 1
        cid = component_of(pos, item)
        expected_keys.add((cid, item))
        vals = seen.get((cid, item), [])
        want = expected_value(item, req, spec["fw"]["tree"])
        k, lv = split_pos(pos)
        if len(vals) != 1:
            problems.append((f"fw:wrong-value:{item}:{key_pos(spec, pos)}",
                             f"{rq}: consumer {cid} at position {pos} must see {ITEM_TYPE[item]} exactly once in this request's "
                             f"pipeline, it logged {len(vals)} time(s) {vals}"))
            continue
        if want is None:
            unjudged.append(f"{ITEMS[item]}@{req['kind']}:{req['level']}:{vals[0]}")
        elif vals[0] != want:
            problems.append((f"fw:wrong-value:{item}:{key_pos(spec, pos)}",
                             f"{rq}: consumer {cid} at position {pos} received {ITEM_TYPE[item]} with `{vals[0]}`, the request "
                             f"and the blueprint say `{want}`"))
    for (cid, item), vals in seen.items():
        if (cid, item) not in expected_keys:
            pos = next((p for p, i in spec["fw"]["consumers"] if component_of(p, i) == cid and i == item), "unregistered")
            problems.append((f"fw:wrong-value:{item}:{key_pos(spec, pos)}",
                             f"{rq}: consumer {cid} ({pos}) is not part of this request's pipeline but logged {vals}"))
    return problems, unjudged, n


def key_pos(spec, pos):
    return pos + ("@domain" if spec["fw"]["tree"] == DOMAIN_TREE else "")


def describe(spec):
    fw = spec["fw"]
    return f"tree {fw['tree']} ({'full' if fw['full'] else 'lean'} skeleton), consumers " + \
        " + ".join(f"{p}:{ITEM_TYPE[i]}" for p, i in fw["consumers"])


def spec_size(spec):
    fw = spec["fw"]
    return (len(fw["consumers"]), len(TREES[fw["tree"]]), fw["full"], spec["id"])


def slot_key(spec):
    return "+".join(f"{p}:{i}" for p, i in spec["fw"]["consumers"])


def rustc_code(errs):
    m = re.search(r"error\[(E\d+)\]", "\n".join(errs or []))
    if m:
        return m.group(1)
    m = re.search(r"error: ([^\n]*)", "\n".join(errs or []))
    return re.sub(r"[^a-z0-9]+", "-", (m.group(1) if m else "unknown").lower())[:40]


def iter_specs(o):
    return sorted(o.get("specs", []), key=spec_size)


def reobserve(specs, what):
    d = f"{L.E2E_WORK}/{FAMILY}-recheck-{what}"
    shutil.rmtree(d, ignore_errors=True)
    o2, _ = observe_specs(specs, d, BATCH_SIZE)
    shutil.rmtree(d, ignore_errors=True)
    return slim(o2)


# --------------------------------------------------------------------------------------------------
# C01
# --------------------------------------------------------------------------------------------------
def c01_failures(o):
    """-> [(key, what, case, spec)] smallest blueprint first; a pair whose failure is already explained by a failing
    single (same position and item) is attributed to the single's key."""
    single_fail = {}
    out = []
    for spec in iter_specs(o):
        sid = spec["id"]
        g, b = o["gen"].get(sid), o["build"].get(sid)
        if g is None or g["exit"] != 0 or b is None or b["build_ok"]:
            continue
        code = rustc_code(b["build_errors"])
        cons = spec["fw"]["consumers"]
        cons = [(key_pos(spec, p), i) for p, i in cons]
        if len(cons) == 1:
            single_fail[(cons[0][0], cons[0][1], code)] = True
            what_key = f"{cons[0][0]}:{cons[0][1]}"
        else:
            hit = [c for c in cons if (c[0], c[1], code) in single_fail]
            what_key = f"{hit[0][0]}:{hit[0][1]}" if hit else "+".join(f"{p}:{i}" for p, i in cons)
        key = f"fw:accepted-but-does-not-compile:{what_key}:{code}"
        err = (b["build_errors"] or [""])[0]
        out.append((key, f"pavexc accepted blueprint {sid} ({describe(spec)}) but the generated crate does not compile: {err[:400]}",
                    {"oracle": "C01", "spec": spec, "rustc": b["build_errors"][:2]}, spec))
    return out


def oracle_c01_fw(obs, rep, tier):
    o = obs[FAMILY]
    in_replay = "slices" not in o
    hist = collections.Counter()
    per_pos = collections.defaultdict(collections.Counter)
    shas, samples = set(), []
    n_built = 0
    for spec in iter_specs(o):
        sid = spec["id"]
        g = o["gen"].get(sid)
        if g is None:
            continue
        fw = spec["fw"]
        b = o["build"].get(sid)
        out = "timeout" if g.get("timed_out") else ("panic" if g.get("panic") else ("accepted" if g["exit"] == 0 else "rejected"))
        if out == "accepted":
            if b is None:
                if not (o.get("caps") or {}).get("accepted_blueprints_not_compiled_due_to_time_budget"):
                    L.machinery(f"accepted blueprint {sid} was not built")
                out = "accepted+not-compiled(time budget)"
            else:
                n_built += 1
                shas.add(g.get("lib_sha"))
                out = "accepted+compiles" if b["build_ok"] else "accepted+DOES-NOT-COMPILE"
        hist[f"{len(fw['consumers'])}-consumer:{out}"] += 1
        for pos, item in fw["consumers"]:
            per_pos[f"{split_pos(pos)[0]}:{ITEMS[item]}{'v' if item.endswith('V') else 'r'}"][out] += 1
        if b and b["build_ok"] and len(samples) < 3 and len(fw["consumers"]) == len(samples) % 2 + 1:
            samples.append({"id": sid, "what": describe(spec), "ops": spec["bp"]["ops"]})
    fails = c01_failures(o)
    first = collections.OrderedDict()
    for key, what, case, spec in fails:
        first.setdefault(key, (what, case, spec))
    if first and not in_replay:
        todo = [sp for _, _, sp in list(first.values())[:12]]
        o2 = reobserve(todo, "c01")
        for key, (what, case, spec) in list(first.items())[:12]:
            b2 = o2["build"].get(spec["id"])
            if o2["gen"][spec["id"]]["exit"] != 0 or b2 is None or b2["build_ok"]:
                raise L.MachineryError(f"nondeterministic: {spec['id']} ({describe(spec)}) did not compile in the first observation "
                                       f"but pavexc+rustc accept it when re-executed")
    for key, (what, case, spec) in first.items():
        rep.violation(key, what, case)
    # run-time comparison, recorded here (reported as violations under VALUES_PROPERTY)
    vals = values_eval(o)
    cov = {
        "evaluations": n_built, "distinct_nontrivial": len(shas), "exhaustive": not o.get("caps"),
        "rule": RULE + " C01 oracle: every blueprint that pavexc accepted (exit 0) is compiled by rustc (cargo build of the emitted "
                "crate with its emitted manifest); key fw:accepted-but-does-not-compile:<position>:<item>:<rustc error code>, a failing pair "
                "is attributed to a failing single with the same position and item; distinct = distinct SHA-256 of the emitted lib.rs.",
        "samples": samples, "slices": o.get("slices"), "caps": o.get("caps") or {},
        "outcome_histogram": dict(sorted(hist.items())),
        "per_position_kind_and_item": {k: dict(v) for k, v in sorted(per_pos.items())},
        "compile_failures": len(fails), "compile_failure_keys": len(first),
        "runtime_values": {k: vals[k] for k in ("requests_judged", "consumer_values_checked", "value_histogram", "not_judged", "wrong_value_keys")},
        "fw_observe_wall_s": o.get("fw_observe_wall_s"),
    }
    return "exploration", cov, ["rustc (stable) is the judge of 'valid Rust'", "component bodies are instrumentation only"]


RULE = ("FW family: nesting trees R | R>A (/a) | R>A>B (/a/b), every level with a GET /fw/{x} handler, a GET /plain handler and its own "
        "fallback, and D>A (A nested under the domain guard a.t, root without routes: the domain-based router); exactly one or exactly two components of the whole application take a framework-provided input "
        "(&RequestHead, ConnectionInfo / &, RawIncomingBody / &, RawPathParams / &, MatchedPathPattern / &, AllowedMethods / &) over "
        "the positions {handler, fallback, pre / wrapping / post middleware, constructor used only by the handler / by the fallback, "
        "error handler, error observer} x level; lean skeleton (no other middleware) and full skeleton (an input-free pre, wrap and "
        "post at every level); slices and caps listed in `slices` / `caps`; every blueprint alone through the real pavexc, rustc and the "
        "generated server (never packed).")


# --------------------------------------------------------------------------------------------------
# run-time values
# --------------------------------------------------------------------------------------------------
def values_eval(o):
    hist = collections.Counter()
    unj = collections.Counter()
    pending = []
    n_req = n_vals = 0
    distinct = set()
    samples = []
    for spec in iter_specs(o):
        sid = spec["id"]
        b, run = o["build"].get(sid), o.get("run", {}).get(sid)
        if not b or not b["build_ok"] or run is None:
            continue
        st = run.get("startup")
        if not st or not st.get("ok"):
            pending.append(("fw:startup-failure", f"server of {sid} ({describe(spec)}) did not start: {json.dumps(st)[:300]}",
                            {"oracle": VALUES_PROPERTY, "spec": spec, "startup": st}, spec))
            continue
        reqs = spec["requests"]
        if len(run["responses"]) != len(reqs):
            raise L.MachineryError(f"{sid}: {len(run['responses'])} responses for {len(reqs)} requests ({run.get('runner_crash')})")
        for req, resp in zip(reqs, run["responses"]):
            problems, unjudged, n = judge_response(spec, req, resp)
            n_req += 1
            n_vals += n
            for u in unjudged:
                unj[u] += 1
            for pos, item in spec["fw"]["consumers"]:
                if consumer_active(pos, req):
                    bad = any(k.endswith(f":{item}:{key_pos(spec, pos)}") for k, _ in problems)
                    hist[f"{ITEMS[item]}@{split_pos(pos)[0]}:{req['kind']}:{'WRONG' if bad else 'ok'}"] += 1
                    distinct.add((item, pos, req["kind"], req["level"], spec["fw"]["tree"], spec["fw"]["full"]))
            if n and not problems and len(samples) < 3 and req["kind"] in ("mm", "nomatch", "handler")[len(samples):]:
                samples.append({"spec": sid, "what": describe(spec), "request": f"{req['method']} {req['path']}",
                                "trace": resp.get("trace")})
            for key, what in problems:
                one = dict(spec)
                one["requests"] = [req]
                pending.append((key, f"{sid} ({describe(spec)}): {what}",
                                {"oracle": VALUES_PROPERTY, "spec": one, "request": req, "status": resp.get("status"),
                                 "body": resp.get("body"), "trace": resp.get("trace")}, spec))
    return {"requests_judged": n_req, "consumer_values_checked": n_vals, "value_histogram": dict(sorted(hist.items())),
            "not_judged": dict(sorted(unj.items())), "pending": pending, "distinct": len(distinct), "samples": samples,
            "wrong_value_keys": sorted({p[0] for p in pending})}


def oracle_values_fw(obs, rep, tier):
    o = obs[FAMILY]
    in_replay = "slices" not in o
    vals = values_eval(o)
    first = collections.OrderedDict()
    for key, what, case, spec in vals["pending"]:
        first.setdefault(key, (what, case, spec))
    if first and not in_replay:
        todo = {sp["id"]: sp for _, _, sp in list(first.values())[:12]}
        o2 = reobserve(list(todo.values()), "values")
        o2["specs"] = list(todo.values())
        again = {p[0] for p in values_eval(o2)["pending"]}
        for key, (what, case, spec) in list(first.items())[:12]:
            if key not in again:
                raise L.MachineryError(f"nondeterministic: {spec['id']} violated {key} in the first observation but not when re-executed")
    outside = {}
    for key, (what, case, spec) in first.items():
        # C07 speaks about which handler / fallback runs and which methods the fallback sees; a wrong RequestHead,
        # ConnectionInfo, RawPathParams or MatchedPathPattern value is outside its text (and outside C04's, which is
        # about user constructors): recorded, not reported
        if key.startswith("fw:wrong-value:") and key.split(":")[2] not in ("AMV", "AMR"):
            outside[key] = what[:300]
            continue
        rep.violation(key, what, case)
    cov = {
        "evaluations": vals["requests_judged"], "distinct_nontrivial": vals["distinct"], "exhaustive": not o.get("caps"),
        "rule": RULE + " Requests per level (prefix P): GET P/fw/<n>, GET P/plain, GET P/zz, POST P/fw/<n>, POST P/plain, and GET P/fw/<n> "
                "with the level's fallible handler failing (error handler / observer positions). Oracle: the response comes from the "
                "component the blueprint designates, every consumer that is part of the request's pipeline logs exactly once, no other "
                "consumer logs, and the logged value equals the request: RequestHead method + path; ConnectionInfo peer 127.0.0.1; "
                "RawPathParams {x: <n>} on /fw/{x} (empty on /plain); MatchedPathPattern = nesting prefixes + route template; "
                "AllowedMethods = {GET} when a path matched, empty when none did. When no route matches, RawPathParams and "
                "MatchedPathPattern are not documented: recorded in `not_judged`. Framework-provided inputs have no user constructor: "
                "'reported under C07 are: the component that answered, start-up failures and the AllowedMethods values; mismatches of the other "
                "items are recorded in value_mismatches_outside_the_statement_of_C07. distinct = distinct (item, position, request kind, level, tree, skeleton).",
        "samples": vals["samples"], "consumer_values_checked": vals["consumer_values_checked"],
        "value_histogram": vals["value_histogram"], "not_judged": vals["not_judged"], "slices": o.get("slices"), "caps": o.get("caps") or {},
        "value_mismatches_outside_the_statement_of_C07": outside,
    }
    return "exploration", cov, ["one worker thread, sequential HTTP/1.1 requests over loopback, Connection: close, empty body",
                                "what RawPathParams / MatchedPathPattern hold when no route matched is undocumented and not judged"]


# --------------------------------------------------------------------------------------------------
# C09
# --------------------------------------------------------------------------------------------------
def oracle_c09_fw(obs, rep, tier):
    import oracles as O
    import fam_plant
    o = obs[FAMILY]
    suspicious = [s for s in o["specs"] if s["id"] in o["gen"] and (
        fam_plant.outcome_of(o["gen"][s["id"]]) in ("hang", "panic", "rejected_uncleanly")
        or (o["gen"][s["id"]]["exit"] != 0 and o["gen"][s["id"]].get("root_manifest_changed")) or o["gen"][s["id"]]["exit"] not in (0, 1))]
    suspicious.sort(key=spec_size)
    gen, n_replaced = fam_plant.settle(o, suspicious[:16], "fw-c09") if "slices" in o else (o["gen"], 0)
    o2 = dict(o)
    o2["gen"] = gen
    o2["specs"] = iter_specs(o)
    lvl, cov, asm = O.oracle_c09({FAMILY: o2}, rep, tier)
    titles = collections.Counter()
    for s in o["specs"]:
        g = gen.get(s["id"])
        if g is not None and g["exit"] != 0:
            for pos, item in s["fw"]["consumers"]:
                titles[f"{split_pos(pos)[0]}:{item}: {O.first_error_title(g['stderr'])[:110]}"] += 1
    cov["rejection_diagnostics_by_position_kind_and_item"] = dict(sorted(titles.items()))
    cov["re_executed_before_reporting"] = min(len(suspicious), 16)
    cov["transient_timeouts_or_interference_replaced_by_second_run"] = n_replaced
    cov["exhaustive"] = bool(cov.get("exhaustive")) and not o.get("caps")
    return lvl, cov, asm


PROPERTIES = {
    "C01": (lambda tier: [FAMILY], oracle_c01_fw),
    "C09": (lambda tier: [FAMILY], oracle_c09_fw),
    VALUES_PROPERTY: (lambda tier: [FAMILY], oracle_values_fw),
}
