"""Extra verif_app components for property C10 (fam_c10.py) — loaded by gen_app.py (see EXTENDING.md).

`ApplicationStateError` gets one variant per fallible component that runs while the application state is
built; the variant is named after the component (`fn build` -> `Build`) and *name collisions* are resolved
with a first-come counter (`Build`, `Build2`, `Build3`: analyses/call_graph/application_state.rs). Which error
type gets which number is decided by the iteration order of the error-type table, and the later name-sorted
map hides that order unless names collide. So: several modules, each with a fallible singleton constructor
called `build` (same variant base name) yielding a distinct type with a distinct error type, and handlers
borrowing them. A fourth, differently named fallible singleton (`connect`) gives a non-colliding variant.
Bodies are instrumentation only, as everywhere in verif_app.
"""

MODULES = [  # (module, type, error type)
    ("c10_db", "Db", "DbError"),
    ("c10_http_client", "HttpClient", "HttpClientError"),
    ("c10_queue", "Queue", "QueueError"),
]


def gen(w, catalog):
    def ctor(cid, out, err):
        catalog.append({"id": cid, "kind": "ctor", "macro": "constructor", "out": out, "inputs": [], "fallible": True,
                        "async": False, "err": err, "c10": True})

    def handler(cid, path, inputs):
        catalog.append({"id": cid, "kind": "handler", "macro": "route", "inputs": inputs, "fallible": False, "err": None,
                        "path": path, "methods": ["GET"], "c10": True})

    def error_type(name, indent="    "):
        w(f"{indent}#[derive(Debug)] pub struct {name} {{ pub src: &'static str }}")
        w(f"{indent}impl std::fmt::Display for {name} {{ fn fmt(&self, f: &mut std::fmt::Formatter<'_>) -> std::fmt::Result "
          f"{{ write!(f, \"{name}({{}})\", self.src) }} }}")
        w(f"{indent}impl std::error::Error for {name} {{}}")

    w("// ================= gen_app_extra_c10.py =================")
    for mod, ty, err in MODULES:
        cid = f"{mod.upper()}_BUILD"
        w(f"pub mod {mod} {{")
        w("    use crate::rt;")
        w(f"    #[derive(Debug)] pub struct {ty} {{ pub id: u64 }}")
        w(f"    impl {ty} {{ pub fn tag(&self) -> String {{ format!(\"{ty}#{{}}\", self.id) }} }}")
        error_type(err)
        w(f"    #[pavex::singleton(id = \"{cid}\")]")
        w(f"    pub fn build() -> Result<{ty}, {err}> {{")
        w(f"        if rt::fails(\"{cid}\") {{ return Err({err} {{ src: \"{cid}\" }}); }}")
        w(f"        Ok({ty} {{ id: rt::new_value(\"{ty}\", \"{cid}\", &[]) }})")
        w("    }")
        w("}")
        ctor(cid, f"{mod}::{ty}", f"{mod}::{err}")
    # a fallible singleton whose variant name does not collide
    w("#[derive(Debug)] pub struct C10Conn { pub id: u64 }")
    w("impl C10Conn { pub fn tag(&self) -> String { format!(\"C10Conn#{}\", self.id) } }")
    error_type("C10ConnError", indent="")
    w("#[pavex::singleton(id = \"C10_CONNECT\")]")
    w("pub fn c10_connect() -> Result<C10Conn, C10ConnError> {")
    w("    if rt::fails(\"C10_CONNECT\") { return Err(C10ConnError { src: \"C10_CONNECT\" }); }")
    w("    Ok(C10Conn { id: rt::new_value(\"C10Conn\", \"C10_CONNECT\", &[]) })")
    w("}")
    ctor("C10_CONNECT", "C10Conn", "C10ConnError")
    # consumers
    all_inputs = [{"type": f"{mod}::{ty}", "mode": "r"} for mod, ty, _ in MODULES]
    params = ", ".join(f"a{i}: &{mod}::{ty}" for i, (mod, ty, _) in enumerate(MODULES))
    tags = ", ".join(f"a{i}.tag()" for i in range(len(MODULES)))
    w("#[pavex::get(path = \"/c10/state\", id = \"H_C10_STATE\")]")
    w(f"pub fn h_c10_state({params}, c: &C10Conn) -> pavex::Response {{")
    w(f"    rt::call(\"handler\", \"H_C10_STATE\", &[{tags}, c.tag()]);")
    w("    rt::respond(\"h\", \"H_C10_STATE\")")
    w("}")
    handler("H_C10_STATE", "/c10/state", all_inputs + [{"type": "C10Conn", "mode": "r"}])
    for i, (mod, ty, _) in enumerate(MODULES):
        hid = f"H_C10_STATE_{i}"
        w(f"#[pavex::get(path = \"/c10/state/{i}\", id = \"{hid}\")]")
        w(f"pub fn h_c10_state_{i}(a: &{mod}::{ty}) -> pavex::Response {{")
        w(f"    rt::call(\"handler\", \"{hid}\", &[a.tag()]);")
        w(f"    rt::respond(\"h\", \"{hid}\")")
        w("}")
        handler(hid, f"/c10/state/{i}", [all_inputs[i]])
    w()
