"""Extra verif_app components for the `src` family (C01-C04, C08, C09): values that do NOT come from a constructor —
prebuilt types (handed to `ApplicationState::new`) and configuration types (fields of the generated `ApplicationConfig`) —
with the same (id, root, by, cloned) instrumentation as the constructor-built types, and consumers of every kind
(handlers, pre / post / wrapping middlewares, singleton and request-scoped constructors) taking them by `&`, by value
and (handlers only) by `&mut`.

Types (module `srcx`):
  SPK  prebuilt, Clone            (registration default: never clone)
  SPP  prebuilt, not Clone
  SPC  prebuilt, Clone, annotated `clone_if_necessary`
  SCK  config key `sck`, Clone    (default for configuration types: clone if necessary)
  SCN  config key `scn`, Clone, annotated `never_clone`
  SCD  config key `scd`, Clone + Default, annotated `default_if_missing`
  SCU  config key `scu`, Clone + Default, plain (used for registration-level default_if_missing / include_if_unused)
Deserialising a configuration type ignores the document and builds a fresh instrumented value (by = CF_<T>); `Default`
builds one with by = CF_<T>_DEF, so that the oracle can tell which path produced the instance.
"""

SRC_TYPES = [
    # name, kind, annotation extras, is Clone, has Default
    ("SPK", "prebuilt", "", True, False),
    ("SPP", "prebuilt", "", False, False),
    ("SPC", "prebuilt", ", clone_if_necessary", True, False),
    ("SCK", "config", "", True, False),
    ("SCN", "config", ", never_clone", True, False),
    ("SCD", "config", ", default_if_missing", True, True),
    ("SCU", "config", "", True, True),
]
MODES = {"r": "&{t}", "v": "{t}", "m": "&mut {t}"}


def comp_id(t):
    kind = next(k for n, k, *_ in SRC_TYPES if n == t)
    return ("PB_" if kind == "prebuilt" else "CF_") + t


def gen(w, catalog):
    w("// ================= gen_app_extra_src.py =================")
    w("pub mod srcx {")
    w("    use crate::rt;")
    for name, kind, extra, is_clone, has_default in SRC_TYPES:
        cid = comp_id(name)
        w("    #[derive(Debug)]")
        if kind == "prebuilt":
            w(f"    #[pavex::prebuilt(id = \"{cid}\"{extra})]")
        else:
            w(f"    #[pavex::config(key = \"{name.lower()}\", id = \"{cid}\"{extra})]")
        w(f"    pub struct {name} {{ pub id: u64, pub root: u64, pub by: &'static str, pub cloned: bool }}")
        w(f"    impl {name} {{")
        w(f"        pub fn tag(&self) -> String {{ rt::tag(\"{name}\", self.id, self.root, self.by, self.cloned) }}")
        w(f"        pub fn mk(by: &'static str) -> Self {{ let id = rt::new_value(\"{name}\", by, &[]); Self {{ id, root: id, by, cloned: false }} }}")
        w("    }")
        if is_clone:
            w(f"    impl Clone for {name} {{ fn clone(&self) -> Self {{ let id = rt::cloned(\"{name}\", self.id, self.root, self.by); Self {{ id, root: self.root, by: self.by, cloned: true }} }} }}")
        if kind == "prebuilt":
            w(f"    impl crate::Make for {name} {{ fn make() -> Self {{ Self::mk(\"{cid}\") }} }}")
        else:
            w(f"    impl<'de> serde::Deserialize<'de> for {name} {{ fn deserialize<D: serde::Deserializer<'de>>(d: D) -> Result<Self, D::Error> {{ let _ = <serde::de::IgnoredAny as serde::Deserialize>::deserialize(d)?; Ok(Self::mk(\"{cid}\")) }} }}")
        if has_default:
            w(f"    impl Default for {name} {{ fn default() -> Self {{ Self::mk(\"{cid}_DEF\") }} }}")
        catalog.append({"id": cid, "kind": kind, "macro": kind, "out": f"srcx::{name}", "src": True})
    # derived values
    for d in ("SDS", "SDR"):
        w("    #[derive(Debug)]")
        w(f"    pub struct {d} {{ pub id: u64, pub root: u64, pub by: &'static str, pub cloned: bool }}")
        w(f"    impl {d} {{ pub fn tag(&self) -> String {{ rt::tag(\"{d}\", self.id, self.root, self.by, self.cloned) }} }}")
    for name, kind, extra, is_clone, has_default in SRC_TYPES:
        for mode, pat in MODES.items():
            ty = pat.format(t=name)
            m = mode.upper()
            inputs = [{"type": f"srcx::{name}", "mode": mode}]
            # handlers on /r0 and /r1
            for slot, path in ((0, "/r0"), (1, "/r1")):
                hid = f"HS{slot}_{name}_{m}"
                w(f"    #[pavex::get(path = \"{path}\", id = \"{hid}\")] pub fn {hid.lower()}(a: {ty}) -> pavex::Response {{ rt::call(\"handler\", \"{hid}\", &[a.tag()]); rt::respond(\"h\", \"{hid}\") }}")
                catalog.append({"id": hid, "kind": "handler", "macro": "route", "inputs": inputs, "fallible": False, "err": None,
                                "path": path, "methods": ["GET"], "src": True})
            if mode == "m":
                continue
            pid = f"PRES_{name}_{m}"
            w(f"    #[pavex::pre_process(id = \"{pid}\")] pub fn {pid.lower()}(a: {ty}) -> pavex::middleware::Processing {{ rt::call(\"pre\", \"{pid}\", &[a.tag()]); pavex::middleware::Processing::Continue }}")
            catalog.append({"id": pid, "kind": "pre", "macro": "pre_process", "inputs": inputs, "fallible": False, "err": None, "src": True})
            qid = f"POSTS_{name}_{m}"
            w(f"    #[pavex::post_process(id = \"{qid}\")] pub fn {qid.lower()}(resp: pavex::Response, a: {ty}) -> pavex::Response {{ rt::call(\"post\", \"{qid}\", &[a.tag()]); resp }}")
            catalog.append({"id": qid, "kind": "post", "macro": "post_process", "inputs": inputs, "fallible": False, "err": None, "src": True})
            wid = f"WRAPS_{name}_{m}"
            w(f"    #[pavex::wrap(id = \"{wid}\")] pub async fn {wid.lower()}<C>(next: pavex::middleware::Next<C>, a: {ty}) -> pavex::Response where C: std::future::IntoFuture<Output = pavex::Response> {{ rt::call(\"wrap\", \"{wid}\", &[a.tag()]); let resp = next.await; rt::ev(format!(\"wrapexit {wid}\")); resp }}")
            catalog.append({"id": wid, "kind": "wrap", "macro": "wrap", "inputs": inputs, "fallible": False, "err": None, "src": True})
            sid = f"C_SDS_{name}_{m}"
            w(f"    #[pavex::singleton(id = \"{sid}\")] pub fn {sid.lower()}(a: {ty}) -> SDS {{ let id = rt::new_value(\"SDS\", \"{sid}\", &[a.tag()]); SDS {{ id, root: id, by: \"{sid}\", cloned: false }} }}")
            catalog.append({"id": sid, "kind": "ctor", "macro": "constructor", "out": "srcx::SDS", "inputs": inputs, "fallible": False,
                            "async": False, "err": None, "src": True})
            rid = f"C_SDR_{name}_{m}"
            w(f"    #[pavex::request_scoped(id = \"{rid}\")] pub fn {rid.lower()}(a: {ty}) -> SDR {{ let id = rt::new_value(\"SDR\", \"{rid}\", &[a.tag()]); SDR {{ id, root: id, by: \"{rid}\", cloned: false }} }}")
            catalog.append({"id": rid, "kind": "ctor", "macro": "constructor", "out": "srcx::SDR", "inputs": inputs, "fallible": False,
                            "async": False, "err": None, "src": True})
    for d, path, hid in (("SDS", "/r2", "HS2_SDS_R"), ("SDR", "/r3", "HS3_SDR_R")):
        w(f"    #[pavex::get(path = \"{path}\", id = \"{hid}\")] pub fn {hid.lower()}(a: &{d}) -> pavex::Response {{ rt::call(\"handler\", \"{hid}\", &[a.tag()]); rt::respond(\"h\", \"{hid}\") }}")
        catalog.append({"id": hid, "kind": "handler", "macro": "route", "inputs": [{"type": f"srcx::{d}", "mode": "r"}], "fallible": False,
                        "err": None, "path": path, "methods": ["GET"], "src": True})
    w("    #[pavex::get(path = \"/r9\", id = \"HS9_PLAIN\")] pub fn hs9_plain() -> pavex::Response { rt::call(\"handler\", \"HS9_PLAIN\", &[]); rt::respond(\"h\", \"HS9_PLAIN\") }")
    catalog.append({"id": "HS9_PLAIN", "kind": "handler", "macro": "route", "inputs": [], "fallible": False, "err": None, "path": "/r9",
                    "methods": ["GET"], "src": True})
    w("}")
    w()
