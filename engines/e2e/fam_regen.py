"""Family `regen` (C05, C01, C09): REGENERATION IN PLACE. Every other family generates a blueprint over whatever SDK the slot
happens to hold; here the predecessor is chosen: blueprint A is generated into the output directory first, then blueprint B —
A with two same-kind middlewares swapped, so that the serialized blueprint and the generated `lib.rs` have exactly the same
size and differ in a few bytes only — is generated into the same directory, compiled and run. The served order must be B's.
(`spec["pre_bp"]` is honoured by lib_e2e.generate_all.)"""
import itertools

import families as F
import oracles as O

FAM = "regen"


def specs(tier):
    out = []
    kinds = ["pre", "post", "wrap"]
    route = {"k": "route", "c": F.handler_id(0, ["0", "0", "0"])}
    for k in kinds:
        others = [x for x in kinds if x != k]
        contexts = [([], [])] + [([{"k": o, "c": F.mw_id(o, 1)}], []) for o in others] + [([], [{"k": o, "c": F.mw_id(o, 1)}]) for o in others]
        if tier == "quick":
            contexts = contexts[:3]
        for (before, after), (i, j) in itertools.product(contexts, [(1, 2), (2, 1)]):
            a = before + [{"k": k, "c": F.mw_id(k, i)}, {"k": k, "c": F.mw_id(k, j)}] + after + [route]
            b = before + [{"k": k, "c": F.mw_id(k, j)}, {"k": k, "c": F.mw_id(k, i)}] + after + [route]
            tag = f"{k}{i}{j}_{'-'.join(o['k'] for o in before) or 'x'}_{'-'.join(o['k'] for o in after) or 'x'}"
            out.append({"id": f"regen_{tag}", "family": FAM, "bp": {"ops": b}, "pre_bp": {"ops": a}})
    return out


def observe(tier):
    import lib_e2e as L
    import orchestrator
    sp = specs(tier)
    o = orchestrator.observe_specs(sp, f"{L.E2E_WORK}/{FAM}-{tier}")
    o["specs"] = sp
    o["built_specs"] = [s for s in sp if s["id"] in o["build"]]
    o["singles_gen"] = o["gen"]
    o["packs_gen"] = {}
    return o


PROPERTIES = {"C05": (lambda tier: [FAM], O.oracle_c05), "C01": (lambda tier: [FAM], O.oracle_c01), "C09": (lambda tier: [FAM], O.oracle_c09)}
