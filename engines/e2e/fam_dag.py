"""DAG family (feeds C01, C02, C03, C04, C09): dependency graphs the three-type DI families cannot express.

Enumerated space (enumerator, canonical form and its soundness argument: gen_app_extra_dag.py)
  Rooted dependency DAGs over value types N0..N5: every value is built by one infallible, sync constructor with <= 3
  inputs (other values, by value `v` or by shared reference `r`); the root is the request handler (GET /r0) with an
  ORDERED list of 1..4 parameters (`v`/`r`) -- every parameter order is a distinct member. Value kinds: P (no Clone
  impl), K (Clone impl, never-clone), C (Clone impl, clone-if-necessary); lifecycles request-scoped / transient.
  Shapes are enumerated up to isomorphism (relabelling of the value nodes that preserves kinds, lifecycles, constructor
  input sets with modes and the handler parameter sequence), simplest first. Bounds per tier: gen_app_extra_dag.BOUNDS.
    ("levels" = longest chain of constructors + 1; "shared" = a value with >= 2 consumers, the handler included)
    quick     n=2 values (handler may also take the non-sink); n=3 (<= 3 levels, handler = the sinks + at most one more
              value); n=4 (<= 3 levels, handler = exactly the sinks); n=5 (2 levels: sources -> constructors -> handler,
              handler = the sinks, <= 2 consumers per value). For n >= 3 every source feeds at least one constructor.
              Shared values range over {P, C} x {v, r}^consumers with <= 1 C per shape (P only when every consumer
              borrows); single-consumer values are plain and moved; all request-scoped; constructor parameters in
              ascending label order. 809 shapes.
    thorough  quick plus: kinds {P, K, C} with any number of C, and single-consumer edges v/r for n=2; kinds {P, K, C} with
              any number of C for n=3; one shared value transient (n <= 4); descending constructor parameter order
              (n <= 5, where it differs); n=4 with 4 levels and any number of C, and with a handler that takes one non-sink
              (<= 2 consumers per value); n=5 two-level with <= 4 consumers per value and <= 2 C; n=6 two-level (<= 2
              consumers per value, <= 1 C). 6458 shapes.
  Contains: single/double diamonds (joined by a constructor or by the handler), triangles, fan-in 3, the mutual
  move/borrow pair of complex.rs' doc comment, and the 5-constructor shapes of the seeded defects in every
  handler-parameter order.
Observation: the packable-family flow of the orchestrator (every shape alone through pavexc for the verdict; the
  accepted ones compiled and executed in packs of 10 sibling nested blueprints), so the shared oracles apply unchanged.
Hang handling: a non-terminating pavexc costs 120 s + 360 s under the shared time-out rule, and one defect makes many
  shapes hang. Pass 1 therefore runs the whole flow with a short screening limit (SCREEN_TIMEOUT_S, >= 20x the normal run
  time; lib_e2e re-runs the first 8 time-outs alone with 3x the limit). If nothing timed out, pass 1 is the observation.
  Otherwise pass 2 repeats the flow under the shared limit (120 s, re-run alone with 360 s) on all shapes except the
  hang suspects beyond the N_CONFIRM simplest ones: the simplest suspect is judged by the shared C09 oracle under the
  shared rule (key `dag:hang`); the other suspects are NOT judged by any oracle (listed in `hang_suspects_not_judged`,
  counted in the coverage, `exhaustive` false). A confirmed suspect that terminates in pass 2 is a machinery error
  (screening limit too tight for the machine load), never a verdict.
"""
import collections
import json
import os
import re

import gen_app_extra_dag as G
import lib_e2e as L
import refmodel as M

SCREEN_TIMEOUT_S = int(os.environ.get("VERIF_DAG_SCREEN_S", "12"))
N_CONFIRM = int(os.environ.get("VERIF_DAG_CONFIRM", "1"))

# --------------------------------------------------------------------------------------------------
# refmodel.flavour_of only knows the T<i><flavour> types; the class predicate (C02) and the trace oracles (C03/C04) need
# the flavour of N<i>P / N<i>K too. Exact change proposed for refmodel.py: `re.fullmatch(r"[TN][0-9][PKY]", ty)`.
# --------------------------------------------------------------------------------------------------
if M.flavour_of("N0K") != "K":
    _flavour_of_base = M.flavour_of

    def _flavour_of(ty):
        if re.fullmatch(r"N[0-9][PK]", ty):
            return ty[2]
        return _flavour_of_base(ty)

    M.flavour_of = _flavour_of


def dag_shapes(tier):
    """-> (abstract shapes, registration ops), same enumeration as the component library of verif_app."""
    abstract = list(G.shapes(tier))
    ops = [G.ops_of(sh) for sh in abstract]
    for sh in singleton_source_variants(tier):
        o = G.ops_of(dict(sh, nodes=[dict(nd, lc="R") for nd in sh["nodes"]]))
        for nd, op in zip(sh["nodes"], o):
            if nd["lc"] == "S":
                op["lc"] = "singleton"
        abstract.append(sh)
        ops.append(o)
    for sh in fallible_source_variants(tier):
        o = G.ops_of(dict(sh, nodes=[dict(nd, variant=None) for nd in sh["nodes"]]))
        for i, (nd, op) in enumerate(zip(sh["nodes"], o)):
            if nd.get("variant") == "fallible":
                op["c"] = "DGF_" + G.type_name(i, nd["kind"]) + "__0"
        abstract.append(sh)
        ops.append(o)
    for sh in twice_variants(tier):
        o = G.ops_of(sh)
        abstract.append(dict(sh, twice=True))
        ops.append(o[:-1] + [{"k": "nest", "prefix": "/x", "bp": {"ops": [o[-1]]}}, {"k": "nest", "prefix": "/y", "bp": {"ops": [o[-1]]}}])
    return abstract, ops


def _stalemate_candidates(tier):
    """Request-scoped shapes with >= 2 sources and <= 4 values, ascending order."""
    out = []
    for sh in G.shapes(tier):
        if sh["order"] != "a" or any(nd["lc"] != "R" for nd in sh["nodes"]):
            continue
        n = len(sh["nodes"])
        if sum(1 for nd in sh["nodes"] if not nd["ins"]) < 2 or n > 4 or any(nd["kind"] == "K" for nd in sh["nodes"]):
            continue
        out.append(sh)
    return out


def fallible_source_variants(tier):
    """The same shapes with every source built by a FALLIBLE constructor (`DGF_*`, gen_app_extra_dagf.py; no error handler
    registered: the framework default applies): the values the borrow checker reasons about are then derived components
    (the Ok arm of the match), not user-registered ones."""
    return [dict(sh, nodes=[dict(nd, variant="fallible" if not nd["ins"] else None) for nd in sh["nodes"]]) for sh in _stalemate_candidates(tier)]


def twice_variants(tier):
    """The same constructors feeding the same handler on TWO routes (nested under /x and /y): every diagnostic about the
    dependency graph is produced once per call graph, with identical text. Only shapes outside the must-accept class
    (the ones that can produce diagnostics)."""
    out = []
    for sh in _stalemate_candidates(tier):
        spec = {"id": "x", "family": "dag", "bp": {"ops": G.ops_of(sh)}}
        if M.classify_spec(M.Analysis(spec))[0] != "must_accept":
            out.append(sh)
    return out


def singleton_source_variants(tier):
    """Members whose contended values enter the handler's call graph as INPUT PARAMETERS instead of being computed in
    it: every all-request-scoped shape of the thorough enumeration whose clone-if-necessary values are exactly its
    shared sources, with those sources registered as singletons (same components, lifecycle only).
    quick: the shapes with >= 2 such sources and 4 values (the mutual move/borrow diamonds) plus the <= 3-value shapes;
    thorough: additionally every 5-value shape with >= 2 such sources and every 4-value shape with one."""
    out = []
    for sh in G.shapes("thorough"):
        if sh["order"] != "a" or any(nd["lc"] != "R" for nd in sh["nodes"]):
            continue
        src = [i for i, nd in enumerate(sh["nodes"]) if not nd["ins"] and nd["kind"] == "C"]
        if not src or set(src) != {i for i, nd in enumerate(sh["nodes"]) if nd["kind"] == "C"}:
            continue
        if any(nd["kind"] == "K" for nd in sh["nodes"]):
            continue
        n = len(sh["nodes"])
        if tier == "quick" and not ((len(src) >= 2 and n == 4) or n <= 3):
            continue
        if tier == "thorough" and not (len(src) >= 2 or n <= 4):
            continue
        out.append(dict(sh, nodes=[dict(nd, lc="S" if i in src else "R") for i, nd in enumerate(sh["nodes"])]))
    return out


def compact_shape(sh):
    """`N2P(N0Kv,&N1P)` style rendering for reports."""
    parts = []
    for i, nd in enumerate(sh["nodes"]):
        ins = ",".join(("&" if m == "r" else "") + G.type_name(j, sh["nodes"][j]["kind"]) for j, m in
                       (sorted(nd["ins"]) if sh["order"] == "a" else sorted(nd["ins"])[::-1]))
        attr = ("+cin" if nd["kind"] == "C" else "") + ("+transient" if nd["lc"] == "T" else "") + ("+singleton" if nd["lc"] == "S" else "") + ("+fallible" if nd.get("variant") == "fallible" else "")
        parts.append(f"{G.type_name(i, nd['kind'])}{attr}({ins})")
    h = ",".join(("&" if m == "r" else "") + G.type_name(j, sh["nodes"][j]["kind"]) for j, m in sh["h"])
    return "; ".join(parts) + f"; handler({h})" + (" on two routes" if sh.get("twice") else "")


def observe(tier):
    import orchestrator
    abstract, ops = dag_shapes(tier)
    base = L.PAVEXC_TIMEOUT_S
    L.PAVEXC_TIMEOUT_S = min(base, SCREEN_TIMEOUT_S)
    try:
        o = orchestrator.observe_packable_family("dag", tier, ops)
    finally:
        L.PAVEXC_TIMEOUT_S = base
    suspects = [i for i in range(len(ops)) if o["singles_gen"][f"dag{i:06d}"]["timed_out"]]
    slow_packs = [p["id"] for p in o["packs"] if o["packs_gen"][p["id"]]["timed_out"]]
    kept = list(range(len(ops)))
    not_judged = []
    if suspects or slow_packs:
        L.log(f"dag: {len(suspects)} shapes / {len(slow_packs)} packs exceeded the screening limit of {SCREEN_TIMEOUT_S}s; "
              f"second pass under the shared limit with the {N_CONFIRM} simplest suspect(s)")
        drop = set(suspects[N_CONFIRM:])
        kept = [i for i in range(len(ops)) if i not in drop]
        not_judged = [{"enumeration_index": i, "shape": compact_shape(abstract[i]), "ops": ops[i],
                       "screen_wall_s": o["singles_gen"][f"dag{i:06d}"]["wall_s"],
                       "retried_alone": bool(o["singles_gen"][f"dag{i:06d}"].get("retried_after_timeout"))} for i in sorted(drop)]
        o = orchestrator.observe_packable_family("dag", tier, [ops[i] for i in kept])
        for k, i in enumerate(kept):
            if i in suspects and not o["singles_gen"][f"dag{k:06d}"]["timed_out"]:
                raise L.MachineryError(f"dag: shape {compact_shape(abstract[i])} exceeded the screening limit of {SCREEN_TIMEOUT_S}s "
                                       f"(also when re-run alone) but terminated under the shared limit: machine overloaded, "
                                       f"raise VERIF_DAG_SCREEN_S")
    for g in list(o["singles_gen"].values()) + list(o["packs_gen"].values()):
        g.pop("stdout", None)
    o["abstract"] = [abstract[i] for i in kept]
    o["n_enumerated"] = len(ops)
    o["hang_suspects_not_judged"] = not_judged
    o["screen_timeout_s"] = SCREEN_TIMEOUT_S
    return o


# --------------------------------------------------------------------------------------------------
# oracles: the shared ones, with violation keys abstracted for this family
# --------------------------------------------------------------------------------------------------
class _Keys:
    """Reporter proxy: one defect -> few keys. The shared C01 oracle appends the whole blueprint to the key and the
    shared diagnostic normaliser does not know the N<i> types."""

    def __init__(self, rep):
        self._rep = rep

    def violation(self, key, what, case):
        if key.startswith("dag:rustc"):
            cut = min([key.index(m) for m in (":DG_", ":pack[", ":nest") if m in key] or [len(key)])
            key = key[:cut]
        key = re.sub(r"verif_app::N[0-9]([PK])", r"<\1>", key)
        self._rep.violation(key, what, case)

    def __getattr__(self, name):
        return getattr(self._rep, name)


def _structure_class(sh):
    n = len(sh["nodes"])
    s = sum(1 for nd in sh["nodes"] if not nd["ins"])
    depth = []
    for nd in sh["nodes"]:
        depth.append(1 + max((depth[j] for j, _ in nd["ins"]), default=-1))
    outs = collections.Counter(j for nd in sh["nodes"] for j, _ in nd["ins"])
    outs.update(j for j, _ in sh["h"])
    return f"n{n}:sources{s}:depth{max(depth) + 1}:handler{len(sh['h'])}:fanin{max(len(nd['ins']) for nd in sh['nodes'])}:fanout{max(outs.values())}"


def _extra_coverage(o, tier):
    """Counters that let a reader judge non-vacuity (measured, never constants)."""
    cov = {}
    if "abstract" not in o:  # replay of a single case
        return cov
    hist = collections.Counter()
    struct = collections.Counter()
    reject_titles = collections.Counter()
    import oracles as O
    for i, sh in enumerate(o["abstract"]):
        spec = {"id": f"dag{i:06d}", "family": "dag", "bp": {"ops": o["shapes"][i]}}
        g = o["singles_gen"][spec["id"]]
        verdict, why = M.classify_spec(M.Analysis(spec))
        out = "hang" if g["timed_out"] else ("accepted" if g["exit"] == 0 else "rejected")
        hist[f"{verdict}:{out}"] += 1
        struct[_structure_class(sh)] += 1
        if out == "rejected":
            reject_titles[re.sub(r"verif_app::N[0-9]([PK])", r"<\1>", O.first_error_title(g["stderr"]))[:90]] += 1
    cov["dag_shapes_enumerated"] = o.get("n_enumerated")
    cov["dag_shapes_judged"] = len(o["abstract"])
    cov["dag_verdict_histogram"] = dict(sorted(hist.items()))
    cov["dag_structure_classes"] = len(struct)
    cov["dag_structure_histogram_top"] = dict(struct.most_common(12))
    cov["dag_rejection_diagnostics"] = dict(reject_titles.most_common(6))
    cov["dag_packs"] = len(o.get("packs", []))
    cov["dag_hang_suspects_not_judged"] = len(o.get("hang_suspects_not_judged", []))
    cov["dag_screen_timeout_s"] = o.get("screen_timeout_s")
    cov["dag_bounds"] = {t: [{k: v for k, v in st.items()} for st in G.BOUNDS[t]] for t in (tier,)}
    return cov


RULE = ("DAG family (engines/e2e/fam_dag.py, gen_app_extra_dag.py): every rooted dependency DAG over value types N0..N5 "
        "(constructors with <= 3 inputs by value / by shared reference, handler with an ordered list of <= 4 parameters, kinds "
        "plain / Clone never-clone / Clone clone-if-necessary, request-scoped or transient) inside the bounds of the tier "
        "(coverage key dag_bounds), one member per isomorphism class (relabelling preserving kinds, lifecycles, modes and the "
        "handler parameter order), realised with constructor parameters in ascending (thorough: also descending) label order; "
        "judged by the shared oracle of the property. ")


def _wrap(shared_name, prop):
    def oracle(obs, rep, tier):
        import oracles as O
        o = obs.get("dag")
        if o is None:  # replay of a case of another family: nothing to judge here
            return "exploration", {"evaluations": 0, "distinct_nontrivial": 0, "exhaustive": True, "rule": "", "samples": []}, []
        lvl, cov, asm = getattr(O, shared_name)({"dag": o}, _Keys(rep), tier)
        cov = dict(cov)
        cov["rule"] = RULE + cov.get("rule", "")
        cov.update(_extra_coverage(o, tier))
        if o.get("hang_suspects_not_judged"):
            cov["exhaustive"] = False
            cov["cap"] = (f"{len(o['hang_suspects_not_judged'])} shapes exceeded the screening limit of {o.get('screen_timeout_s')}s and are "
                          f"not judged (the simplest suspect is judged under the shared 120s/360s rule)")
        return lvl, cov, asm + ["constructor parameter order and registration order are bounded (one/two orders per shape), not enumerated"]

    return oracle


PROPERTIES = {
    "C01": (lambda tier: ["dag"], _wrap("oracle_c01", "C01")),
    "C02": (lambda tier: ["dag"], _wrap("oracle_c02", "C02")),
    "C03": (lambda tier: ["dag"], _wrap("oracle_c03", "C03")),
    "C04": (lambda tier: ["dag"], _wrap("oracle_c04", "C04")),
    "C09": (lambda tier: ["dag"], _wrap("oracle_c09", "C09")),
}
