"""Extra verif_app components for the PLANT family (C08) — loaded by gen_app.py (see EXTENDING.md).

Everything here is a *consumer* or a *producer* needed to plant a documented rule violation at more
positions than gen_app.gen_plants offers:
  * consumers of the plant types (CycA, NotSend, NotSync, SyncNotSend) of every component kind, on the
    spare path `/px`, so that a plant can be added to any base blueprint without a route conflict;
  * back-edge constructors T0 <- &T1 / &T2 / &T0 (cycles through the ordinary types, at any depth);
  * error observers over T1/T2 (transitive dependency on a fallible constructor);
  * a generic, fallible `PathParams<T>` constructor (bpgen can only register verif_app components, so
    pavex's own `PathParams::extract` is not reachable) and path-parameter consumers of every kind;
  * a flat `/p/a` route (conflict through prefix nesting), prebuilt types that are not thread-safe.
Bodies are instrumentation only, as everywhere in verif_app.
"""

PLANT_TYPES = ["CycA", "NotSend", "NotSync", "SyncNotSend", "PbNotSync"]
FLAV = ["P", "K", "Y"]


def gen(w, catalog):
    def ctor(cid, out, inputs, **extra):
        d = {"id": cid, "kind": "ctor", "macro": "constructor", "out": out, "inputs": inputs, "fallible": False,
             "async": False, "err": None, "plant": True}
        d.update(extra)
        catalog.append(d)

    def handler(cid, path, inputs, methods=("GET",), **extra):
        d = {"id": cid, "kind": "handler", "macro": "route", "inputs": inputs, "fallible": False, "err": None,
             "path": path, "methods": list(methods), "plant": True}
        d.update(extra)
        catalog.append(d)

    w("// ================= gen_app_extra_plant.py =================")
    # ---- Sync but not Send; prebuilt that is not Sync
    w("#[derive(Debug)] pub struct SyncNotSend(pub std::sync::MutexGuard<'static, u8>);")
    w("#[pavex::singleton(id = \"C_SYNCNOTSEND\")] pub fn c_syncnotsend() -> SyncNotSend { "
      "let m: &'static std::sync::Mutex<u8> = Box::leak(Box::new(std::sync::Mutex::new(0))); SyncNotSend(m.lock().unwrap()) }")
    ctor("C_SYNCNOTSEND", "SyncNotSend", [])
    w("#[derive(Debug)]")
    w("#[pavex::prebuilt(id = \"PB_NOTSYNC\")]")
    w("pub struct PbNotSync(pub std::cell::Cell<u8>);")
    w("impl crate::Make for PbNotSync { fn make() -> Self { PbNotSync(std::cell::Cell::new(0)) } }")
    catalog.append({"id": "PB_NOTSYNC", "kind": "prebuilt", "macro": "prebuilt", "out": "PbNotSync", "plant": True})

    # ---- consumers of the plant types, one per component kind, all on /px
    for pt in PLANT_TYPES:
        u = pt.upper()
        inp = [{"type": pt, "mode": "r"}]
        w(f"#[pavex::get(path = \"/px\", id = \"HX_{u}_R\")] pub fn hx_{u.lower()}_r(_a: &{pt}) -> pavex::Response "
          f"{{ rt::call(\"handler\", \"HX_{u}_R\", &[]); rt::respond(\"h\", \"HX_{u}_R\") }}")
        handler(f"HX_{u}_R", "/px", inp)
        w(f"#[pavex::pre_process(id = \"PREX_{u}_R\")] pub fn prex_{u.lower()}_r(_a: &{pt}) -> pavex::middleware::Processing "
          f"{{ rt::call(\"pre\", \"PREX_{u}_R\", &[]); pavex::middleware::Processing::Continue }}")
        catalog.append({"id": f"PREX_{u}_R", "kind": "pre", "macro": "pre_process", "inputs": inp, "fallible": False,
                        "err": None, "idx": 9, "plant": True})
        w(f"#[pavex::post_process(id = \"POSTX_{u}_R\")] pub fn postx_{u.lower()}_r(resp: pavex::Response, _a: &{pt}) -> pavex::Response "
          f"{{ rt::call(\"post\", \"POSTX_{u}_R\", &[]); resp }}")
        catalog.append({"id": f"POSTX_{u}_R", "kind": "post", "macro": "post_process", "inputs": inp, "fallible": False,
                        "err": None, "idx": 9, "plant": True})
        w(f"#[pavex::wrap(id = \"WRAPX_{u}_R\")] pub async fn wrapx_{u.lower()}_r<C>(next: pavex::middleware::Next<C>, _a: &{pt}) -> pavex::Response")
        w(f"where C: std::future::IntoFuture<Output = pavex::Response> {{ rt::call(\"wrap\", \"WRAPX_{u}_R\", &[]); let r = next.await; "
          f"rt::ev(format!(\"wrapexit WRAPX_{u}_R\")); r }}")
        catalog.append({"id": f"WRAPX_{u}_R", "kind": "wrap", "macro": "wrap", "inputs": inp, "fallible": False,
                        "err": None, "idx": 9, "plant": True})
        w(f"#[pavex::error_observer(id = \"OBSX_{u}_R\")] pub fn obsx_{u.lower()}_r(e: &pavex::Error, _a: &{pt}) "
          f"{{ rt::call_err(\"obs\", \"OBSX_{u}_R\", &e.to_string(), &[]); }}")
        catalog.append({"id": f"OBSX_{u}_R", "kind": "obs", "macro": "error_observer", "inputs": inp, "idx": 9, "plant": True})
        # via a request-scoped constructor (the plant type is needed transitively)
        w(f"#[derive(Debug)] pub struct Via{pt}(pub u8);")
        w(f"#[pavex::request_scoped(id = \"C_VIA_{u}\")] pub fn c_via_{u.lower()}(_a: &{pt}) -> Via{pt} {{ Via{pt}(0) }}")
        ctor(f"C_VIA_{u}", f"Via{pt}", inp)
        w(f"#[pavex::get(path = \"/px\", id = \"HX_VIA_{u}_R\")] pub fn hx_via_{u.lower()}_r(_a: &Via{pt}) -> pavex::Response "
          f"{{ rt::call(\"handler\", \"HX_VIA_{u}_R\", &[]); rt::respond(\"h\", \"HX_VIA_{u}_R\") }}")
        handler(f"HX_VIA_{u}_R", "/px", [{"type": f"Via{pt}", "mode": "r"}])
    # a fallible handler on /px with no inputs (gives error observers something to observe)
    w("#[pavex::get(path = \"/px\", id = \"HX__0__F\")] pub fn hx__0__f() -> Result<pavex::Response, ErrH> "
      "{ rt::call(\"handler\", \"HX__0__F\", &[]); if rt::fails(\"HX__0__F\") { return Err(ErrH::new(\"HX__0__F\")); } Ok(rt::respond(\"h\", \"HX__0__F\")) }")
    catalog.append({"id": "HX__0__F", "kind": "handler", "macro": "route", "inputs": [], "fallible": True, "err": "ErrH",
                    "path": "/px", "methods": ["GET"], "plant": True})
    w("#[pavex::get(path = \"/px\", id = \"HX__0__I\")] pub fn hx__0__i() -> pavex::Response "
      "{ rt::call(\"handler\", \"HX__0__I\", &[]); rt::respond(\"h\", \"HX__0__I\") }")
    handler("HX__0__I", "/px", [])
    # consumers of the ordinary T0 flavours on /px (missing-constructor / singleton plants at a second route)
    for f in FLAV:
        for m, mty in (("r", "&"), ("v", ""), ("m", "&mut ")):
            cid = f"HX_T0{f}_{m.upper()}"
            w(f"#[pavex::get(path = \"/px\", id = \"{cid}\")] pub fn {cid.lower()}(a: {mty}T0{f}) -> pavex::Response "
              f"{{ rt::call(\"handler\", \"{cid}\", &[a.tag()]); rt::respond(\"h\", \"{cid}\") }}")
            handler(cid, "/px", [{"type": f"T0{f}", "mode": m}])
    # prebuilt consumers on /px
    w("#[pavex::get(path = \"/px\", id = \"HX_PBP_R\")] pub fn hx_pbp_r(a: &PbP) -> pavex::Response { rt::call(\"handler\", \"HX_PBP_R\", &[a.tag()]); rt::respond(\"h\", \"HX_PBP_R\") }")
    handler("HX_PBP_R", "/px", [{"type": "PbP", "mode": "r"}])
    w("#[pavex::get(path = \"/px\", id = \"HX_PBP_V\")] pub fn hx_pbp_v(a: PbP) -> pavex::Response { rt::call(\"handler\", \"HX_PBP_V\", &[a.tag()]); rt::respond(\"h\", \"HX_PBP_V\") }")
    handler("HX_PBP_V", "/px", [{"type": "PbP", "mode": "v"}])
    w("#[pavex::get(path = \"/px\", id = \"HX_PBP_M\")] pub fn hx_pbp_m(a: &mut PbP) -> pavex::Response { rt::call(\"handler\", \"HX_PBP_M\", &[a.tag()]); rt::respond(\"h\", \"HX_PBP_M\") }")
    handler("HX_PBP_M", "/px", [{"type": "PbP", "mode": "m"}])

    # ---- back-edge constructors: cycles through the ordinary types
    for f0 in FLAV:
        for f1 in FLAV:
            cid = f"C_T0{f0}__BACK_T1{f1}R"
            w(f"#[pavex::request_scoped(id = \"{cid}\")] pub fn {cid.lower()}(a0: &T1{f1}) -> T0{f0} {{ T0{f0}::mk(\"{cid}\", &[a0.tag()]) }}")
            ctor(cid, f"T0{f0}", [{"type": f"T1{f1}", "mode": "r"}])
            cid = f"C_T0{f0}__BACK_T1{f1}V"
            w(f"#[pavex::request_scoped(id = \"{cid}\")] pub fn {cid.lower()}(a0: T1{f1}) -> T0{f0} {{ T0{f0}::mk(\"{cid}\", &[a0.tag()]) }}")
            ctor(cid, f"T0{f0}", [{"type": f"T1{f1}", "mode": "v"}])
        cid = f"C_T0{f0}__BACK_T2PR"
        w(f"#[pavex::request_scoped(id = \"{cid}\")] pub fn {cid.lower()}(a0: &T2P) -> T0{f0} {{ T0{f0}::mk(\"{cid}\", &[a0.tag()]) }}")
        ctor(cid, f"T0{f0}", [{"type": "T2P", "mode": "r"}])
        cid = f"C_T0{f0}__SELF"
        w(f"#[pavex::request_scoped(id = \"{cid}\")] pub fn {cid.lower()}(a0: &T0{f0}) -> T0{f0} {{ T0{f0}::mk(\"{cid}\", &[a0.tag()]) }}")
        ctor(cid, f"T0{f0}", [{"type": f"T0{f0}", "mode": "r"}])

    # ---- `&mut` inputs on constructors of the remaining flavour / with a second input
    w("#[pavex::request_scoped(id = \"C_T1Y__MUT\")] pub fn c_t1y__mut(a0: &mut T0Y) -> T1Y { T1Y::mk(\"C_T1Y__MUT\", &[a0.tag()]) }")
    ctor("C_T1Y__MUT", "T1Y", [{"type": "T0Y", "mode": "m"}])
    w("#[pavex::request_scoped(id = \"C_T2P__MUT1\")] pub fn c_t2p__mut1(a0: &T0P, a1: &mut T1P) -> T2P { T2P::mk(\"C_T2P__MUT1\", &[a0.tag(), a1.tag()]) }")
    ctor("C_T2P__MUT1", "T2P", [{"type": "T0P", "mode": "r"}, {"type": "T1P", "mode": "m"}])

    # ---- observers over T1 / T2 (transitive dependencies)
    for idx in (1, 2):
        for ty in ("T1P", "T1K", "T2P"):
            cid = f"OBS{idx}__{ty}R"
            w(f"#[pavex::error_observer(id = \"{cid}\")] pub fn {cid.lower()}(e: &pavex::Error, a0: &{ty}) "
              f"{{ rt::call_err(\"obs\", \"{cid}\", &e.to_string(), &[a0.tag()]); }}")
            catalog.append({"id": cid, "kind": "obs", "macro": "error_observer", "inputs": [{"type": ty, "mode": "r"}],
                            "idx": idx, "plant": True})

    # ---- path parameters
    PP = "pavex::request::path::PathParams"
    w("#[pavex::request_scoped(id = \"C_PATHPARAMS\")]")
    w(f"pub fn c_pathparams<'server, 'request, T>(p: pavex::request::path::RawPathParams<'server, 'request>) -> Result<{PP}<T>, ErrX>")
    w(f"where T: serde::Deserialize<'request>, 'server: 'request {{ {PP}::extract(p).map_err(|_| ErrX::new(\"C_PATHPARAMS\")) }}")
    catalog.append({"id": "C_PATHPARAMS", "kind": "ctor", "macro": "constructor", "out": "PathParams<T>",
                    "inputs": [], "fallible": True, "async": False, "err": "ErrX", "plant": True, "generic": True})
    w("#[pavex::request::path::PathParams]")
    w("pub struct PpXZ { pub x: String, pub z: String }")
    for cid, sty, path in [("PPX_OK", "PpX", "/a/{x}"), ("PPX_BAD_PARTIAL", "PpXZ", "/a/{x}"),
                           ("PPX_BAD_CATCHALL", "PpY", "/a/{*r}"), ("PPX_OK_STATIC_UNDER_PREFIX", "PpX", "/a/b")]:
        w(f"#[pavex::get(path = \"{path}\", id = \"{cid}\")] pub fn {cid.lower()}(p: &{PP}<{sty}>) -> pavex::Response "
          f"{{ let _ = p; rt::call(\"handler\", \"{cid}\", &[]); rt::respond(\"h\", \"{cid}\") }}")
        handler(cid, path, [{"type": f"PathParams<{sty}>", "mode": "r"}])
    for sty in ("PpX", "PpY"):
        u = sty.upper()
        inp = [{"type": f"PathParams<{sty}>", "mode": "r"}]
        w(f"#[pavex::pre_process(id = \"PREX_{u}\")] pub fn prex_{u.lower()}(_p: &{PP}<{sty}>) -> pavex::middleware::Processing "
          f"{{ rt::call(\"pre\", \"PREX_{u}\", &[]); pavex::middleware::Processing::Continue }}")
        catalog.append({"id": f"PREX_{u}", "kind": "pre", "macro": "pre_process", "inputs": inp, "fallible": False, "err": None,
                        "idx": 9, "plant": True})
        w(f"#[pavex::post_process(id = \"POSTX_{u}\")] pub fn postx_{u.lower()}(resp: pavex::Response, _p: &{PP}<{sty}>) -> pavex::Response "
          f"{{ rt::call(\"post\", \"POSTX_{u}\", &[]); resp }}")
        catalog.append({"id": f"POSTX_{u}", "kind": "post", "macro": "post_process", "inputs": inp, "fallible": False, "err": None,
                        "idx": 9, "plant": True})
        w(f"#[pavex::wrap(id = \"WRAPX_{u}\")] pub async fn wrapx_{u.lower()}<C>(next: pavex::middleware::Next<C>, _p: &{PP}<{sty}>) -> pavex::Response")
        w(f"where C: std::future::IntoFuture<Output = pavex::Response> {{ rt::call(\"wrap\", \"WRAPX_{u}\", &[]); let r = next.await; "
          f"rt::ev(format!(\"wrapexit WRAPX_{u}\")); r }}")
        catalog.append({"id": f"WRAPX_{u}", "kind": "wrap", "macro": "wrap", "inputs": inp, "fallible": False, "err": None,
                        "idx": 9, "plant": True})
        w(f"#[derive(Debug)] pub struct Via{sty}(pub u8);")
        w(f"#[pavex::request_scoped(id = \"C_VIA_{u}\")] pub fn c_via_{u.lower()}(_p: &{PP}<{sty}>) -> Via{sty} {{ Via{sty}(0) }}")
        ctor(f"C_VIA_{u}", f"Via{sty}", inp)
        w(f"#[pavex::get(path = \"/a/{{x}}\", id = \"PPX_VIA_{u}\")] pub fn ppx_via_{u.lower()}(_a: &Via{sty}) -> pavex::Response "
          f"{{ rt::call(\"handler\", \"PPX_VIA_{u}\", &[]); rt::respond(\"h\", \"PPX_VIA_{u}\") }}")
        handler(f"PPX_VIA_{u}", "/a/{x}", [{"type": f"Via{sty}", "mode": "r"}])
    # a handler on /a/{x} that takes both a good and a bad extractor
    w(f"#[pavex::get(path = \"/a/{{x}}\", id = \"PPX_GOOD_AND_BAD\")] pub fn ppx_good_and_bad(_p: &{PP}<PpX>, _q: &{PP}<PpY>) -> pavex::Response "
      "{ rt::call(\"handler\", \"PPX_GOOD_AND_BAD\", &[]); rt::respond(\"h\", \"PPX_GOOD_AND_BAD\") }")
    handler("PPX_GOOD_AND_BAD", "/a/{x}", [{"type": "PathParams<PpX>", "mode": "r"}, {"type": "PathParams<PpY>", "mode": "r"}])

    # ---- flat routes for conflicts through prefix nesting
    for mk, (attr, methods) in {"get": ('method = "GET"', ["GET"]), "any": ("allow(any_method)", "ANY"),
                                 "post": ('method = "POST"', ["POST"])}.items():
        cid = f"RT_PA_{mk.upper()}"
        w(f"#[pavex::route({attr}, path = \"/p/a\", id = \"{cid}\")] pub fn {cid.lower()}(p: &pavex::request::path::RawPathParams<'_, '_>) -> pavex::Response "
          f"{{ rt::call_params(\"handler\", \"{cid}\", p); rt::respond(\"h\", \"{cid}\") }}")
        catalog.append({"id": cid, "kind": "handler", "macro": "route", "inputs": [], "fallible": False, "err": None,
                        "path": "/p/a", "methods": methods, "route_family": True, "plant": True})
    w("// ================= end gen_app_extra_plant.py =================")
    w()
