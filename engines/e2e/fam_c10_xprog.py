"""C10 / cross-program dimension: the sibling programs of fam_c10.py (definitions only; execution and oracle live
in fam_c10.py, this module has no dependency on it so that it can be imported from there).

A *program* is (source variant, blueprint). All programs of this module live in ONE project per arena:

    arena<k>/s/app      a small component crate, on purpose also called `verif_app 0.1.0` and also seen as `../app`
                        from its workspace (bpgen hard-codes the package coordinates; and every rustdoc-cache key
                        column except the source hash collides with P's and X's component crates)
    arena<k>/s/dep      `dep`, a local crate: path dependency of the component crate (`../dep`). It sits next to the
                        component crate rather than among the workspace members because pavexc keys the cached docs of
                        workspace members by ABSOLUTE path (those of path dependencies by the path relative to the
                        workspace root), and the warm-cache snapshot must be valid in every arena
    arena<k>/s/ws       the workspace: holder (blueprint locations), the generated crate `sdk`, bp.ron, diag.dot

Switching to a sibling = rewriting the sources that differ *in place* (app/src/lib.rs, dep/Cargo.toml, the cargo
metadata handed to pavexc) and/or replacing bp.ron, while the output directory keeps what the previous program
left there. A *family* is a list of siblings that differ by exactly one edit; the histories of fam_c10.py visit
every ordered pair of a family.
"""
import hashlib
import json

PKG = "verif_app"  # see the module comment
DEP = "dep"

# ----------------------------------------------------------------------------------------------------------------
# source variants: parameters of the Rust text below. Every variant differs from `base` in exactly one place.
# ----------------------------------------------------------------------------------------------------------------
BASE = {"srcpath": "/ping", "fn_ren": "h_ren_aaaa", "mod_ren": "m_aaaa", "id_ren": "H_X_IDAA", "depver": "0.1.0"}
VARIANTS = {
    "base": {},
    "srcpath": {"srcpath": "/pong"},        # #[pavex::get(path = "/ping")] -> "/pong"
    "fnren": {"fn_ren": "h_ren_bbbb"},      # a handler function renamed (same id, same blueprint)
    "modren": {"mod_ren": "m_bbbb"},        # the module of a handler renamed
    "idren": {"id_ren": "H_X_IDBB"},        # the id of a component renamed (the blueprint follows)
    "depv2": {"depver": "0.2.0"},           # version of the local crate `dep` bumped
}
N_PADS = 10


def variant_params(v):
    p = dict(BASE)
    p.update(VARIANTS[v])
    return p


def app_manifest(repo):
    return f'''[package]
name = "{PKG}"
version = "0.1.0"
edition = "2024"

[lints.rust]
unexpected_cfgs = {{ level = "allow", check-cfg = ['cfg(pavex_ide_hint)'] }}

[dependencies]
pavex = {{ path = "{repo}/runtime/pavex" }}
{DEP} = {{ path = "../{DEP}" }}
'''


def dep_manifest(v):
    return f'''[package]
name = "{DEP}"
version = "{variant_params(v)["depver"]}"
edition = "2024"

[dependencies]
'''


DEP_LIB = '''//! C10 sibling programs: the local crate whose types show up in the generated code of some siblings only.
#[derive(Debug)]
pub struct Thing { pub n: u64 }
impl Thing { pub fn new() -> Self { Thing { n: 7 } } }
impl Default for Thing { fn default() -> Self { Self::new() } }
'''


def _handler(w, cat, hid, fn, path, params="", body_use=""):
    w(f'#[pavex::get(path = "{path}", id = "{hid}")]')
    w(f"pub fn {fn}({params}) -> pavex::Response {{ {body_use}pavex::Response::ok() }}")
    cat.append({"id": hid, "kind": "handler", "macro": "route", "inputs": [], "path": path, "methods": ["GET"]})


def app_lib(v):
    """-> (Rust source of the component crate for source variant v, its catalog)"""
    p = variant_params(v)
    src, cat = [], []
    w = src.append
    w("//! C10 sibling programs (fam_c10_xprog.py): a small component library. Bodies are irrelevant: only pavexc reads this.")
    w("")
    # a value built by one of two same-length-named constructors
    w("#[derive(Debug)] pub struct Val { pub n: u64 }")
    for s in ("aaaa", "bbbb"):
        w(f'#[pavex::request_scoped(id = "C_X_{s.upper()}")]')
        w(f"pub fn make_{s}() -> Val {{ Val {{ n: 1 }} }}")
        cat.append({"id": f"C_X_{s.upper()}", "kind": "ctor", "macro": "constructor", "inputs": []})
    _handler(w, cat, "H_X_VAL", "h_val", "/val", "v: &Val", "let _ = v.n; ")
    # the local crate's type, as a singleton (a field of ApplicationState: the generated crate depends on `dep`)
    w('#[pavex::singleton(id = "C_X_THING")]')
    w(f"pub fn make_thing() -> {DEP}::Thing {{ {DEP}::Thing::new() }}")
    cat.append({"id": "C_X_THING", "kind": "ctor", "macro": "constructor", "inputs": []})
    _handler(w, cat, "H_X_DEP", "h_dep", "/dep", f"t: &{DEP}::Thing", "let _ = t.n; ")
    _handler(w, cat, "H_X_NODEP", "h_nodep", "/dep")
    # a fallible handler and two same-length-named error handlers
    w("#[derive(Debug)] pub struct XErr;")
    w('impl std::fmt::Display for XErr { fn fmt(&self, f: &mut std::fmt::Formatter<\'_>) -> std::fmt::Result { write!(f, "XErr") } }')
    w("impl std::error::Error for XErr {}")
    w('#[pavex::get(path = "/fail", id = "H_X_FAIL")]')
    w("pub fn h_fail() -> Result<pavex::Response, XErr> { Err(XErr) }")
    cat.append({"id": "H_X_FAIL", "kind": "handler", "macro": "route", "inputs": [], "path": "/fail", "methods": ["GET"]})
    for s in ("aaaa", "bbbb"):
        w(f'#[pavex::error_handler(id = "EH_X_{s.upper()}")]')
        w(f"pub fn eh_{s}(#[px(error_ref)] _e: &XErr) -> pavex::Response {{ pavex::Response::ok() }}")
        cat.append({"id": f"EH_X_{s.upper()}", "kind": "eh", "macro": "error_handler", "inputs": []})
    # routes
    _handler(w, cat, "H_X_ROOT", "h_root", "/it")                      # nested under a prefix by the blueprint
    _handler(w, cat, "H_X_SRCP", "h_srcp", p["srcpath"])                # path edited in the source
    for s in ("aaaa", "bbbb"):                                          # two same-length-named handlers of one path
        _handler(w, cat, f"H_X_{s.upper()}", f"h_tail_{s}", "/zz/tail")
    _handler(w, cat, "H_X_REN", p["fn_ren"], "/zz/ren")                 # function renamed in the source
    _handler(w, cat, p["id_ren"], "h_idr", "/idr")                      # id renamed in the source
    w(f"pub mod {p['mod_ren']} {{")                                     # module renamed in the source
    _handler(lambda s: w("    " + s), cat, "H_X_MOD", "h_mod", "/zz/mod")
    w("}")
    for i in range(N_PADS):
        _handler(w, cat, f"H_X_PAD{i}", f"h_pad{i}", f"/pad{i}")
    return "\n".join(src) + "\n", cat


def sources(v, repo):
    """{path relative to arena<k>/s: text} of source variant v."""
    lib, _cat = app_lib(v)
    return {"app/Cargo.toml": app_manifest(repo), "app/src/lib.rs": lib,
            f"{DEP}/Cargo.toml": dep_manifest(v), f"{DEP}/src/lib.rs": DEP_LIB}


def catalog():
    """Union of the catalogs of all variants (bpgen only needs id -> macro)."""
    seen, out = set(), []
    for v in VARIANTS:
        for c in app_lib(v)[1]:
            if c["id"] not in seen:
                seen.add(c["id"])
                out.append(c)
    return out


def sources_digest(repo):
    return hashlib.sha256(json.dumps({v: sources(v, repo) for v in sorted(VARIANTS)}, sort_keys=True).encode()).hexdigest()


# ----------------------------------------------------------------------------------------------------------------
# blueprints and families
# ----------------------------------------------------------------------------------------------------------------
def R(c, eh=None):
    op = {"k": "route", "c": c}
    if eh:
        op["eh"] = eh
    return op


def N(ops, prefix):
    return {"k": "nest", "prefix": prefix, "bp": {"ops": ops}}


def C(c, lc):
    return {"k": "ctor", "c": c, "lc": lc}


def pads(n):
    return [R(f"H_X_PAD{i}") for i in range(n)]


RS, SG = "request_scoped", "singleton"
BIG = 6  # pad routes of the "big" programs: generated lib.rs well above 8 KiB (measured, asserted by fam_c10.xprog_baseline)


def families(tier):
    """[{name, doc, expect: {...placement demanded from the measurement...}, siblings: [{name, src, ops}], edits: {(a, b): label}}]"""
    fams = []

    def fam(name, doc, sibs, edits, **expect):
        fams.append({"name": name, "doc": doc, "expect": expect,
                     "siblings": [{"name": n, "src": s, "ops": o} for n, s, o in sibs],
                     "edits": {f"{a}>{b}": lab for (a, b), lab in edits.items()}})

    fam("dep", "A builds a singleton of the local crate's type (ApplicationState field -> `dep` in the generated manifest), B does not",
        [("with", "base", [C("C_X_THING", SG), R("H_X_DEP")]), ("without", "base", [R("H_X_NODEP")])],
        {("with", "without"): "drop-dependency", ("without", "with"): "add-dependency"}, differ=["manifest", "lib"])
    fam("prefix_small", "one route under the prefix /ping vs /pong; lib.rs shorter than 8 KiB",
        [("ping", "base", [N([R("H_X_ROOT")], "/ping")]), ("pong", "base", [N([R("H_X_ROOT")], "/pong")])],
        {("ping", "pong"): "prefix-ping-to-pong", ("pong", "ping"): "prefix-pong-to-ping"},
        same_size=["lib", "diag"], lib="small")
    fam("prefix_big", "same edit next to pad routes: lib.rs longer than 8 KiB, the difference in its first (full) block",
        [("ping", "base", pads(BIG) + [N([R("H_X_ROOT")], "/ping")]), ("pong", "base", pads(BIG) + [N([R("H_X_ROOT")], "/pong")])],
        {("ping", "pong"): "prefix-ping-to-pong", ("pong", "ping"): "prefix-pong-to-ping"},
        same_size=["lib", "diag"], lib="big-early")
    fam("handler_big", "the handler of the last route swapped for one with a name of the same length (h_tail_aaaa / h_tail_bbbb): "
        "lib.rs longer than 8 KiB, the difference in its last partial block",
        [("aaaa", "base", pads(BIG) + [R("H_X_AAAA")]), ("bbbb", "base", pads(BIG) + [R("H_X_BBBB")])],
        {("aaaa", "bbbb"): "handler-aaaa-to-bbbb", ("bbbb", "aaaa"): "handler-bbbb-to-aaaa"},
        same_size=["lib", "diag"], lib="big-tail")
    fam("ctor_small", "the constructor of a request-scoped value swapped for one with a name of the same length",
        [("aaaa", "base", [C("C_X_AAAA", RS), R("H_X_VAL")]), ("bbbb", "base", [C("C_X_BBBB", RS), R("H_X_VAL")])],
        {("aaaa", "bbbb"): "ctor-aaaa-to-bbbb", ("bbbb", "aaaa"): "ctor-bbbb-to-aaaa"},
        same_size=["lib", "diag"], lib="small")
    fam("eh_small", "the error handler of a fallible route swapped for one with a name of the same length",
        [("aaaa", "base", [R("H_X_FAIL", eh="EH_X_AAAA")]), ("bbbb", "base", [R("H_X_FAIL", eh="EH_X_BBBB")])],
        {("aaaa", "bbbb"): "eh-aaaa-to-bbbb", ("bbbb", "aaaa"): "eh-bbbb-to-aaaa"},
        same_size=["lib", "diag"], lib="small")
    fam("depver", "version of the local crate 0.1.0 vs 0.2.0 (sources only): generated Cargo.toml of the same size",
        [("v1", "base", [C("C_X_THING", SG), R("H_X_DEP")]), ("v2", "depv2", [C("C_X_THING", SG), R("H_X_DEP")])],
        {("v1", "v2"): "dep-version-0.1-to-0.2", ("v2", "v1"): "dep-version-0.2-to-0.1"},
        same_size=["manifest"], same=["lib", "diag"])
    fam("srcpath", "#[pavex::get(path = \"/ping\")] vs \"/pong\" in the component crate (sources only, same blueprint)",
        [("ping", "base", [R("H_X_SRCP")]), ("pong", "srcpath", [R("H_X_SRCP")])],
        {("ping", "pong"): "path-ping-to-pong", ("pong", "ping"): "path-pong-to-ping"},
        same_size=["lib", "diag"], lib="small")
    fam("fnren_big", "the function of the last route renamed in the component crate (sources only, same blueprint, same id): "
        "lib.rs longer than 8 KiB, the difference in its last partial block",
        [("aaaa", "base", pads(BIG) + [R("H_X_REN")]), ("bbbb", "fnren", pads(BIG) + [R("H_X_REN")])],
        {("aaaa", "bbbb"): "fn-aaaa-to-bbbb", ("bbbb", "aaaa"): "fn-bbbb-to-aaaa"},
        same_size=["lib", "diag"], lib="big-tail")
    fam("modren", "the module of a handler renamed in the component crate (m_aaaa / m_bbbb)",
        [("aaaa", "base", [R("H_X_MOD")]), ("bbbb", "modren", [R("H_X_MOD")])],
        {("aaaa", "bbbb"): "mod-aaaa-to-bbbb", ("bbbb", "aaaa"): "mod-bbbb-to-aaaa"},
        same_size=["lib", "diag"], lib="small")
    fam("idren", "the id of a component renamed in the component crate and in the blueprint (H_X_IDAA / H_X_IDBB): "
        "a control, the generated files do not mention ids",
        [("idaa", "base", [R("H_X_IDAA")]), ("idbb", "idren", [R("H_X_IDBB")])],
        {("idaa", "idbb"): "id-idaa-to-idbb", ("idbb", "idaa"): "id-idbb-to-idaa"})
    fam("routes", "different-length control: one route more / one route less",
        [("one", "base", [R("H_X_PAD0")]), ("two", "base", [R("H_X_PAD0"), R("H_X_PAD1")])],
        {("one", "two"): "add-route", ("two", "one"): "remove-route"}, differ=["lib", "diag"])
    if tier == "thorough":
        fam("prefix3_big", "three siblings (six ordered pairs): prefixes /ping, /pong, /pang next to pad routes",
            [(n, "base", pads(BIG) + [N([R("H_X_ROOT")], f"/{n}")]) for n in ("ping", "pong", "pang")],
            {(a, b): f"prefix-{a}-to-{b}" for a in ("ping", "pong", "pang") for b in ("ping", "pong", "pang") if a != b},
            same_size=["lib", "diag"], lib="big-early")
        fam("dep_big", "drop/add of the dependency next to pad routes (lib.rs above 8 KiB)",
            [("with", "base", pads(BIG) + [C("C_X_THING", SG), R("H_X_DEP")]), ("without", "base", pads(BIG) + [R("H_X_NODEP")])],
            {("with", "without"): "drop-dependency", ("without", "with"): "add-dependency"}, differ=["manifest", "lib"])
        fam("depver_dropped", "the dependency is dropped AND the surviving sibling sits on the other version of the local crate",
            [("with_v1", "base", [C("C_X_THING", SG), R("H_X_DEP")]), ("without_v2", "depv2", [R("H_X_NODEP")])],
            {("with_v1", "without_v2"): "drop-dependency+bump", ("without_v2", "with_v1"): "add-dependency+bump"},
            differ=["manifest", "lib"])
        fam("eh_big", "error handler swap behind pad routes",
            [("aaaa", "base", pads(BIG) + [R("H_X_FAIL", eh="EH_X_AAAA")]), ("bbbb", "base", pads(BIG) + [R("H_X_FAIL", eh="EH_X_BBBB")])],
            {("aaaa", "bbbb"): "eh-aaaa-to-bbbb", ("bbbb", "aaaa"): "eh-bbbb-to-aaaa"}, same_size=["lib", "diag"])
    return fams


def program_id(fam, sib):
    return f"x_{fam}_{sib}"


def programs(tier):
    """{program id: {"id", "family": "c10", "xfamily", "sibling", "src", "bp": {"ops": [...]}}}"""
    out = {}
    for f in families(tier):
        for s in f["siblings"]:
            pid = program_id(f["name"], s["name"])
            out[pid] = {"id": pid, "family": "c10", "xfamily": f["name"], "sibling": s["name"], "src": s["src"],
                        "bp": {"ops": s["ops"]}}
    return out
