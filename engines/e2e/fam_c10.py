"""Family `c10` / property C10: code generation is deterministic, cache-independent and idempotent.

Technique: bounded exhaustive enumeration against the real `pavexc` binary (no sampling).

  programs  : a fixed list of accepted blueprints (program_ops) built from the existing component library so
              that every hash-keyed table named by the property's anchors has >= 3 entries.
  seeds     : every `pavexc` process runs under the LD_PRELOAD getrandom interposer
              (engines/shim/getrandom_shim.c, VERIF_HASH_SEED=<n>) and under `setarch x86_64 -R`, so the
              iteration order of std/ahash tables is an enumerated input: seeds x RAYON_NUM_THREADS.
  histories : every sequence (length <= bound) over the operation alphabet OPS, executed in an *arena*:
              a private HOME holding the rustdoc cache, shared by three projects
                P  (the project under observation),
                Q  (another project, same component crate, same cache),
                X  (= Q' of DESIGN.md: its component crate has the same package name, version and
                    workspace-relative path as P's -- i.e. every cache-key column except the source hash is
                    equal -- but different contents).

  siblings  : the CROSS-PROGRAM dimension (definitions in fam_c10_xprog.py): families of programs that differ by
              exactly one edit (a dependency on a local crate dropped/added; same-length edits of a route path,
              handler, constructor, error handler, module, id, version of the local crate; add/remove a route)
              share ONE project S and one output directory per arena. The operation `switch to sibling` edits
              sources and blueprint in place; for every ordered pair (A, B) of a family the histories
              [gen A, gen B], [gen A, check B], [gen A, gen B, check B], [gen A, gen B, gen A], [gen A, gen B, gen B]
              (thorough: every sequence of length <= 2 over {gen, check, checkdiag} x {A, B}) are executed and every
              step is compared, byte by byte, with fresh(P) = the generation of P into an empty directory.
              Violation keys `c10:xprog:<family>:<edit>:<oracle>`.

The oracle is the property: per program the bytes of Cargo.toml / src/lib.rs / diagnostics are one value
over all runs; a run on unchanged inputs modifies nothing; `--check` exits 0 exactly when a normal run
would change nothing and never creates or modifies a file.
"""
import collections
import concurrent.futures as cf
import fcntl
import hashlib
import itertools
import json
import os
import re
import shutil
import subprocess
import sys
import threading
import time

import families as F
import fam_c10_xprog as XP
import lib_e2e as L

FAM = "c10"
SHIM_SRC = f"{L.VERIF}/engines/shim/getrandom_shim.c"
SHIM_SO = f"{L.WORK}/shim/libgetrandom_shim.so"
ROOT = f"{L.E2E_WORK}/c10"  # arenas are shared by both tiers (they are expensive to warm up)
_NA = os.environ.get("VERIF_C10_ARENAS")  # parallel arenas; each holds a private copy of the cache while a run lasts (~125 MB)
RUN_TIMEOUT_S = 900

OPS = ["gen", "genq", "genx", "wipe", "check", "checkdiag", "editcheck", "rmout"]
OP_DOC = {
    "gen": "pavexc generate P --diagnostics (regenerate when P is already up to date)",
    "genq": "pavexc generate Q: another project, same component crate, same rustdoc cache",
    "genx": "pavexc generate X: component crate with equal name/version/relative path, other contents",
    "wipe": "delete $HOME/.pavex (the whole rustdoc cache: toolchain, third-party and workspace crates)",
    "check": "pavexc generate P --check",
    "checkdiag": "pavexc generate P --check --diagnostics <file>",
    "editcheck": "swap P's blueprint to the other program (P <-> P2), then pavexc generate P --check",
    "rmout": "delete P's generated crate and diagnostics file, restore the pristine workspace manifest",
}
_W = os.environ.get("VERIF_C10_WIPE_ARENAS")  # arenas that keep a warm cargo target dir (~0.9 GB of disk each)
# opt-in: cross-program histories with a COLD cache, [gen A, wipe, gen B] for the families whose siblings differ in their sources
# (needs the arenas that keep a cargo target dir; ~10 s per history). Off by default: see `xwipe` in RULE / the assumptions.
_XW = os.environ.get("VERIF_C10_XWIPE", "1") == "1"  # cold-cache cross-program histories: on (finds the recorded depver finding)
TIERS = {
    "quick": {"seeds": list(range(4)), "threads": [1, 16], "hist_len": 2, "hist_len_nowipe": 2, "wipe_arenas": int(_W or 2), "arenas": int(_NA or 8),
              "budget_s": None, "xhist": "listed", "xbudget_s": None, "xwipe": _XW},
    "thorough": {"seeds": list(range(32)), "threads": [1, 16], "hist_len": 3, "hist_len_nowipe": 4, "wipe_arenas": int(_W or 4), "arenas": int(_NA or 12),
                 "budget_s": float(os.environ.get("VERIF_C10_BUDGET_S", "1000")), "xhist": "bound2",
                 "xbudget_s": float(os.environ.get("VERIF_C10_XBUDGET_S", "420")), "xwipe": _XW},
}
NO_RUN_OPS = ("wipe", "rmout")  # harness actions: no pavexc process
# Perturbations of the files pavexc wrote (harness actions, no pavexc process). Every one of them changes the BYTES of an
# output file and nothing else about the project, so afterwards `--check` must exit 1 and a normal run must restore the
# canonical bytes. The kinds are the edits a checkout, an editor or a formatter makes to a committed generated crate.
PERTURB = {
    "crlf": "src/lib.rs: every LF becomes CRLF (a checkout with core.autocrlf)",
    "nonl": "src/lib.rs: the final newline is removed",
    "cmt": "src/lib.rs: a `//` comment line is appended (token-equivalent Rust)",
    "blank": "src/lib.rs: a blank line is inserted after the first line (token-equivalent Rust)",
    "diagnl": "diagnostics file: the final newline is removed",
    "flip": "src/lib.rs: one ASCII letter inside the last line that has one changes case (same size, last partial block)",
}
# NOT a perturbation: a comment (or any other edit) in the generated Cargo.toml. pavexc reads the existing manifest with
# toml_edit, overwrites `dependencies` and `edition`, and writes the document back: the manifest is a merge target by design, a
# comment survives a regeneration and `--check` rightly exits 0 (first version of this batch raised two false alarms on it).
PT_OPS = [f"pt:{k}" for k in PERTURB]


def is_pt(op):
    return op.startswith("pt:")
FILES = ("manifest", "lib", "diag", "root")
CHECKED_BY_WRITER = ("manifest", "lib", "root")  # the files `--check` compares (AppWriter)


def plugin_sha():
    h = hashlib.sha256()
    for p in (os.path.abspath(__file__), os.path.abspath(XP.__file__), SHIM_SRC):
        with open(p, "rb") as f:
            h.update(f.read())
    return h.hexdigest()[:16]


# --------------------------------------------------------------------------------------------------
# interposer + probe
# --------------------------------------------------------------------------------------------------
def ensure_shim():
    """Compile the interposer on demand (setup.sh does the same)."""
    if not os.path.exists(SHIM_SRC):
        raise L.MachineryError(f"{SHIM_SRC} is missing")
    if os.path.exists(SHIM_SO) and os.stat(SHIM_SO).st_mtime >= os.stat(SHIM_SRC).st_mtime:
        return SHIM_SO
    os.makedirs(os.path.dirname(SHIM_SO), exist_ok=True)
    tmp = f"{SHIM_SO}.{os.getpid()}.tmp"
    r = L.run(["gcc", "-O2", "-shared", "-fPIC", "-o", tmp, SHIM_SRC, "-ldl"])
    if r.returncode != 0:
        sys.stderr.write(r.stdout[-3000:])
        raise L.MachineryError("cannot compile the getrandom interposer")
    os.replace(tmp, SHIM_SO)
    return SHIM_SO


PROBE_TOML = """[package]
name = "hashprobe"
version = "0.1.0"
edition = "2021"

[workspace]

[dependencies]
ahash = "0.8"
"""
PROBE_RS = """use std::collections::HashMap;
fn main() {
    let mut m: HashMap<u32, ()> = HashMap::new();
    let mut a: ahash::HashMap<u32, ()> = Default::default();
    for i in 0..24u32 { m.insert(i, ()); a.insert(i, ()); }
    let s: Vec<String> = m.keys().map(|k| k.to_string()).collect();
    let t: Vec<String> = a.keys().map(|k| k.to_string()).collect();
    println!("std {}", s.join(","));
    println!("ahash {}", t.join(","));
}
"""


def ensure_probe():
    """A tiny binary printing the iteration order of a std HashMap and of an ahash HashMap (same ahash
    version and features as pavexc: resolved through /repo's Cargo.lock)."""
    d = f"{ROOT}/probe"
    os.makedirs(f"{d}/src", exist_ok=True)
    for p, text in ((f"{d}/Cargo.toml", PROBE_TOML), (f"{d}/src/main.rs", PROBE_RS)):
        if not os.path.exists(p) or open(p).read() != text:
            with open(p, "w") as f:
                f.write(text)
    if not os.path.exists(f"{d}/Cargo.lock"):
        shutil.copy(f"{L.REPO}/Cargo.lock", f"{d}/Cargo.lock")
    binp = f"{d}/target/release/hashprobe"
    if not os.path.exists(binp) or os.stat(binp).st_mtime < os.stat(f"{d}/src/main.rs").st_mtime:
        e = L.base_env()
        e.pop("CARGO_TARGET_DIR", None)
        r = L.run(["cargo", "build", "--release", "--offline"], cwd=d, env=e)
        if r.returncode != 0:
            sys.stderr.write(r.stdout[-3000:])
            raise L.MachineryError("cannot build the hash-order probe")
    return binp


def run_probe(binp, seed, no_aslr=True):
    cnt = f"{ROOT}/probe/count"
    try:
        os.remove(cnt)
    except OSError:
        pass
    e = L.base_env()
    e.update({"LD_PRELOAD": SHIM_SO, "VERIF_HASH_SEED": str(seed), "VERIF_SHIM_PROG": "hashprobe",
              "VERIF_SHIM_COUNT_FILE": cnt})
    cmd = (["setarch", "x86_64", "-R"] if no_aslr else []) + [binp]
    r = subprocess.run(cmd, env=e, stdout=subprocess.PIPE, stderr=subprocess.PIPE, text=True, timeout=60)
    if r.returncode != 0:
        raise L.MachineryError(f"hash-order probe failed: {r.stderr[-500:]}")
    calls = 0
    try:
        calls = int(open(cnt).read().split()[0])
    except (OSError, ValueError, IndexError):
        pass
    return r.stdout, calls


# --------------------------------------------------------------------------------------------------
# arenas
# --------------------------------------------------------------------------------------------------
X_EXTRA_ID = "H_C10_XONLY"
X_EXTRA_SRC = '''
// ---- C10: the one component that exists only in project X's copy of `verif_app`
#[pavex::get(path = "/c10/xonly", id = "H_C10_XONLY")]
pub fn h_c10_xonly() -> pavex::Response { rt::call("handler", "H_C10_XONLY", &[]); rt::respond("h", "H_C10_XONLY") }
'''
X_CATALOG_ENTRY = {"id": X_EXTRA_ID, "kind": "handler", "macro": "route", "inputs": [], "fallible": False, "err": None,
                   "path": "/c10/xonly", "methods": ["GET"]}
EXPECTED_WS_FILES = {"Cargo.toml", "Cargo.lock", "metadata.json", "bp.ron", "diag.dot", "holder/Cargo.toml",
                     "holder/src/lib.rs", "sdk/Cargo.toml", "sdk/src/lib.rs"}


def cargo_env():
    e = L.base_env()
    e.pop("CARGO_TARGET_DIR", None)
    # smaller/faster `cargo rustdoc` target dirs (affects only the cargo children of pavexc)
    e["CARGO_PROFILE_DEV_DEBUG"] = "0"
    e["CARGO_INCREMENTAL"] = "0"
    return e


def write_if_changed(path, text):
    old = open(path).read() if os.path.exists(path) else None
    if old != text:
        os.makedirs(os.path.dirname(path), exist_ok=True)
        with open(path, "w") as f:
            f.write(text)
        return True
    return False


def copy_app(dst, extra_src=None):
    changed = False
    for rel in ("Cargo.toml", "src/lib.rs", "src/rt.rs"):
        with open(f"{L.APP}/{rel}") as f:
            text = f.read()
        if rel == "src/lib.rs" and extra_src:
            text += extra_src
        changed |= write_if_changed(f"{dst}/{rel}", text)
    return changed


class Project:
    ROOT_TOML = L.WS_TOML  # the workspace manifest before the first generation
    EXPECTED = EXPECTED_WS_FILES

    def __init__(self, name, ws, app_dir):
        self.name = name
        self.ws = ws
        self.app = app_dir
        self.bp = f"{ws}/bp.ron"
        self.sdk = f"{ws}/sdk"
        self.diag = f"{ws}/diag.dot"
        self.root_manifest = f"{ws}/Cargo.toml"

    def files(self):
        return {"manifest": f"{self.sdk}/Cargo.toml", "lib": f"{self.sdk}/src/lib.rs", "diag": self.diag,
                "root": self.root_manifest}

    def create(self):
        holder = L.HOLDER_TOML.replace(f'verif_app = {{ path = "{L.APP}" }}', f'verif_app = {{ path = "{self.app}" }}')
        if self.app not in holder:
            raise L.MachineryError("lib_e2e.HOLDER_TOML no longer has the expected verif_app line")
        changed = write_if_changed(f"{self.ws}/holder/Cargo.toml", holder)
        lines = ["//! Blueprint holder: gives every (line, column) location used by bpgen a real source line."]
        lines += [f"// line {i}: registration site" for i in range(2, 1500)]
        changed |= write_if_changed(f"{self.ws}/holder/src/lib.rs", "\n".join(lines) + "\n")
        if not os.path.exists(f"{self.ws}/Cargo.lock"):  # cargo prunes it afterwards: only seed it
            shutil.copy(f"{L.REPO}/Cargo.lock", f"{self.ws}/Cargo.lock")
            changed = True
        self.reset_outputs()
        if changed or not os.path.exists(f"{self.ws}/metadata.json"):
            r = L.run(["cargo", "metadata", "--offline", "--format-version", "1"], cwd=self.ws, env=cargo_env())
            meta = [l for l in r.stdout.splitlines() if l.startswith("{")]
            if r.returncode != 0 or not meta:
                sys.stderr.write(r.stdout[-3000:])
                raise L.MachineryError("cargo metadata failed for a c10 project workspace")
            with open(f"{self.ws}/metadata.json", "w") as f:
                f.write(meta[-1])

    def reset_outputs(self):
        """Back to 'never generated': no SDK crate, no diagnostics file, pristine workspace manifest."""
        shutil.rmtree(self.sdk, ignore_errors=True)
        if os.path.exists(self.diag):
            os.remove(self.diag)
        with open(self.root_manifest, "w") as f:
            f.write(self.ROOT_TOML)

    def perturb(self, kind):
        """Edit an output file in place (see PERTURB). Returns the name of the file whose bytes changed, or None."""
        fl = self.files()
        which = {"diagnl": "diag"}.get(kind, "lib")
        path = fl[which]
        try:
            with open(path, "rb") as f:
                data = f.read()
        except OSError:
            return None
        if kind == "crlf":
            new = data.replace(b"\r\n", b"\n").replace(b"\n", b"\r\n")
        elif kind in ("nonl", "diagnl"):
            new = data[:-1] if data.endswith(b"\n") else data
        elif kind == "cmt":
            new = data + (b"" if data.endswith(b"\n") else b"\n") + b"// reviewed\n"
        elif kind == "blank":
            i = data.find(b"\n")
            new = data[:i + 1] + b"\n" + data[i + 1:] if i >= 0 else data
        elif kind == "flip":
            new = data
            for i in range(len(data) - 1, -1, -1):
                c = data[i:i + 1]
                if c.isalpha() and c.isascii():
                    new = data[:i] + c.swapcase() + data[i + 1:]
                    break
        else:
            raise L.MachineryError(f"unknown perturbation {kind}")
        if new == data:
            return None
        with open(path, "wb") as f:
            f.write(new)
        return which

    def snapshot(self):
        """{file: [sha256 | None, mtime_ns | None]} for the four observed files + stray files in the workspace."""
        out = {}
        for k, p in self.files().items():
            try:
                out[k] = [L.sha256_file(p), os.stat(p).st_mtime_ns]
            except OSError:
                out[k] = [None, None]
        stray = []
        for root, dirs, files in os.walk(self.ws):
            if root == self.ws:
                dirs[:] = [d for d in dirs if d != "target"]
            for fn in files:
                rel = os.path.relpath(os.path.join(root, fn), self.ws)
                if rel not in self.EXPECTED:
                    stray.append(rel)
        out["stray"] = sorted(stray)
        return out


class SibProject(Project):
    """The project of the sibling programs (cross-program dimension, fam_c10_xprog.py): one workspace and ONE output
    directory for all of them. `set_variant` edits the sources in place; the cargo metadata handed to pavexc
    (`--precomputed-metadata`) and the lock file of every source variant are computed once, in `create`."""
    def __init__(self, sdir):
        super().__init__("s", f"{sdir}/ws", f"{sdir}/app")
        self.dir = sdir
        self.meta = f"{sdir}/meta"
        self.variant = None

    def write_sources(self, v):
        changed = False
        for rel, text in XP.sources(v, L.REPO).items():
            changed |= write_if_changed(f"{self.dir}/{rel}", text)
        return changed

    def create(self):
        holder = L.HOLDER_TOML.replace(f'verif_app = {{ path = "{L.APP}" }}', f'verif_app = {{ path = "{self.app}" }}')
        if self.app not in holder:
            raise L.MachineryError("lib_e2e.HOLDER_TOML no longer has the expected verif_app line")
        write_if_changed(f"{self.ws}/holder/Cargo.toml", holder)
        lines = ["//! Blueprint holder: gives every (line, column) location used by bpgen a real source line."]
        lines += [f"// line {i}: registration site" for i in range(2, 1500)]
        write_if_changed(f"{self.ws}/holder/src/lib.rs", "\n".join(lines) + "\n")
        self.reset_outputs()
        stamp = hashlib.sha256((XP.sources_digest(L.REPO) + holder + self.ROOT_TOML + L.sha256_file(f"{L.REPO}/Cargo.lock")).encode()).hexdigest()
        os.makedirs(self.meta, exist_ok=True)
        ok = os.path.exists(f"{self.meta}/stamp") and open(f"{self.meta}/stamp").read() == stamp and all(
            os.path.exists(f"{self.meta}/{v}.{ext}") for v in XP.VARIANTS for ext in ("json", "lock"))
        if not ok:
            for v in XP.VARIANTS:
                self.write_sources(v)
                shutil.copy(f"{L.REPO}/Cargo.lock", f"{self.ws}/Cargo.lock")  # cargo prunes it and adds the local crates
                r = L.run(["cargo", "metadata", "--offline", "--format-version", "1"], cwd=self.ws, env=cargo_env())
                meta = [l for l in r.stdout.splitlines() if l.startswith("{")]
                if r.returncode != 0 or not meta:
                    sys.stderr.write(r.stdout[-3000:])
                    raise L.MachineryError(f"cargo metadata failed for the sibling workspace (source variant {v})")
                with open(f"{self.meta}/{v}.json", "w") as f:
                    f.write(meta[-1])
                shutil.copyfile(f"{self.ws}/Cargo.lock", f"{self.meta}/{v}.lock")
            with open(f"{self.meta}/stamp", "w") as f:
                f.write(stamp)
        self.variant = None
        self.set_variant("base")

    def set_variant(self, v):
        """`edit the sources`: rewrite the files that differ, hand pavexc the matching cargo metadata."""
        if self.variant == v:
            return
        self.write_sources(v)
        shutil.copyfile(f"{self.meta}/{v}.json", f"{self.ws}/metadata.json")
        shutil.copyfile(f"{self.meta}/{v}.lock", f"{self.ws}/Cargo.lock")
        self.variant = v

    def read_files(self):
        out = {}
        for k, p in self.files().items():
            try:
                with open(p, "rb") as f:
                    out[k] = f.read()
            except OSError:
                out[k] = None
        return out


class Arena:
    """arena<k>/s              the project of the sibling programs (SibProject): s/app, s/dep, s/ws (cross-program histories)
       arena<k>/home           HOME ($HOME/.pavex/rustdoc/cache/*.db); exists only while a run lasts
       arena<k>/p/app          P's and Q's component crate `verif_app 0.1.0`
       arena<k>/p/ws, p/wsq    workspaces of P and Q (both see the crate as `../app`)
       arena<k>/x/app          X's component crate: also `verif_app 0.1.0`, one extra annotated component
       arena<k>/x/ws           workspace of X (sees its crate as `../app` too)
       arena<k>/target         the cargo target dir of the three workspaces (arena<k>/.cargo/config.toml); it is only
                               used when pavexc misses the cache and runs `cargo rustdoc`, and only kept for the arenas
                               that execute `wipe`. cargo names the JSON docs after the crate, so P's and X's
                               `verif_app.json` collide in a shared target dir: the harness deletes that file whenever
                               the project that wrote it last is not the one about to run (Arena.guard_doc_json)."""

    def __init__(self, k):
        self.k = k
        self.dir = f"{ROOT}/arena{k}"
        self.home = f"{self.dir}/home"
        self.p = Project("p", f"{self.dir}/p/ws", f"{self.dir}/p/app")
        self.q = Project("q", f"{self.dir}/p/wsq", f"{self.dir}/p/app")
        self.x = Project("x", f"{self.dir}/x/ws", f"{self.dir}/x/app")
        self.s = SibProject(f"{self.dir}/s")
        self.count_file = f"{self.dir}/shim_count"
        self.target = f"{self.dir}/target"
        self.doc_owner = None  # app dir whose docs are in target/doc/verif_app.json, when known

    def create(self):
        os.makedirs(self.home, exist_ok=True)
        copy_app(self.p.app)
        copy_app(self.x.app, X_EXTRA_SRC)
        write_if_changed(f"{self.dir}/.cargo/config.toml", '[build]\ntarget-dir = "target"\n')
        for pr in (self.p, self.q, self.x, self.s):
            pr.create()

    def project(self, name):
        return {"p": self.p, "q": self.q, "x": self.x, "s": self.s}[name]

    def has_target(self):
        return os.path.isdir(f"{self.target}/debug/deps")

    def copy_target_from(self, other):
        shutil.rmtree(self.target, ignore_errors=True)
        r = L.run(["cp", "-a", other.target, self.target])
        if r.returncode != 0:
            raise L.MachineryError(f"cannot copy cargo target dir {other.target} -> {self.target}: {r.stdout[-300:]}")
        self.doc_owner = None

    def drop_target(self):
        shutil.rmtree(self.target, ignore_errors=True)
        self.doc_owner = None

    def drop_home(self):
        shutil.rmtree(self.home, ignore_errors=True)

    def guard_doc_json(self, proj):
        """Called before every pavexc run (see the class comment)."""
        if self.doc_owner != proj.app:
            try:
                os.remove(f"{self.target}/doc/verif_app.json")
            except OSError:
                pass
            self.doc_owner = None

    def note_documented(self, proj, stderr):
        if "Documented verif_app" in stderr:
            self.doc_owner = proj.app

    def wipe_cache(self):
        shutil.rmtree(f"{self.home}/.pavex", ignore_errors=True)

    def restore_cache(self, snap_home):
        self.wipe_cache()
        os.makedirs(self.home, exist_ok=True)
        if os.path.isdir(f"{snap_home}/.pavex"):
            shutil.copytree(f"{snap_home}/.pavex", f"{self.home}/.pavex")

    def reset_projects(self):
        for pr in (self.p, self.q, self.x, self.s):
            pr.reset_outputs()


# --------------------------------------------------------------------------------------------------
# one pavexc process
# --------------------------------------------------------------------------------------------------
ANSI = re.compile(r"\x1b\[[0-9;]*m")
COUNTERS = collections.Counter()
COUNTERS_LOCK = threading.Lock()


def count(key, n=1):
    with COUNTERS_LOCK:
        COUNTERS[key] += n


def run_pavexc(arena, proj, seed, threads, check=False, diagnostics=True, log=False, timeout=RUN_TIMEOUT_S):
    """Run `pavexc generate` for `proj` with its current bp.ron, under the interposer and without ASLR."""
    cmd = ["setarch", "x86_64", "-R"] + L.pavexc_cmd(proj.ws, proj.bp, proj.sdk, check=check,
                                                       diagnostics=proj.diag if diagnostics else None)
    try:
        os.remove(arena.count_file)
    except OSError:
        pass
    e = cargo_env()
    e.update(L.pavexc_env({"HOME": arena.home, "LD_PRELOAD": SHIM_SO, "VERIF_HASH_SEED": str(seed),
                           "VERIF_SHIM_PROG": "pavexc", "VERIF_SHIM_COUNT_FILE": arena.count_file,
                           "RAYON_NUM_THREADS": str(threads)}))
    e.pop("CARGO_TARGET_DIR", None)
    if log:
        e["PAVEXC_LOG"] = "true"
        e["PAVEXC_LOG_FILTER"] = "info,pavexc=trace,rustdoc_processor=trace,persist_if_changed=trace"
    os.makedirs(arena.home, exist_ok=True)
    arena.guard_doc_json(proj)
    t0 = time.time()
    try:
        r = subprocess.run(cmd, cwd=proj.ws, env=e, stdout=subprocess.PIPE, stderr=subprocess.PIPE, text=True,
                           timeout=timeout)
        code, out, err, timed_out = r.returncode, r.stdout, r.stderr, False
    except subprocess.TimeoutExpired as ex:
        err = ex.stderr.decode("utf8", "replace") if isinstance(ex.stderr, bytes) else (ex.stderr or "")
        code, out, timed_out = None, "", True
    wall = time.time() - t0
    arena.note_documented(proj, err)
    calls, nbytes = 0, 0
    try:
        with open(arena.count_file) as f:
            a, b = f.read().split()
            calls, nbytes = int(a), int(b)
    except (OSError, ValueError):
        pass
    count("pavexc_runs")
    count("shim_calls", calls)
    count("shim_bytes", nbytes)
    if calls == 0:
        count("runs_without_interposer_call")
    return {"exit": code, "timed_out": timed_out, "wall_s": round(wall, 3), "stderr": err, "stdout": out,
            "shim_calls": calls, "seed": seed, "threads": threads, "n_documented": err.count("Documented ")}


def norm_log(text):
    """Log output modulo timestamps / durations."""
    text = ANSI.sub("", text)
    text = re.sub(r"(?m)^\s*\d+\.\d+s\s+", "", text)
    text = re.sub(r"\b\d+(\.\d+)?(ns|µs|us|ms|s)\b", "<t>", text)
    return text


# --------------------------------------------------------------------------------------------------
# programs
# --------------------------------------------------------------------------------------------------
def _ctor(t, flav, inputs, lc, cin=False, var="S", eh=None):
    op = {"k": "ctor", "c": f"C_T{t}{flav}__{inputs}__{var}", "lc": lc}
    if cin:
        op["cl"] = "clone_if_necessary"
    if eh:
        op["eh"] = eh
    return op


def _mw(kind, idx, i0="0", i1="0", fallible=False, eh=None):
    op = {"k": kind, "c": F.mw_id(kind, idx, fallible, i0, i1)}
    if eh:
        op["eh"] = eh
    return op


def _route(cid, eh=None):
    op = {"k": "route", "c": cid}
    if eh:
        op["eh"] = eh
    return op


def _nest(ops, prefix=None, domain=None):
    op = {"k": "nest", "bp": {"ops": ops}}
    if prefix:
        op["prefix"] = prefix
    if domain:
        op["domain"] = domain
    return op


RS, TR, SG = "request_scoped", "transient", "singleton"


def prog_clones():
    """Several clone-if-necessary types taken *by value* by pre, wrap, post and handler of one stage
    (type2info / type2cloning_indexes of pipeline.rs step 4 get 2-3 entries per stage), three pipelines."""
    def bp(pre, wrap, post, h):
        return [_ctor(0, "K", "0", RS, cin=True), _ctor(1, "K", "0", RS, cin=True), _ctor(2, "K", "0_0", RS, cin=True),
                _mw("pre", pre, "KV", "KV"), _mw("wrap", wrap, "KV", "KV"), _mw("post", post, "KV", "KV"),
                _mw("pre", pre % 3 + 1, "KV", "KV"),
                _route("H0__KV_KV_KV__I")]
    return [_nest(bp(1, 1, 1, 0), prefix="/c1"), _nest(bp(2, 2, 2, 0), prefix="/c2"), _nest(bp(3, 3, 3, 0), prefix="/c3"),
            _nest([_ctor(0, "K", "0", SG, cin=True), _ctor(1, "K", "KR", RS, cin=True),
                   _mw("pre", 1, "KV", "KV"), _mw("wrap", 1, "KV", "KV"), _mw("wrap", 2, "KV", "KV"), _mw("post", 1, "KV", "KV"),
                   _route("H0__KV_KV_0__I")], prefix="/c4")]


def prog_shared():
    """Several request-scoped values shared by more than one middleware of a pipeline with two wrapping
    stages (request_scoped2built_at_stage_index / prebuilt_ids / Next state of pipeline.rs steps 2-3)."""
    def bp(h):
        return [_ctor(0, "P", "0", RS), _ctor(0, "K", "0", RS, cin=True), _ctor(0, "Y", "0", RS),
                _ctor(1, "P", "PR", RS), _ctor(1, "K", "KR", RS, cin=True), _ctor(2, "P", "PR_PR", RS),
                _mw("pre", 1, "PR", "PR"), _mw("pre", 2, "KR", "KV"), _mw("pre", 3, "YV", "PR"),
                _mw("wrap", 1, "PR", "PR"), _mw("post", 1, "KR", "KV"),
                _mw("wrap", 2, "KR", "KV"), _mw("post", 2, "PR", "PR"), _mw("post", 3, "YV", "0"),
                _mw("wrap", 3, "YV", "PR"),
                _route(h)]
    return [_nest(bp("H0__PR_PR_PR__I"), prefix="/s1"), _nest(bp("H0__KR_KV_PR__I"), prefix="/s2"),
            _nest(bp("H0__YV_PR_PV__I"), prefix="/s3")]


def prog_singletons():
    """Several singletons (ApplicationState fields, assign_field_names, application_state call graph), also
    built from one another, consumed by reference from handlers and middlewares of several routes."""
    return [_ctor(0, "P", "0", SG), _ctor(1, "P", "PR", SG), _ctor(2, "P", "PR_PR", SG),
            _ctor(0, "K", "0", SG, cin=True), _ctor(1, "K", "KR", SG, cin=True), _ctor(0, "Y", "0", SG),
            {"k": "prebuilt", "c": "PB_K", "cl": "clone_if_necessary"}, {"k": "prebuilt", "c": "PB_P"},
            _mw("pre", 1, "PR", "PR"), _mw("wrap", 1, "KR", "KV"), _mw("post", 1, "YV", "0"),
            _route("H0__PR_PR_PR__I"), _route("H1__KR_0_0__I"), _route("H2__0_KV_0__I"),
            _nest([_route("H0_PBK_R")], prefix="/pbk"), _nest([_route("H0_PBP_R")], prefix="/pbp"),
            _nest([_mw("pre", 2, "KV", "KV"), _mw("wrap", 2, "PR", "PR"), _route("H0__YV_KV_PR__I"), _route("H1__PR_PR_0__I")],
                  prefix="/n1")]


def prog_errors():
    """Several error types, error handlers (blueprint-level, attached, fallback) and observers."""
    def ehs(idx):
        return [{"k": "eh", "c": f"EH_{e}_{idx}__0"} for e in ("ERRC", "ERRH", "ERRPRE", "ERRPOST", "ERRW")]
    obs = [{"k": "observer", "c": f"OBS{j}__0"} for j in (1, 2, 3)]
    a = ehs(1) + obs + [_ctor(0, "P", "0", RS, var="F"), _mw("pre", 1, "PR", "0", True), _mw("wrap", 1, "PR", "0", True),
                        _mw("post", 1, "PR", "0", True), _route("H0__PR_0_0__F")]
    b = [{"k": "eh", "c": "EH_PAVEXERROR_1__0"}, obs[1], obs[0],
         _ctor(0, "P", "0", RS, var="F", eh="EH_ERRC_2__0"), _mw("pre", 2, "PR", "0", True, eh="EH_ERRPRE_2__0"),
         _mw("wrap", 2, "PR", "0", True, eh="EH_ERRW_2__0"), _mw("post", 2, "PR", "0", True, eh="EH_ERRPOST_2__0"),
         _route("H0__PR_0_0__F", eh="EH_ERRH_2__0")]
    c = [{"k": "eh", "c": "EH_PAVEXERROR_2__0"}, obs[2],
         _ctor(0, "K", "0", RS, cin=True, var="F"), _ctor(1, "P", "KR", RS, var="F"),
         _mw("pre", 3, "KR", "PR", True), _mw("post", 3, "KR", "PR", True), _route("H0__KR_PR_0__F"), _route("H1__KR_0_0__F")]
    return [_nest(a, prefix="/e1"), _nest(b, prefix="/e2"), _nest(c, prefix="/e3")]


def prog_routes():
    """Many routes, nested blueprints with prefixes, three domain guards, five fallbacks."""
    d1 = [_route("RT_ROOT_GET"), _route("RT_A_GP"), _route("RT_AB_ANY"), _route("RT_AX_POST"), {"k": "fallback", "c": "FB1__AM_0"},
          _nest([_route("RT_ROOT_POST"), _route("RT_X_GET"), _route("RT_XB_GP"), {"k": "fallback", "c": "FB2__NA_0"}], prefix="/v1"),
          _nest([_route("RT_AR_GET"), _route("RT_B_FOO")], prefix="/v2"), _nest([_route("RT_AXC_GET"), _route("RT_AB_POST")], prefix="/v3")]
    d2 = [_route("RT_ROOT_ANY"), _route("RT_A_GET"), _route("RT_AY_GET"), _route("RT_B_GP"),
          _nest([_route("RT_A_POST"), _route("RT_AB_GET"), {"k": "fallback", "c": "FB3__AM_0"}], prefix="/w")]
    d3 = [_route("RT_X_ANYNS"), _route("RT_A_FOO"), {"k": "fallback", "c": "FB2__AM_0"}]
    return [_nest(d1, domain="a.example.com"), _nest(d2, domain="{sub}.example.org"), _nest(d3, domain="{*any}.example.net"),
            {"k": "fallback", "c": "FB3__NA_0"}]


def prog_state_errors():
    """Fallible singletons in different modules whose constructors are all called `build` (components of
    gen_app_extra_c10.py): their `ApplicationStateError` variants collide on the base name and are numbered
    first-come (`Build`, `Build2`, `Build3`) by the loop over error_type2err_match_ids in
    analyses/call_graph/application_state.rs, next to a non-colliding one (`C10Connect`)."""
    return [{"k": "ctor", "c": "C10_DB_BUILD", "lc": SG}, {"k": "ctor", "c": "C10_HTTP_CLIENT_BUILD", "lc": SG},
            {"k": "ctor", "c": "C10_QUEUE_BUILD", "lc": SG}, {"k": "ctor", "c": "C10_CONNECT", "lc": SG},
            _route("H_C10_STATE"),
            _nest([_route("H_C10_STATE_0"), _route("H_C10_STATE_1"), _route("H_C10_STATE_2")], prefix="/n")]


def _pack(fam, shapes, idxs, base=0):
    return [_nest(shapes[i], prefix=f"/{fam}{base + j}") for j, i in enumerate(idxs)]


def _must_accept(fam, shapes):
    """Members of the rule-abiding class of the reference model (refmodel.classify_spec, the C02 class)."""
    import refmodel as M
    out = []
    for i, sh in enumerate(shapes):
        try:
            verdict, _why = M.classify_spec(M.Analysis(F.single_spec(fam, i, sh)))
        except Exception:  # noqa: BLE001 - a shape the model cannot analyse is simply not used
            continue
        if verdict == "must_accept":
            out.append(sh)
    return out


def _kv_count(shape):
    return sum(op.get("c", "").split("__")[1].count("KV") for op in shape[1:] if "__" in op.get("c", ""))


def _spread(seq, n, start=0):
    seq = list(seq)
    if not seq:
        return []
    step = max(1, (len(seq) - start) // n)
    return seq[start::step][:n]


def program_ops(tier):
    dimw_all = _must_accept("dimw", F.dimw_shapes("quick"))
    # K + clone-if-necessary request-scoped value taken by value by >= 3 of {pre, wrap, post, handler}
    dimw = [s for s in dimw_all if s[0]["c"].startswith("C_T0K") and s[0].get("cl") and s[0]["lc"] == RS and _kv_count(s) >= 3]
    dimw_ns = [s for s in dimw_all if not F.has_singleton(s)]
    err = _must_accept("err", F.err_shapes("quick"))
    mw = _must_accept("mw", F.mw_shapes("quick"))
    di = [s for s in _must_accept("di", F.di_shapes("quick")) if not F.has_singleton(s) and len(s) >= 3]
    n = lambda seq: range(len(seq))  # noqa: E731
    progs = [
        ("clones", prog_clones()),
        ("shared", prog_shared()),
        ("singletons", prog_singletons()),
        ("errors", prog_errors()),
        ("routes", prog_routes()),
        ("state_errors", prog_state_errors()),
        ("pk_dimw", _pack("m", dimw, _spread(n(dimw), 10))),
        ("pk_err", _pack("e", err, _spread(reversed(n(err)), 10))),
        ("pk_mix", _pack("w", mw, _spread(reversed(n(mw)), 5)) + _pack("d", di, _spread(reversed(n(di)), 5))
         + [{"k": "fallback", "c": "FB1__NA_0"}]),
    ]
    if tier == "thorough":
        progs += [
            ("pk_dimw2", _pack("m", dimw_ns, _spread(n(dimw_ns), 12, 3))),
            ("pk_err2", _pack("e", err, _spread(n(err), 12, 5))),
            ("pk_all", prog_clones()[:3] + prog_shared() + prog_errors()[:2]),
            ("pk_di", _pack("d", di, _spread(n(di), 12, 7)) + prog_clones()[:2]),
        ]
    return progs


_PROGRAMS = {}


def programs(tier):
    if tier not in _PROGRAMS:
        _PROGRAMS[tier] = json.dumps([{"id": f"c10_{name}", "family": FAM, "bp": {"ops": ops}, "requests": []}
                                      for name, ops in program_ops(tier)])
    return json.loads(_PROGRAMS[tier])


# --------------------------------------------------------------------------------------------------
# blueprints on disk
# --------------------------------------------------------------------------------------------------
X_PROGRAM_ID = "c10_x"
SNAP = f"{ROOT}/snap"


def x_program():
    ops = prog_clones()[:1] + [_nest([_route(X_EXTRA_ID), _route("RT_A_GET")], prefix="/x")]
    return {"id": X_PROGRAM_ID, "family": FAM, "bp": {"ops": ops}, "requests": []}


def all_programs():
    d = {s["id"]: s for s in programs("thorough")}
    d[X_PROGRAM_ID] = x_program()
    return d


def write_bps():
    """RON for every program of both tiers and X's, using a catalog that also knows X's extra component."""
    with open(f"{L.APP}/catalog.json") as f:
        catalog = json.load(f)
    with open(f"{ROOT}/catalog_x.json", "w") as f:
        json.dump(catalog + [X_CATALOG_ENTRY], f)
    with open(f"{ROOT}/specs.jsonl", "w") as f:
        for s in all_programs().values():
            f.write(json.dumps({"id": s["id"], "bp": s["bp"]}) + "\n")
    shutil.rmtree(f"{ROOT}/bps", ignore_errors=True)
    r = L.run([L.BPGEN, f"{ROOT}/catalog_x.json", f"{ROOT}/specs.jsonl", f"{ROOT}/bps"])
    if r.returncode != 0:
        sys.stderr.write(r.stdout[-4000:])
        raise L.MachineryError("bpgen failed on the C10 programs")


def set_bp(proj, pid):
    shutil.copyfile(f"{ROOT}/bps/{pid}.ron", proj.bp)


# --------------------------------------------------------------------------------------------------
# cross-program dimension: sibling programs (definitions in fam_c10_xprog.py)
# --------------------------------------------------------------------------------------------------
XROOT = f"{ROOT}/xprog"
BLOCK = 8192  # the block size of persist_if_changed's comparison: placements are measured against it
REPLAY_STUB_SPEC = {"id": "c10_xprog_stub", "family": FAM, "bp": {"ops": [{"k": "route", "c": "RT_ROOT_GET"}]}, "requests": []}


def is_xprog(pid):
    return pid.startswith("x_")


def write_xbps(progs):
    """RON of sibling programs (catalog of the small component crate)."""
    os.makedirs(XROOT, exist_ok=True)
    with open(f"{XROOT}/catalog.json", "w") as f:
        json.dump(XP.catalog(), f)
    with open(f"{XROOT}/specs.jsonl", "w") as f:
        for pr in progs:
            f.write(json.dumps({"id": pr["id"], "bp": pr["bp"]}) + "\n")
    r = L.run([L.BPGEN, f"{XROOT}/catalog.json", f"{XROOT}/specs.jsonl", f"{XROOT}/bps"])
    if r.returncode != 0:
        sys.stderr.write(r.stdout[-4000:])
        raise L.MachineryError("bpgen failed on the C10 sibling programs")


def switch_to(proj, prog):
    """The history operation `switch to a sibling program`: edit sources and blueprint, leave the outputs alone."""
    proj.set_variant(prog["src"])
    shutil.copyfile(f"{XROOT}/bps/{prog['id']}.ron", proj.bp)


def fresh_bytes(pid):
    out = {}
    for f in FILES:
        try:
            with open(f"{XROOT}/fresh/{pid}/{f}", "rb") as fh:
                out[f] = fh.read()
        except OSError:
            out[f] = None
    return out


def first_last_diff(a, b):
    """(first, last) differing byte offsets of two byte strings (None when equal); a missing file differs at 0."""
    if a == b:
        return None
    if a is None or b is None:
        return (0, max(len(a or b"") - 1, 0))
    n = min(len(a), len(b))
    first = next((i for i in range(n) if a[i] != b[i]), n)
    if len(a) != len(b):
        return (first, max(len(a), len(b)) - 1)
    last = next(i for i in range(n - 1, -1, -1) if a[i] != b[i])
    return (first, last)


def diff_against_fresh(proj, pid):
    """{file: {offset, last, got_len, want_len}} for the observed files that differ from a fresh generation of pid."""
    want, got, out = fresh_bytes(pid), proj.read_files(), {}
    for f in FILES:
        d = first_last_diff(got[f], want[f])
        if d:
            out[f] = {"offset": d[0], "last": d[1], "got_len": None if got[f] is None else len(got[f]),
                      "want_len": None if want[f] is None else len(want[f])}
    return out


def xprog_baseline(a0, seed, progs):
    """fresh(P) for every sibling program: generated into an EMPTY output directory in arena 0 (with a cargo target
    dir: new source variants are documented here and end up in the warm-cache snapshot). Bytes are kept under
    XROOT/fresh/<program>/ (equal in every arena: all paths in the outputs are relative). -> {pid: {file: sha}}"""
    canon = {}
    proj = a0.s
    for pr in sorted(progs, key=lambda q: (q["src"], q["id"])):
        switch_to(proj, pr)
        proj.reset_outputs()
        o = run_pavexc(a0, proj, seed, 1)
        if o["exit"] != 0:
            sys.stderr.write(ANSI.sub("", o["stderr"])[-3000:])
            raise L.MachineryError(f"C10 sibling program {pr['id']} is not accepted by pavexc (exit {o['exit']})")
        snap = proj.snapshot()
        if snap["stray"]:
            raise L.MachineryError(f"C10 sibling program {pr['id']}: a fresh generation leaves unexpected files {snap['stray']}")
        canon[pr["id"]] = {f: snap[f][0] for f in FILES}
        d = f"{XROOT}/fresh/{pr['id']}"
        shutil.rmtree(d, ignore_errors=True)
        os.makedirs(d)
        for f, data in proj.read_files().items():
            if data is None:
                raise L.MachineryError(f"C10 sibling program {pr['id']}: a fresh generation did not write {f}")
            with open(f"{d}/{f}", "wb") as fh:
                fh.write(data)
    proj.reset_outputs()
    return canon


def xprog_measure(tier):
    """Sizes of the fresh outputs of every sibling and, per unordered pair, where they differ; the placements a family
    was designed for (fam_c10_xprog `expect`) are demanded here, so that the evidence never claims a tail-block /
    early-block / sub-block case that the generated code no longer provides."""
    out = {}
    for fam in XP.families(tier):
        sibs = [s["name"] for s in fam["siblings"]]
        sizes = {n: {f: len(fresh_bytes(XP.program_id(fam["name"], n))[f]) for f in FILES} for n in sibs}
        pairs = {}
        for a, b in itertools.combinations(sibs, 2):
            fa, fb = fresh_bytes(XP.program_id(fam["name"], a)), fresh_bytes(XP.program_id(fam["name"], b))
            row = {}
            for f in FILES:
                d = first_last_diff(fa[f], fb[f])
                if d is None:
                    row[f] = "identical"
                    continue
                same_size = len(fa[f]) == len(fb[f])
                n = len(fa[f])
                row[f] = {"same_size": same_size, "first_diff": d[0], "last_diff": d[1]}
                if same_size:
                    tail_start = (n // BLOCK) * BLOCK
                    row[f]["tail_block_starts_at"] = tail_start
                    row[f]["placement"] = ("sub-block-file" if n < BLOCK else "confined-to-last-partial-block" if d[0] >= tail_start
                                           else "in-a-full-block" if d[1] < tail_start else "full-and-partial-blocks")
            pairs[f"{a}|{b}"] = row
            ex = fam["expect"]
            bad = []
            for f in ex.get("same_size", []):
                if not (isinstance(row[f], dict) and row[f]["same_size"]):
                    bad.append(f"{f} should differ at equal size, measured {row[f]}")
            for f in ex.get("same", []):
                if row[f] != "identical":
                    bad.append(f"{f} should be identical, measured {row[f]}")
            for f in ex.get("differ", []):
                if row[f] == "identical":
                    bad.append(f"{f} should differ")
            want = ex.get("lib")
            if want and isinstance(row["lib"], dict):
                got = row["lib"].get("placement")
                need = {"small": "sub-block-file", "big-early": "in-a-full-block", "big-tail": "confined-to-last-partial-block"}[want]
                if got != need:
                    bad.append(f"lib.rs difference should be `{need}`, measured `{got}` (sizes {sizes[a]['lib']}, first diff {row['lib']['first_diff']})")
            if bad:
                raise L.MachineryError(f"C10 sibling family {fam['name']} ({a}|{b}) lost its designed placement: {'; '.join(bad)}")
        out[fam["name"]] = {"doc": fam["doc"], "sizes": sizes, "pairs": pairs}
    return out


# --------------------------------------------------------------------------------------------------
# preparation: arenas, canonical outputs, warm-cache snapshot, ownership self-test
# --------------------------------------------------------------------------------------------------
def prepare(tier):
    ensure_shim()
    os.makedirs(ROOT, exist_ok=True)
    write_bps()
    shutil.rmtree(f"{XROOT}/bps", ignore_errors=True)
    write_xbps(list(XP.programs("thorough").values()))
    arenas = [Arena(k) for k in range(TIERS[tier]["arenas"])]
    t0 = time.time()
    with cf.ThreadPoolExecutor(max_workers=8) as ex:
        list(ex.map(lambda a: a.create(), arenas))
    L.log(f"c10: {len(arenas)} arenas ready in {time.time() - t0:.1f}s")
    return arenas


def snapshot_stamp(specs):
    h = hashlib.sha256()
    h.update(L.tree_hash().encode())
    for rel in ("Cargo.toml", "src/lib.rs", "src/rt.rs"):
        h.update(L.sha256_file(f"{L.APP}/{rel}").encode())
    h.update(X_EXTRA_SRC.encode())
    h.update(json.dumps([s["bp"] for s in specs], sort_keys=True).encode())
    return h.hexdigest()


def baseline(arenas, tier):
    """Generate every program once in arena 0 (seed 0, one rayon thread, fresh output directory): these are
    the canonical digests every other run is compared with, and the resulting cache is the warm snapshot
    every history starts from. Returns (canon, notes)."""
    cfg = TIERS[tier]
    specs = programs(tier)
    a0 = arenas[0]
    notes = {"baseline_cache_dependent_failures": []}
    stamp = snapshot_stamp(list(all_programs().values()))
    valid = os.path.exists(f"{SNAP}/stamp") and open(f"{SNAP}/stamp").read() == stamp
    if valid:
        a0.restore_cache(SNAP)
    else:
        a0.wipe_cache()
    notes["snapshot_reused"] = valid
    a0.reset_projects()
    canon = {}
    t0 = time.time()
    # Everything in the snapshot must have been produced by the code under test: programs of *both* tiers are
    # generated so that the snapshot is complete whichever tier runs next.
    todo = list(all_programs().values()) if not valid else specs + [x_program()]
    todo = [s for s in todo if s["id"] != X_PROGRAM_ID] + [x_program()]
    for s in todo:
        proj = a0.x if s["id"] == X_PROGRAM_ID else a0.p
        set_bp(proj, s["id"])
        proj.reset_outputs()
        o = run_pavexc(a0, proj, cfg["seeds"][0], 1)
        if o["exit"] != 0:
            # accepted only with a cold cache? then the verdict depends on the cache (reported by the oracle)
            first_err = ANSI.sub("", o["stderr"])[-1500:]
            a0.wipe_cache()
            proj.reset_outputs()
            o = run_pavexc(a0, proj, cfg["seeds"][0], 1)
            if o["exit"] != 0:
                sys.stderr.write(ANSI.sub("", o["stderr"])[-3000:])
                raise L.MachineryError(f"C10 program {s['id']} is not accepted by pavexc (exit {o['exit']}): the fixed "
                                       "program set must consist of accepted blueprints")
            notes["baseline_cache_dependent_failures"].append({"program": s["id"], "stderr": first_err})
        snap = proj.snapshot()
        canon[s["id"]] = {f: snap[f][0] for f in FILES}
        if snap["stray"]:
            notes.setdefault("baseline_stray", []).append(snap["stray"])
    # Q: same program, other workspace -> same bytes
    set_bp(a0.q, specs[0]["id"])
    a0.q.reset_outputs()
    o = run_pavexc(a0, a0.q, cfg["seeds"][0], 1)
    qs = a0.q.snapshot()
    notes["q_equals_p"] = o["exit"] == 0 and all(qs[f][0] == canon[specs[0]["id"]][f] for f in FILES)
    libs = collections.Counter(canon[s["id"]]["lib"] for s in specs)
    if len(libs) != len(specs):
        raise L.MachineryError("two C10 programs have the same lib.rs: the edit-then-check operation would be vacuous")
    # sibling programs (cross-program dimension): fresh outputs + their source variants' docs into the snapshot
    t1 = time.time()
    xprogs = XP.programs("thorough" if not valid else tier)
    canon.update(xprog_baseline(a0, cfg["seeds"][0], list(xprogs.values())))
    notes["xprog_measure"] = xprog_measure(tier)
    notes["xprog_baseline_wall_s"] = round(time.time() - t1, 1)
    shutil.rmtree(SNAP, ignore_errors=True)
    os.makedirs(SNAP)
    shutil.copytree(f"{a0.home}/.pavex", f"{SNAP}/.pavex")
    with open(f"{SNAP}/stamp", "w") as f:
        f.write(stamp)
    notes["baseline_wall_s"] = round(time.time() - t0, 1)
    # cargo target dirs for the arenas that execute `wipe` (a cold cache re-runs `cargo rustdoc`)
    t0 = time.time()
    need = [a for a in arenas[1:cfg["wipe_arenas"]] if not a.has_target()]
    if need and a0.has_target():
        with cf.ThreadPoolExecutor(max_workers=4) as ex:
            list(ex.map(lambda a: a.copy_target_from(a0), need))
    for a in arenas[cfg["wipe_arenas"]:]:
        a.drop_target()  # never needed there: every history starts from the warm snapshot and never wipes
    notes["target_dirs_copied"] = len(need)
    notes["target_copy_wall_s"] = round(time.time() - t0, 1)
    return canon, notes


def selftest(arenas, tier):
    """Ownership of the seed dimension (machinery error when it fails)."""
    cfg = TIERS[tier]
    specs = programs(tier)
    a0 = arenas[0]
    st = {}
    outs, calls = [], []
    for _rep in range(2):
        a0.restore_cache(SNAP)
        a0.reset_projects()
        set_bp(a0.p, specs[1]["id"])
        o = run_pavexc(a0, a0.p, 1, 1, log=True)
        snap = a0.p.snapshot()
        outs.append({"exit": o["exit"], "stderr": norm_log(o["stderr"]), "stdout": norm_log(o["stdout"]),
                     "files": {f: snap[f][0] for f in FILES}})
        calls.append(o["shim_calls"])
    if outs[0]["exit"] != 0:
        raise L.MachineryError("self-test run failed")
    if outs[0]["files"] != outs[1]["files"]:
        # not a harness fault: the generated bytes differ between two runs with equal controlled inputs (reported by the oracle)
        st["same_seed_files_differ"] = {"program": specs[1]["id"], "seed": 1, "threads": 1, "first": outs[0]["files"],
                                        "second": outs[1]["files"]}
    elif outs[0] != outs[1]:
        diff = [k for k in outs[0] if outs[0][k] != outs[1][k]]
        raise L.MachineryError(f"ownership self-test: same seed, one rayon thread, same cache, yet two runs differ in {diff}")
    if min(calls) <= 0:
        raise L.MachineryError("ownership self-test: pavexc never called the getrandom interposer")
    st["same_seed_identical_log_bytes"] = len(outs[0]["stderr"]) + len(outs[0]["stdout"])
    st["pavexc_interposer_calls_per_run"] = calls
    binp = ensure_probe()
    orders = {}
    for seed in cfg["seeds"]:
        out, probe_calls = run_probe(binp, seed)
        if probe_calls <= 0:
            raise L.MachineryError("ownership self-test: the probe never called the interposer")
        orders[seed] = out
    again, _ = run_probe(binp, cfg["seeds"][0])
    if again != orders[cfg["seeds"][0]]:
        raise L.MachineryError("ownership self-test: probe iteration order is not a function of the seed")
    std_orders = {o.splitlines()[0] for o in orders.values()}
    ah_orders = {o.splitlines()[1] for o in orders.values()}
    if len(std_orders) != len(cfg["seeds"]) or len(ah_orders) != len(cfg["seeds"]):
        raise L.MachineryError(f"ownership self-test: {len(cfg['seeds'])} seeds give only {len(std_orders)} std / "
                               f"{len(ah_orders)} ahash iteration orders: the seed dimension would be vacuous")
    st["probe_distinct_std_orders"] = len(std_orders)
    st["probe_distinct_ahash_orders"] = len(ah_orders)
    a1, _ = run_probe(binp, cfg["seeds"][0], no_aslr=False)
    a2, _ = run_probe(binp, cfg["seeds"][0], no_aslr=False)
    st["probe_ahash_order_varies_with_aslr_on"] = a1.splitlines()[1] != a2.splitlines()[1] or a1.splitlines()[1] != again.splitlines()[1]
    return st


# --------------------------------------------------------------------------------------------------
# cases
# --------------------------------------------------------------------------------------------------
def step_plan(cfg, h, j):
    seeds, thr = cfg["seeds"], cfg["threads"]
    return [seeds[(h + j) % len(seeds)], thr[((h // len(seeds)) + j) % len(thr)]]


def history_case(cfg, specs, h, ops, rot=0):
    n = len(specs)
    i = (h + rot) % n
    return {"kind": "history", "cid": f"h{h}", "ops": list(ops), "prog": specs[i]["id"], "p2": specs[(i + 1) % n]["id"],
            "q": specs[(i + 2) % n]["id"], "plan": [step_plan(cfg, h, j) for j in range(len(ops) + 1)]}


def sweep_case(spec, seed, threads):
    return {"kind": "sweep", "cid": f"s:{spec['id']}:{seed}:{threads}", "ops": [], "prog": spec["id"], "p2": spec["id"],
            "q": spec["id"], "plan": [[seed, threads]]}


# cross-program histories: every step is (operation, sibling); a step whose sibling differs from the one the project
# currently holds first performs `switch to that sibling` (sources + blueprint edited, outputs untouched)
XOPS = ["gen", "check", "checkdiag", "rmout"]
XOP_DOC = {
    "gen:S": "switch to sibling S if it is not the current program (edit sources/blueprint in place), then pavexc generate --diagnostics "
             "into the SAME output directory",
    "check:S": "switch to S if needed, then pavexc generate --check",
    "checkdiag:S": "switch to S if needed, then pavexc generate --check --diagnostics <file>",
    "rmout:S": "delete the generated crate and the diagnostics file, restore the pristine workspace manifest (thorough tier only)",
}
# the histories named by the task, after the initial `gen A` into an empty directory
XHIST_LISTED = [
    [["gen", "B"]],
    [["checkdiag", "B"]],
    [["check", "B"]],
    [["gen", "B"], ["checkdiag", "B"]],
    [["gen", "B"], ["gen", "A"]],
    [["gen", "B"], ["gen", "B"]],
]


def xhistories(mode):
    """listed: XHIST_LISTED. bound2: those first, then every other sequence of length <= 2 over {gen, check, checkdiag} x {A, B}
    plus `rmout` in the middle, that contains at least one step on B (the others are single-program histories, which
    the main enumeration covers)."""
    out = [list(map(list, h)) for h in XHIST_LISTED]
    if mode == "bound2":
        run_ops = [[o, w] for o in ("gen", "check", "checkdiag") for w in "AB"]
        rest = [[x] for x in run_ops] + [[x, y] for x in run_ops + [["rmout", "A"]] for y in run_ops]
        for h in rest:
            if any(w == "B" for _o, w in h) and h not in out:
                out.append(h)
    return out


def xprog_cases(tier, cfg, h0=0):
    cases = []
    progs = XP.programs(tier)
    h = h0
    hists = xhistories(cfg["xhist"])
    # listed histories of every pair first (a budget cut then hits the longer tail of the enumeration evenly)
    for rank, hist in enumerate(hists):
        for fam in XP.families(tier):
            names = [s["name"] for s in fam["siblings"]]
            for a, b in itertools.permutations(names, 2):
                pa, pb = progs[XP.program_id(fam["name"], a)], progs[XP.program_id(fam["name"], b)]
                cases.append({"kind": "xprog", "cid": f"x{h}", "family": fam["name"], "edit": fam["edits"][f"{a}>{b}"],
                              "a": pa, "b": pb, "hist": hist, "ops": [f"{o}:{w}" for o, w in hist], "prog": pa["id"], "p2": pb["id"],
                              "q": pb["id"], "plan": [step_plan(cfg, h, j) for j in range(len(hist) + 1)], "rank": rank})
                h += 1
    if cfg.get("xwipe"):
        hist = [["wipe", "A"], ["gen", "B"]]
        for fam in XP.families(tier):
            for a, b in itertools.permutations(fam["siblings"], 2):
                if a["src"] == b["src"]:
                    continue  # same sources: the cold-cache generation of B is a single-program history
                pa, pb = progs[XP.program_id(fam["name"], a["name"])], progs[XP.program_id(fam["name"], b["name"])]
                cases.append({"kind": "xprog", "cid": f"x{h}", "family": fam["name"], "edit": fam["edits"][f"{a['name']}>{b['name']}"],
                              "a": pa, "b": pb, "hist": hist, "ops": [f"{o}:{w}" for o, w in hist], "prog": pa["id"], "p2": pb["id"],
                              "q": pb["id"], "plan": [step_plan(cfg, h, j) for j in range(len(hist) + 1)], "rank": len(hists)})
                h += 1
    return cases


def perturbation_histories(tier):
    """Histories in which the files pavexc wrote are edited in place between runs."""
    out = []
    if tier == "quick":
        for pt in PT_OPS:
            out += [[pt, "check"], [pt, "checkdiag"], [pt, "gen"], [pt, "gen", "check"]]
        return out
    alphabet = PT_OPS + ["gen", "check", "checkdiag"]
    for n in (2, 3):
        for ops in itertools.product(alphabet, repeat=n):
            if is_pt(ops[-1]):
                continue  # no pavexc process after the last operation: observationally the prefix
            if not any(is_pt(o) for o in ops):
                continue  # enumerated by the plain histories
            out.append(list(ops))
    return out


def has_wipe(case):
    return any(o.split(":")[0] == "wipe" for o in case["ops"])


def execute_xcase(arena, case, restore=True):
    if restore:
        arena.restore_cache(SNAP)
    arena.reset_projects()
    proj = arena.s
    progs = {"A": case["a"], "B": case["b"]}
    cur = None
    steps = []
    for j, (op, who) in enumerate([["gen", "A"]] + case["hist"]):
        label = "init" if j == 0 else op
        if op == "rmout":
            proj.reset_outputs()
            steps.append({"op": "rmout"})
            continue
        if op == "wipe":
            arena.wipe_cache()
            steps.append({"op": "wipe"})
            continue
        switched = cur is not None and who != cur
        if who != cur:
            switch_to(proj, progs[who])
            cur = who
        pid = progs[who]["id"]
        seed, thr = case["plan"][j]
        before = proj.snapshot()
        stale = diff_against_fresh(proj, pid)
        o = run_pavexc(arena, proj, seed, thr, check=op in ("check", "checkdiag"), diagnostics=op != "check")
        st = {"op": label, "proj": "s", "who": who, "bp": pid, "switched": switched, "seed": seed, "threads": thr, "exit": o["exit"],
              "timed_out": o["timed_out"], "wall_s": o["wall_s"], "shim_calls": o["shim_calls"], "n_documented": o["n_documented"],
              "before": before, "after": proj.snapshot(), "diff_before": stale, "diff_after": diff_against_fresh(proj, pid)}
        if o["exit"] != 0:
            st["stderr"] = ANSI.sub("", o["stderr"])[-1500:]
        steps.append(st)
    return {"case": case, "arena": arena.k, "steps": steps}


def execute_case(arena, case, restore=True):
    if case["kind"] == "xprog":
        return execute_xcase(arena, case, restore)
    if restore:
        arena.restore_cache(SNAP)
    arena.reset_projects()
    state = {"bp": case["prog"]}
    set_bp(arena.p, state["bp"])
    steps = []

    def do_run(proj, label, j, bp, **kw):
        seed, thr = case["plan"][j]
        before = arena.p.snapshot()
        o = run_pavexc(arena, proj, seed, thr, **kw)
        st = {"op": label, "proj": proj.name, "bp": bp, "seed": seed, "threads": thr, "exit": o["exit"],
              "timed_out": o["timed_out"], "wall_s": o["wall_s"], "shim_calls": o["shim_calls"],
              "n_documented": o["n_documented"], "before": before, "after": arena.p.snapshot()}
        if proj is not arena.p:
            st["own_after"] = proj.snapshot()
        if o["exit"] != 0:
            st["stderr"] = ANSI.sub("", o["stderr"])[-1500:]
        return st

    steps.append(do_run(arena.p, "init", 0, state["bp"]))
    for j, op in enumerate(case["ops"], 1):
        if op == "gen":
            steps.append(do_run(arena.p, "gen", j, state["bp"]))
        elif op == "genq":
            set_bp(arena.q, case["q"])
            steps.append(do_run(arena.q, "genq", j, case["q"]))
        elif op == "genx":
            set_bp(arena.x, X_PROGRAM_ID)
            steps.append(do_run(arena.x, "genx", j, X_PROGRAM_ID))
        elif op == "wipe":
            arena.wipe_cache()
            steps.append({"op": "wipe"})
        elif op == "rmout":
            arena.p.reset_outputs()
            steps.append({"op": "rmout"})
        elif is_pt(op):
            steps.append({"op": op, "changed": arena.p.perturb(op[3:])})
        elif op == "check":
            steps.append(do_run(arena.p, "check", j, state["bp"], check=True, diagnostics=False))
        elif op == "checkdiag":
            steps.append(do_run(arena.p, "checkdiag", j, state["bp"], check=True, diagnostics=True))
        elif op == "editcheck":
            state["bp"] = case["p2"] if state["bp"] == case["prog"] else case["prog"]
            set_bp(arena.p, state["bp"])
            steps.append(do_run(arena.p, "editcheck", j, state["bp"], check=True, diagnostics=False))
        else:
            raise L.MachineryError(f"unknown history operation {op}")
    return {"case": case, "arena": arena.k, "steps": steps}


def run_cases(arenas, cases, n_wipe_arenas, deadline=None):
    """Execute cases on the arenas (one worker thread per arena). Histories containing `wipe` only run on the
    arenas that have warm cargo target dirs. Returns (records, n_not_run)."""
    import collections as C
    wipe_q = C.deque(c for c in cases if has_wipe(c))
    plain_q = C.deque(c for c in cases if not has_wipe(c))
    lock = threading.Lock()
    records = []

    def worker(a):
        dirty = True
        while True:
            with lock:
                if deadline is not None and time.time() > deadline:
                    return
                if a.k < n_wipe_arenas and wipe_q:
                    c = wipe_q.popleft()
                elif plain_q:
                    c = plain_q.popleft()
                else:
                    return
            restore = c["kind"] != "sweep" or dirty
            rec = execute_case(a, c, restore=restore)
            dirty = c["kind"] != "sweep"
            if a.k >= n_wipe_arenas and os.path.isdir(a.target):
                # a cache miss where none was expected: cargo built a target dir here; do not keep ~1 GB per arena
                count("unexpected_cache_misses_outside_wipe_arenas")
                a.drop_target()
            with lock:
                records.append(rec)

    with cf.ThreadPoolExecutor(max_workers=len(arenas)) as ex:
        futs = [ex.submit(worker, a) for a in arenas]
        for f in futs:
            f.result()
    return records, len(wipe_q) + len(plain_q)


# --------------------------------------------------------------------------------------------------
# observe
# --------------------------------------------------------------------------------------------------

class arena_lock:
    """One C10 process at a time works on the arenas."""

    def __enter__(self):
        os.makedirs(ROOT, exist_ok=True)
        self.f = open(f"{ROOT}/lock", "w")
        fcntl.flock(self.f, fcntl.LOCK_EX)
        return self

    def __exit__(self, *exc):
        fcntl.flock(self.f, fcntl.LOCK_UN)
        self.f.close()
        return False


def observe(tier):
    with arena_lock():
        return _observe(tier, TIERS[tier])


def _observe(tier, cfg):
    COUNTERS.clear()
    t_start = time.time()
    rot = int(os.environ.get("VERIF_SEED", "0") or 0)
    arenas = prepare(tier)
    specs = programs(tier)
    canon, notes = baseline(arenas, tier)
    notes["prepare_and_baseline_wall_s"] = round(time.time() - t_start, 1)
    t0 = time.time()
    st = selftest(arenas, tier)
    st["wall_s"] = round(time.time() - t0, 1)
    L.log(f"c10: {len(specs)} programs, baseline + self-test done in {time.time() - t_start:.1f}s")
    for a in arenas:
        a.reset_projects()
    records = []
    batches = []
    # seed sweep
    t0 = time.time()
    sweep = [sweep_case(s, seed, thr) for s in specs for seed in cfg["seeds"] for thr in cfg["threads"]]
    recs, left = run_cases(arenas, sweep, cfg["wipe_arenas"])
    records += recs
    batches.append({"batch": "seed-sweep", "cases": len(sweep), "completed": len(recs), "wall_s": round(time.time() - t0, 1)})
    L.log(f"c10: seed sweep {len(recs)} runs in {time.time() - t0:.1f}s")
    # cross-program histories (sibling programs sharing one output directory)
    t0 = time.time()
    xcases = xprog_cases(tier, cfg, rot)
    recs, left = run_cases(arenas, xcases, cfg["wipe_arenas"], t0 + cfg["xbudget_s"] if cfg["xbudget_s"] else None)
    records += recs
    by_rank = collections.Counter(c["rank"] for c in xcases)
    done_rank = collections.Counter(r["case"]["rank"] for r in recs)
    batches.append({"batch": "xprog", "cases": len(xcases), "completed": len(recs), "not_run": left, "wall_s": round(time.time() - t0, 1),
                    "mode": cfg["xhist"], "budget_s": cfg["xbudget_s"], "histories_per_ordered_pair": len(xhistories(cfg["xhist"])),
                    "cold_cache_histories": sum(1 for c in xcases if has_wipe(c)), "cold_cache_histories_enabled": bool(cfg.get("xwipe")),
                    "ordered_pairs": by_rank[0], "histories_completed_for_every_pair": sum(1 for r in by_rank if done_rank[r] == by_rank[r]),
                    "history_shapes": [["gen:A"] + [f"{o}:{w}" for o, w in hh] for hh in xhistories(cfg["xhist"])]})
    L.log(f"c10: cross-program histories {len(recs)}/{len(xcases)} in {time.time() - t0:.1f}s")
    # histories, by increasing length
    deadline = t_start + cfg["budget_s"] if cfg["budget_s"] else None
    if deadline is not None and cfg["xbudget_s"]:
        deadline += time.time() - t0  # the cross-program batch has its own budget
    h = 0
    for n in range(1, cfg["hist_len_nowipe"] + 1):
        alphabet = OPS if n <= cfg["hist_len"] else [o for o in OPS if o != "wipe"]
        cases = []
        n_equiv = 0
        for ops in itertools.product(alphabet, repeat=n):
            if ops[-1] in NO_RUN_OPS:
                n_equiv += 1  # no pavexc process after the last operation: observationally the (n-1)-prefix, which is enumerated
            else:
                cases.append(history_case(cfg, specs, h, ops, rot))
            h += 1
        t0 = time.time()
        if deadline is not None and time.time() > deadline:
            recs, left = [], len(cases)
        else:
            recs, left = run_cases(arenas, cases, cfg["wipe_arenas"], deadline)
        records += recs
        batches.append({"batch": f"histories-len-{n}", "length": n, "alphabet": list(alphabet), "sequences": len(cases) + n_equiv,
                        "equivalent_to_their_prefix": n_equiv, "cases": len(cases), "completed": len(recs), "not_run": left,
                        "wall_s": round(time.time() - t0, 1)})
        L.log(f"c10: histories of length {n} over {len(alphabet)} ops: {len(recs)}/{len(cases)} in {time.time() - t0:.1f}s")
    # perturbation histories: the outputs are edited in place between runs (PERTURB)
    t0 = time.time()
    pcases = []
    for ops in perturbation_histories(tier):
        pcases.append(history_case(cfg, specs, h, ops, rot))
        h += 1
    if deadline is not None and time.time() > deadline + 240:
        recs, left = [], len(pcases)
    else:
        recs, left = run_cases(arenas, pcases, cfg["wipe_arenas"], (deadline + 240) if deadline is not None else None)
    records += recs
    batches.append({"batch": "perturbation-histories", "alphabet": PT_OPS + ["gen", "check", "checkdiag"], "cases": len(pcases),
                    "completed": len(recs), "not_run": left, "wall_s": round(time.time() - t0, 1),
                    "shapes": "quick: [pt, check], [pt, checkdiag], [pt, gen], [pt, gen, check] for every perturbation; thorough: "
                              "every sequence of length <= 3 over the alphabet that contains a perturbation followed by a run"})
    L.log(f"c10: perturbation histories {len(recs)}/{len(pcases)} in {time.time() - t0:.1f}s")
    for a in arenas:
        a.drop_home()  # every case restores the cache from the snapshot: nothing to keep
        if a.k >= TIERS["quick"]["wipe_arenas"]:
            a.drop_target()  # the thorough tier's extra target dirs are transient (copied again from arena 0 next time)
    return {"family": FAM, "tier": tier, "plugin_sha": plugin_sha(), "specs": specs, "canon": canon, "notes": notes,
            "selftest": st, "records": records, "batches": batches, "counters": dict(COUNTERS),
            "total_wall_s": round(time.time() - t_start, 1)}


# --------------------------------------------------------------------------------------------------
# evaluation (the property)
# --------------------------------------------------------------------------------------------------
def describe(case, j, st):
    return (f"{case['kind']} {case['cid']}: program {case['prog']}, history [init, {', '.join(case['ops'])}], step {j} "
            f"`{st['op']}` (blueprint {st.get('bp')}, seed {st.get('seed')}, {st.get('threads')} rayon threads)")


def xkey(case, oracle):
    return f"c10:xprog:{case['family']}:{case['edit']}:{oracle}"


def fmt_diff(d):
    """`first differing file and byte offset` of a {file: {offset, last, got_len, want_len}} map."""
    if not d:
        return "no difference"
    names = {"manifest": "sdk/Cargo.toml", "lib": "sdk/src/lib.rs", "diag": "diag.dot", "root": "Cargo.toml (workspace)"}
    parts = []
    for f in FILES:
        if f in d:
            x = d[f]
            blk = ""
            if x["got_len"] is not None and x["got_len"] == x["want_len"]:
                tail = (x["got_len"] // BLOCK) * BLOCK
                blk = (", same size: all differences inside the last partial 8 KiB block" if x["offset"] >= tail and x["got_len"] >= BLOCK
                       else ", same size, file shorter than one 8 KiB block" if x["got_len"] < BLOCK else ", same size")
            parts.append(f"{names[f]} first differs at byte {x['offset']} (last at {x['last']}; on disk {x['got_len']} bytes, fresh {x['want_len']} bytes{blk})")
    return "; ".join(parts)


def evaluate_x(rec, canon, hist):
    """The oracle of the cross-program histories. fresh(P) = canon[P] (digests) / XROOT/fresh/P (bytes)."""
    problems = []
    case = rec["case"]
    shape = ["gen:A"] + case["ops"]
    for j, st in enumerate(rec["steps"]):
        op = st["op"]
        if op in ("rmout", "wipe"):
            hist[f"x:{op}:done"] += 1
            continue
        cold = any(s2["op"] == "wipe" for s2 in rec["steps"][:j])
        where = (f"xprog {case['cid']}: family {case['family']}, edit {case['edit']} (A={case['a']['id']}, B={case['b']['id']}), history "
                 f"[{', '.join(shape)}], step {j} `{shape[j]}` (seed {st['seed']}, {st['threads']} rayon threads)")
        if st.get("timed_out"):
            problems.append((xkey(case, "pavexc-timeout"), f"{where}: no exit within {RUN_TIMEOUT_S}s", j))
            continue
        b, a = st["before"], st["after"]
        want = canon[st["bp"]]
        new_stray = [p for p in a.get("stray", []) if p not in b.get("stray", [])]
        if new_stray:
            problems.append((xkey(case, "stray-file-created"), f"{where}: created {new_stray}", j))
        if op in ("init", "gen"):
            if st["exit"] != 0:
                hist[f"x:{op}:exit{st['exit']}"] += 1
                problems.append((xkey(case, "generate-fails-with-cold-cache" if cold else "generate-fails"),
                                 f"{where}: exit {st['exit']} on an accepted program{' (after the rustdoc cache was deleted; the same step succeeds with a warm cache)' if cold else ''}: "
                                 f"{st.get('stderr', '')[-600:]}", j))
                continue
            wrong = [f for f in FILES if a[f][0] != want[f]]
            up_to_date = all(b[f][0] == want[f] for f in FILES)
            if j == 0:
                oracle, what = "fresh-run-differs", "a generation into an empty directory differs from the first fresh generation of the same program"
            elif up_to_date:
                oracle, what = "noop-regenerate-changes-bytes", "the directory already held exactly fresh(program), the run changed its bytes"
            elif st["who"] == "A":
                oracle, what = "round-trip-equals-fresh", "after generating A, B and A again into one directory it must equal a fresh generation of A"
            else:
                oracle, what = "switch-equals-fresh", ("after `gen` of a sibling into the directory left by the previous program it must be "
                                                       "byte-identical to a fresh generation into an empty directory")
            if wrong:
                problems.append((xkey(case, oracle), f"{where}: {what}; {fmt_diff(st['diff_after'])} [before the run: {fmt_diff(st['diff_before'])}]", j))
            if up_to_date and j > 0:
                touched = [f for f in FILES if a[f] != b[f]]
                hist[f"x:gen:inputs-unchanged:{'modified-' + '+'.join(touched) if touched else 'no-file-touched'}"] += 1
                if touched and not wrong:
                    problems.append((xkey(case, "noop-regenerate-touches-files"), f"{where}: the directory already held exactly fresh(program), "
                                     f"yet {touched} were rewritten: {[(f, b[f], a[f]) for f in touched]}", j))
            elif j > 0:
                rewritten = [f for f in FILES if a[f][0] != b[f][0]]
                hist[f"x:gen:{'switched' if st['switched'] else 'same-program'}:rewrote-{'+'.join(rewritten) or 'nothing'}:{'equals-fresh' if not wrong else 'DIFFERS'}"] += 1
            else:
                hist[f"x:init:{'equals-fresh' if not wrong else 'DIFFERS'}"] += 1
        else:  # check, checkdiag
            stale = [f for f in CHECKED_BY_WRITER if b[f][0] != want[f]]
            if op == "checkdiag" and b["diag"][0] != want["diag"]:
                stale.append("diag")
            modified = [f for f in FILES if a[f] != b[f]]
            expected = 1 if stale else 0
            hist[f"x:{op}:{'switched' if st['switched'] else 'same-program'}:expected-exit{expected}:got-exit{st['exit']}"
                 + (f":modified-{'+'.join(modified)}" if modified else "")] += 1
            if modified:
                problems.append((xkey(case, "check-writes"), f"{where}: `--check` changed {modified}: {[(f, b[f], a[f]) for f in modified]}", j))
            if st["exit"] not in (0, 1):
                problems.append((xkey(case, f"check-exit-status-{st['exit']}"), f"{where}: exit {st['exit']}: {st.get('stderr', '')[-400:]}", j))
            elif st["exit"] != expected:
                relevant = {f: v for f, v in st["diff_before"].items() if f in stale}
                problems.append((xkey(case, f"check-exit-expected{expected}-got{st['exit']}"),
                                 f"{where}: the directory {'differs from' if stale else 'equals'} a fresh generation of the program being checked "
                                 f"({fmt_diff(relevant)}), `--check` exited {st['exit']}", j))
    return problems


def evaluate(rec, canon, hist=None):
    """-> [(key, what, step index)] for one executed case; `hist` (Counter) receives the outcome histogram."""
    if rec["case"]["kind"] == "xprog":
        return evaluate_x(rec, canon, hist if hist is not None else collections.Counter())
    problems = []
    case = rec["case"]
    phase = "seed-sweep" if case["kind"] == "sweep" else "history"
    hist = hist if hist is not None else collections.Counter()
    for j, st in enumerate(rec["steps"]):
        op = st["op"]
        if op in ("wipe", "rmout"):
            hist[f"{op}:done"] += 1
            continue
        if is_pt(op):
            hist[f"{op}:{'changed-' + st['changed'] if st.get('changed') else 'no-effect'}"] += 1
            continue
        where = describe(case, j, st)
        if st.get("timed_out"):
            problems.append(("pavexc-timeout", f"{where}: no exit within {RUN_TIMEOUT_S}s", j))
            continue
        b, a = st["before"], st["after"]
        want = canon[st["bp"]]
        new_stray = [p for p in a.get("stray", []) if p not in b.get("stray", [])]
        if new_stray:
            problems.append(("stray-file-created", f"{where}: created {new_stray}", j))
        if op in ("init", "gen"):
            if st["exit"] != 0:
                hist[f"{op}:exit{st['exit']}"] += 1
                problems.append((f"generate-fails:{phase}", f"{where}: exit {st['exit']} on an accepted blueprint: "
                                 f"{st.get('stderr', '')[-400:]}", j))
                continue
            for f in FILES:
                if a[f][0] != want[f]:
                    problems.append((f"output-differs:{f}:{phase}", f"{where}: {f} has digest {a[f][0]}, the first run of this "
                                     f"program produced {want[f]}", j))
            if all(b[f][0] == want[f] for f in FILES):
                touched = [f for f in FILES if a[f] != b[f]]
                hist[f"{op}:exit0:inputs-unchanged:{'modified-' + '+'.join(touched) if touched else 'no-file-touched'}"] += 1
                for f in touched:
                    problems.append((f"regenerate-modifies-file:{f}", f"{where}: inputs unchanged and all outputs up to date, "
                                     f"yet {f} went from {b[f]} to {a[f]}", j))
            else:
                hist[f"{op}:exit0:outputs-written"] += 1
        elif op in ("genq", "genx"):
            touched = [f for f in FILES if a[f] != b[f]]
            if touched:
                problems.append(("other-project-modifies-files", f"{where}: generating another project changed P's {touched}", j))
            if st["exit"] != 0:
                hist[f"{op}:exit{st['exit']}"] += 1
                problems.append((f"generate-fails:{op}", f"{where}: exit {st['exit']} on an accepted blueprint: "
                                 f"{st.get('stderr', '')[-400:]}", j))
                continue
            hist[f"{op}:exit0"] += 1
            own = st["own_after"]
            for f in FILES:
                if own[f][0] != want[f]:
                    problems.append((f"output-differs:{f}:{op}", f"{where}: {f} has digest {own[f][0]}, the first run of this "
                                     f"program produced {want[f]}", j))
        else:  # check, checkdiag, editcheck
            # what a normal run with the same flags would rewrite: the three files that go through AppWriter, plus the
            # diagnostics file when `--diagnostics` is given
            stale = [f for f in CHECKED_BY_WRITER if b[f][0] != want[f]]
            if op == "checkdiag" and b["diag"][0] != want["diag"]:
                stale.append("diag")
            modified = [f for f in FILES if a[f] != b[f]]
            expected = 1 if stale else 0
            wrote_diag = op == "checkdiag" and modified == ["diag"]
            hist[f"{op}:expected-exit{expected}:got-exit{st['exit']}" + (f":modified-{'+'.join(modified)}" if modified else "")] += 1
            if wrote_diag:
                problems.append(("check-writes-diagnostics-file",
                                 f"{where}: `--check --diagnostics <file>` {'created' if b['diag'][0] is None else 'rewrote'} the "
                                 f"diagnostics file ({b['diag'][0]} -> {a['diag'][0]}) and exited {st['exit']} (a normal run would "
                                 f"change {stale}); `--check` must never modify a file and must fail when a normal run would change one", j))
            elif modified:
                problems.append((f"check-modifies-file:{'+'.join(modified)}", f"{where}: `--check` changed {modified}: "
                                 f"{[(f, b[f], a[f]) for f in modified]}", j))
            if st["exit"] not in (0, 1):
                problems.append((f"check-exit:status-{st['exit']}", f"{where}: exit {st['exit']}: {st.get('stderr', '')[-400:]}", j))
            elif st["exit"] != expected and not (wrote_diag and stale == ["diag"]):
                # (exit 0 with only the diagnostics file stale is the same defect as writing it: one key)
                problems.append((f"check-exit:expected{expected}-got{st['exit']}",
                                 f"{where}: a normal run would change {stale or 'nothing'}, `--check` exited {st['exit']}", j))
    return problems


def context_key(case, j):
    st_seed, st_thr = case["plan"][min(j, len(case["plan"]) - 1)]
    prog = (case["prog"], case["p2"]) if case["kind"] == "xprog" else case["prog"]
    return (prog, st_seed, st_thr, tuple(case["ops"][:j]))


def is_divergence(key):
    if key.startswith("c10:xprog:"):
        return key.endswith(":fresh-run-differs") or key.endswith(":generate-fails")
    return key.startswith("output-differs") or key.startswith("generate-fails")


def program_spec(pid):
    """The `spec` of a replay file: something orchestrator.observe_specs can push through the standard pipeline (the
    sibling programs live in their own component crate, so their replay files carry a stub and the programs
    themselves inside `c10_case`)."""
    return REPLAY_STUB_SPEC if is_xprog(pid) else all_programs()[pid]


def base_case(case, seed):
    """The shortest case about the same program: one generation into an empty directory."""
    if case["kind"] == "xprog":
        c = dict(case)
        c.update({"cid": case["cid"] + ":base", "hist": [], "ops": [], "plan": [[seed, 1]]})
        return c
    return sweep_case(all_programs()[case["prog"]], seed, 1)


def confirm(case, key, canon, arenas):
    """Re-execute a violating case from the warm-cache snapshot.

    Deterministic clauses (regenerate/--check behaviour) must reproduce at once. For a divergence of the output
    bytes the two differing observations are themselves the finding (C10's subject is exactly that); the case
    and the canonical run of the program are repeated a few times and any further deviation confirms it.
    Raises MachineryError when nothing deviates any more."""
    a0 = arenas[0]
    if not is_divergence(key):
        rec = execute_case(a0, case, restore=True)
        if key in {k for k, _w, _j in evaluate(rec, canon)}:
            return {"reproduced": True, "attempts": 1}
        raise L.MachineryError(f"nondeterministic: violation `{key}` of case {case['cid']} did not reproduce when the case "
                               "was re-executed from the warm-cache snapshot")
    for t in range(4):
        rec = execute_case(a0, case, restore=True)
        if any(is_divergence(k) for k, _w, _j in evaluate(rec, canon)):
            return {"reproduced": True, "attempts": t + 1, "by": "the failing case deviates again from the canonical digests"}
    base = base_case(case, case["plan"][0][0] if case["kind"] == "sweep" else TIERS["quick"]["seeds"][0])
    for t in range(4):
        rec = execute_case(a0, base, restore=True)
        if any(is_divergence(k) for k, _w, _j in evaluate(rec, canon)):
            return {"reproduced": True, "attempts": 4 + t + 1, "by": "a repetition of the canonical run deviates"}
    raise L.MachineryError(f"nondeterministic: divergence `{key}` of case {case['cid']} was observed once and neither the case "
                           "nor the canonical run deviated in 8 re-executions")


RULE = (
    "programs: a fixed set of accepted blueprints (fam_c10.program_ops) with >=3 entries in every hash-keyed table of the "
    "anchors (cloned types per stage, shared request-scoped values, singletons, fallible singletons with colliding "
    "ApplicationStateError variant names, error handlers/observers, routes, nested "
    "prefixes, domain guards, fallbacks). seeds: every pavexc process runs under an LD_PRELOAD getrandom/getentropy "
    "interposer keyed by VERIF_HASH_SEED and under `setarch -R`, seeds x RAYON_NUM_THREADS in {1,16} for every program "
    "(seed sweep, fresh output directory, warm cache). histories: every sequence up to the bound over the alphabet "
    "{gen P, gen Q (other project, same component crate and cache), gen X (component crate with equal name, version and "
    "workspace-relative path but other contents: all cache-key columns but the source hash collide), wipe ($HOME/.pavex "
    "deleted), --check, --check --diagnostics, edit blueprint then --check, delete outputs}, each started from a warm-cache "
    "snapshot by a generation of P, with the seed and thread count of every step rotating deterministically; a sequence "
    "whose last operation starts no pavexc process (wipe, delete outputs) is observationally its own prefix and is counted "
    "as covered by it. oracle = the "
    "property: SHA-256 of Cargo.toml, src/lib.rs and the diagnostics file equal the first run of the same program in every "
    "run; a generation whose outputs were all up to date changes no sha and no mtime_ns; `--check` exits 0 iff manifest, "
    "lib.rs and workspace manifest equal what a normal run would write and changes no file; generating Q or X leaves P "
    "alone. non-trivial = a pavexc run compared against digests obtained from a different process; distinct = distinct "
    "(program, seed, threads, history prefix). "
    "CROSS-PROGRAM DIMENSION: sibling programs (fam_c10_xprog.py) share one project and ONE output directory; a family is a set "
    "of siblings differing by exactly one edit (drop/add of a dependency on a local crate; same-length edits: route prefix "
    "/ping<->/pong, route path in the source, handler / constructor / error handler swapped for a same-length name, function, "
    "module and id renamed in the source, version of the local crate 0.1.0<->0.2.0; different-length controls: add/remove a "
    "route). The operation `switch to sibling S` edits sources and blueprint in place and leaves the outputs alone. For every "
    "ordered pair (A, B) of every family, after `gen A` into an empty directory: quick = the histories [gen B], [checkdiag B], "
    "[check B], [gen B, checkdiag B], [gen B, gen A], [gen B, gen B]; thorough = every sequence of length <= 2 over {gen, check, "
    "checkdiag} x {A, B} (+ delete-outputs in the middle) that contains a step on B, within a time budget (reported). fresh(P) = "
    "the bytes of a generation of P into an empty directory (arena 0, seed 0, one thread). Oracle: after every `gen P` the four "
    "observed files (generated Cargo.toml, src/lib.rs, diagnostics file, workspace manifest) are byte-identical to fresh(P) and "
    "nothing else exists in the workspace; `gen P` on a directory equal to fresh(P) touches no mtime; `--check` for P exits 0 iff "
    "the files it covers equal fresh(P), 1 otherwise, and changes no byte and no mtime. Sizes of all fresh outputs and the "
    "first/last differing byte offset of every sibling pair are measured (coverage.xprog.measure) and the designed placements "
    "(lib.rs < 8 KiB; > 8 KiB with the difference inside the last partial 8 KiB block; > 8 KiB with the difference in a full "
    "block; generated Cargo.toml and diagnostics of equal size) are demanded from the measurement. The cross-program histories run "
    "with the warm cache (every source variant was documented by the baseline); VERIF_C10_XWIPE=1 adds [gen A, wipe, gen B] for the "
    "families whose siblings differ in their sources. "
    "PERTURBATION HISTORIES: between runs the harness edits the files pavexc wrote, the way a checkout, an editor or a formatter "
    "would (" + "; ".join(f"{k} = {v}" for k, v in PERTURB.items()) + "); quick = [pt, --check], [pt, --check --diagnostics], "
    "[pt, gen], [pt, gen, --check] for every perturbation, thorough = every sequence of length <= 3 over {perturbations, gen, "
    "--check, --check --diagnostics} that contains a perturbation followed by a run; same oracle (`--check` exits 1 exactly "
    "when a covered file differs from the canonical bytes and never writes; `gen` restores the canonical bytes).")


def oracle_c10(obs, rep, tier):
    o = obs.get(FAM) or {}
    if "records" not in o:
        return replay_c10(o, rep)
    if o.get("plugin_sha") != plugin_sha():
        L.log("c10: cached observations were made by another version of the plug-in; observing again")
        o = observe(tier)
        try:  # lib_e2e.tree_hash does not cover plug-ins: refresh the orchestrator's cache entry ourselves
            cache = f"{L.OBS_ROOT}/{L.tree_hash()}/{FAM}-{tier}.json"
            if os.path.exists(cache):
                with open(cache + ".tmp", "w") as f:
                    json.dump(o, f)
                os.replace(cache + ".tmp", cache)
        except OSError:
            pass
    canon = o["canon"]
    hist = collections.Counter()
    per_key = {}
    n_runs = 0
    contexts = set()
    digests = collections.defaultdict(lambda: collections.defaultdict(set))
    digest_runs = collections.Counter()  # (program, file, sha) -> number of pavexc processes that produced it
    cases = set()
    for rec in o["records"]:
        case = rec["case"]
        cases.add((case["prog"], case["p2"] if case["kind"] == "xprog" else None, tuple(case["ops"]), tuple(map(tuple, case["plan"]))))
        for j, st in enumerate(rec["steps"]):
            if "exit" not in st:
                continue
            n_runs += 1
            contexts.add(context_key(case, j))
            if st["exit"] == 0 and st["op"] in ("init", "gen", "genq", "genx"):
                snap = st.get("own_after") or st["after"]
                for f in FILES:
                    digests[st["bp"]][f].add(snap[f][0])
                    digest_runs[(st["bp"], f, snap[f][0])] += 1
        for key, what, j in evaluate(rec, canon, hist):
            cur = per_key.get(key)
            rank = (len(case["ops"]), j, case["cid"])
            if cur is None or rank < cur[0]:
                per_key[key] = (rank, what, rec, j)
    for note in o["notes"].get("baseline_cache_dependent_failures", []):
        rep.violation("generate-fails:depends-on-cache", f"program {note['program']} is rejected with the warm cache and accepted "
                      f"after deleting it: {note['stderr'][-300:]}",
                      {"oracle": "C10", "spec": all_programs()[note["program"]], "c10_case": None, "note": note})
    ssd = o["selftest"].get("same_seed_files_differ")
    if ssd:
        fs = [f for f in FILES if ssd["first"][f] != ssd["second"][f]]
        rep.violation(f"output-differs:{'+'.join(fs)}:same-seed-repeat", f"program {ssd['program']}: two runs with seed {ssd['seed']}, one rayon "
                      f"thread and the same warm cache wrote different {fs}: {ssd['first']} vs {ssd['second']}",
                      {"oracle": "C10", "spec": all_programs()[ssd["program"]], "c10_case": None, "observations": ssd})
    if o["notes"].get("q_equals_p") is False:
        rep.violation("output-differs:other-workspace", "the same program generated in project Q (same component crate) "
                      "differs from P's output", {"oracle": "C10", "spec": o["specs"][0], "c10_case": None})
    cfg = TIERS[tier]
    arenas = None
    confirmed_divergences = {}
    secondary_unreproduced = []
    # divergences first (corroborated / history ones before the sweep), so that an intermittent sibling and the clauses
    # that merely follow from a divergent earlier step of the same case can lean on them
    for key in sorted(per_key, key=lambda k: (not is_divergence(k), k.endswith(":seed-sweep"), k)):
        _rank, what, rec, j = per_key[key]
        with arena_lock():
            if arenas is None:
                arenas = prepare(tier)
                canon2, _ = baseline(arenas, tier)
                for p in sorted(canon):
                    for f in FILES:
                        if p in canon2 and canon2[p][f] != canon[p][f]:
                            rep.violation(f"output-differs:{f}:repeated-baseline",
                                          f"program {p}: two fresh generations with seed {cfg['seeds'][0]}, one rayon thread and a "
                                          f"warm cache gave {f} digests {canon[p][f]} and {canon2[p][f]}",
                                          {"oracle": "C10", "spec": program_spec(p), "c10_case": None, "first": canon[p], "second": canon2[p]})
            st = rec["steps"][j]
            conf = None
            if key.startswith("output-differs:") and key.split(":")[1] in FILES:
                f = key.split(":")[1]
                sha = (st.get("own_after") or st["after"])[f][0]
                n_same = digest_runs[(st["bp"], f, sha)]
                if n_same >= 2:
                    # C10's subject is a divergence between processes: several independent pavexc processes that wrote the
                    # same non-canonical bytes are the finding; an intermittent one need not recur on demand
                    conf = {"reproduced": True, "attempts": 0, "by": f"{n_same} independent pavexc processes of this observation "
                                                                       f"wrote the same non-canonical {f} ({sha})"}
            if conf is None:
                try:
                    conf = confirm(rec["case"], key, canon, arenas)
                except L.MachineryError:
                    involved = {s2.get("bp") for s2 in rec["steps"] if s2.get("bp")}
                    sibling = next((k for k in confirmed_divergences if confirmed_divergences[k] in involved), None)
                    if not sibling:
                        raise
                    if not is_divergence(key):
                        # e.g. `--check` judged against canonical digests after an intermittently divergent generation of
                        # the same program: a consequence of the divergence already reported, not a finding of its own
                        secondary_unreproduced.append({"key": key, "case": rec["case"]["cid"], "explained_by": sibling})
                        continue
                    conf = {"reproduced": False, "intermittent": True, "by": f"not reproduced in 8 re-executions; a program of this "
                                                                              f"case diverges under key {sibling}"}
            if is_divergence(key):
                confirmed_divergences[key] = st.get("bp")
        rep.violation(key, what, {"oracle": "C10", "spec": program_spec(rec["case"]["prog"]), "c10_case": rec["case"],
                                  "failing_step": j, "steps": rec["steps"], "canonical_digests": {p: canon[p] for p in
                                                                                                 {rec["case"]["prog"], rec["case"]["p2"], rec["case"]["q"], X_PROGRAM_ID}},
                                  "confirmation": conf})
    for a in arenas or []:
        a.drop_home()
    batches = o["batches"]
    hb = [b for b in batches if b["batch"].startswith("histories")]
    full = [b for b in hb if b["completed"] == b["cases"]]
    per_prog = {p: {f: len(v) for f, v in d.items()} for p, d in digests.items()}
    samples = []
    for rec in o["records"]:
        if rec["case"]["kind"] == "history" and len(rec["case"]["ops"]) == max(len(r["case"]["ops"]) for r in o["records"][-50:]):
            samples.append({"case": rec["case"], "steps": [{k: v for k, v in st.items() if k in ("op", "bp", "seed", "threads", "exit")}
                                                             for st in rec["steps"]]})
        if len(samples) >= 2:
            break
    sw = next((r for r in o["records"] if r["case"]["kind"] == "sweep"), None)
    if sw:
        samples.append({"case": sw["case"], "after": sw["steps"][0]["after"]})
    xrecs = [r for r in o["records"] if r["case"]["kind"] == "xprog"]
    xb = next((b for b in batches if b["batch"] == "xprog"), {})
    if xrecs:
        r0 = max(xrecs, key=lambda r: (len(r["case"]["hist"]), r["case"]["family"] == "dep"))
        samples.append({"case": {k: r0["case"][k] for k in ("kind", "cid", "family", "edit", "a", "b", "hist", "plan")},
                        "steps": [{k: v for k, v in st.items() if k in ("op", "who", "bp", "switched", "seed", "threads", "exit", "diff_before", "diff_after")}
                                  for st in r0["steps"]]})
    xfam = collections.defaultdict(lambda: collections.Counter())
    for r in xrecs:
        xfam[r["case"]["family"]][r["case"]["edit"]] += 1
    xprog_cov = {
        "families": {f: dict(c) for f, c in xfam.items()}, "ordered_pairs": xb.get("ordered_pairs"),
        "history_shapes": xb.get("history_shapes"), "histories_per_ordered_pair": xb.get("histories_per_ordered_pair"),
        "histories_planned": xb.get("cases"), "histories_executed": len(xrecs), "histories_not_run": xb.get("not_run"),
        "history_shapes_completed_for_every_pair": xb.get("histories_completed_for_every_pair"), "budget_s": xb.get("budget_s"),
        "cold_cache_histories": xb.get("cold_cache_histories"), "cold_cache_histories_enabled": xb.get("cold_cache_histories_enabled"),
        "exhaustive_within_bound": xb.get("not_run") == 0, "wall_s": xb.get("wall_s"),
        "pavexc_runs": sum(1 for r in xrecs for st in r["steps"] if "exit" in st),
        "switch_steps": sum(1 for r in xrecs for st in r["steps"] if st.get("switched")),
        "sibling_programs": sorted({r["case"][k]["id"] for r in xrecs for k in ("a", "b")}),
        "source_variants": sorted({r["case"][k]["src"] for r in xrecs for k in ("a", "b")}),
        "measure": o["notes"].get("xprog_measure"), "operation_alphabet": XOP_DOC,
    }
    cov = {
        "evaluations": n_runs, "distinct_nontrivial": len(contexts), "rule": RULE, "samples": samples, "xprog": xprog_cov,
        "exhaustive": False,
        "exhaustive_note": f"seed dimension: a bounded deterministic sweep of {len(cfg['seeds'])} of 2^128 hash seeds "
                           "(x 2 rayon pool sizes); rayon's internal interleavings are not controlled",
        "histories_exhaustive": all(b["completed"] == b["cases"] for b in hb),
        "history_bounds": [{k: b[k] for k in ("length", "alphabet", "sequences", "equivalent_to_their_prefix", "cases", "completed",
                                              "wall_s")} for b in hb],
        "history_bound_completed": max([b["length"] for b in full if b["alphabet"] == OPS], default=0),
        "history_bound_completed_without_wipe": max([b["length"] for b in full], default=0),
        "programs": len(o["specs"]) + 1 + len(xprog_cov["sibling_programs"]),
        "program_names": [s["id"] for s in o["specs"]] + [X_PROGRAM_ID] + xprog_cov["sibling_programs"],
        "pavexc_runs_total": o["counters"].get("pavexc_runs"), "pavexc_runs_evaluated": n_runs,
        "distinct_cases": len(cases), "seed_sweep_runs": sum(1 for r in o["records"] if r["case"]["kind"] == "sweep"),
        "histories_executed": sum(1 for r in o["records"] if r["case"]["kind"] == "history"),
        "distinct_output_digests_per_program": per_prog,
        "max_distinct_output_digests": max((n for d in per_prog.values() for n in d.values()), default=0),
        "interposer_calls": o["counters"].get("shim_calls"), "interposer_bytes": o["counters"].get("shim_bytes"),
        "runs_without_interposer_call": o["counters"].get("runs_without_interposer_call", 0),
        "cold_cache_runs": sum(1 for r in o["records"] for st in r["steps"] if st.get("n_documented", 0) >= 5),
        "crates_documented_during_runs": sum(st.get("n_documented", 0) for r in o["records"] for st in r["steps"]),
        "unreproduced_consequences_of_a_reported_divergence": secondary_unreproduced,
        "outcome_histogram": dict(hist), "selftest": o["selftest"], "notes": o["notes"], "observe_total_wall_s": o.get("total_wall_s"),
        "operation_alphabet": OP_DOC,
    }
    if cov["runs_without_interposer_call"]:
        raise L.MachineryError(f"{cov['runs_without_interposer_call']} pavexc runs never reached the getrandom interposer")
    return "exploration", cov, [
        "hash seeds reach pavexc only through getrandom(2)/getentropy(3) (std RandomState, ahash via getrandom 0.3) and the "
        "address of a static (ASLR disabled); checked on every run by the ownership self-test",
        "`wipe` deletes the whole cache directory; cargo's own target directories stay (as they would for a user)",
        "the three projects have private cargo target directories except P and Q, which share one",
        "directories created by `--check` (sdk/src) are not counted as modified files",
        "cross-program histories: pavexc is given cargo metadata computed for the sibling's sources (--precomputed-metadata), as "
        "everywhere in this engine; the local crate `dep` is a path dependency outside the workspace members so that the warm-cache "
        "snapshot is valid in every arena; they run with a warm cache unless VERIF_C10_XWIPE=1 (with a cold cache a version bump "
        "of the local crate makes pavexc's own `cargo rustdoc` fail to resolve the workspace, because the stale generated manifest "
        "still asks for the old version: pavexc panics in framework_rustdoc.rs instead of regenerating)",
    ]


def replay_c10(o, rep):
    """`--replay <file>`: re-execute exactly that case."""
    argv = sys.argv
    path = argv[argv.index("--replay") + 1] if "--replay" in argv else None
    if not path:
        raise L.MachineryError("C10 replay needs --replay <file>")
    with open(path) as f:
        doc = json.load(f)
    case = doc.get("case", doc).get("c10_case")
    key = doc.get("key")
    xcase = bool(case) and case.get("kind") == "xprog"
    tier = "thorough" if case and not xcase and case["prog"] not in {s["id"] for s in programs("quick")} else "quick"
    found, steps = [], []
    with arena_lock():
        arenas = prepare(tier)
        canon, notes = baseline(arenas, tier)
        if xcase:
            # the case carries its two programs: their blueprints are regenerated from it, and so are fresh(A), fresh(B)
            write_xbps([case["a"], case["b"]])
            canon.update(xprog_baseline(arenas[0], TIERS[tier]["seeds"][0], [case["a"], case["b"]]))
        if case is None:
            canon_b, notes_b = baseline(arenas, tier)
            for nt in (notes, notes_b):
                for note in nt.get("baseline_cache_dependent_failures", []):
                    found.append(("generate-fails:depends-on-cache", json.dumps(note)[:600], 0))
                if nt.get("q_equals_p") is False:
                    found.append(("output-differs:other-workspace", "the same program generated in project Q differs from P", 0))
            for p in sorted(canon):
                for f in FILES:
                    if canon_b.get(p, canon[p])[f] != canon[p][f]:
                        found.append((f"output-differs:{f}:repeated-baseline", f"{p}: {canon[p][f]} vs {canon_b[p][f]}", 0))
        else:
            attempts = 6 if (key is None or is_divergence(key)) else 1
            for _t in range(attempts):
                rec = execute_case(arenas[0], case, restore=True)
                found = evaluate(rec, canon)
                steps = rec["steps"]
                if any(key is None or k == key for k, _w, _j in found):
                    break
        for a in arenas:
            a.drop_home()
    print(json.dumps({"replayed_case": case, "expected": "no violation of C10 in any step",
                      "observed_violations": [[k, w] for k, w, _j in found],
                      "steps": [{k: v for k, v in st.items() if k != "stderr"} for st in steps]}, indent=1))
    for k, w, j in found:
        if key is None or k == key:
            rep.violation(k, w, {"oracle": "C10", "spec": doc.get("case", {}).get("spec"), "c10_case": case, "failing_step": j,
                                 "steps": steps})
    n = max(1, sum(1 for st in steps if "exit" in st))
    return "exploration", {"evaluations": n, "distinct_nontrivial": max(2, n), "rule": RULE, "samples": [case], "exhaustive": False}, []


PROPERTIES = {"C10": (lambda tier: [FAM], oracle_c10)}


if __name__ == "__main__":  # development entry: python3 fam_c10.py quick
    from report import Reporter
    tier_ = sys.argv[1] if len(sys.argv) > 1 else "quick"
    L.ensure_built()
    obs_ = observe(tier_)
    with open(f"{ROOT}/last-obs-{tier_}.json", "w") as f_:
        json.dump(obs_, f_)
    rep_ = Reporter("C10", tier_)
    lvl_, cov_, asm_ = oracle_c10({FAM: obs_}, rep_, tier_)
    print(json.dumps({k: v for k, v in cov_.items() if k not in ("rule", "samples", "operation_alphabet")}, indent=1))
    sys.exit(rep_.finish(lvl_, cov_, asm_))
