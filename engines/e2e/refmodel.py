"""Reference model for the e2e engine (boring by construction). See DESIGN.md Appendix A.

A spec is {"id", "family", "bp": {"ops": [...]}}; ops are the registration calls (Appendix B).
The model answers:
  * analyse(spec)            -> Analysis (routes, chains, resolution, consumers)
  * static_verdict(analysis) -> ("must_accept" | "must_reject:<rule>" | "unspecified:<why>")
  * requests(analysis)       -> request script [(method, path, host, plan)]
  * expected call sequences for a (route, plan) (set of acceptable sequences)
"""
import itertools
import json
import re

CATALOG = None


def load_catalog(path=None):
    global CATALOG
    if CATALOG is None:
        if path is None:
            import lib_e2e
            path = f"{lib_e2e.APP}/catalog.json"
        with open(path) as f:
            CATALOG = {c["id"]: c for c in json.load(f)}
    return CATALOG


def cat(cid):
    return load_catalog()[cid]


FLAVOUR = {"P": "plain", "K": "clone", "Y": "copy"}


def flavour_of(ty):
    if re.fullmatch(r"[TN][0-9][PKY]", ty):
        return ty[2]
    if ty == "PbK":
        return "K"
    return "P"


# --------------------------------------------------------------------------------------------------
# blueprint walk
# --------------------------------------------------------------------------------------------------
class BpNode:
    """One blueprint in the nesting tree."""

    def __init__(self, ops, parent, prefix, domain, index_path):
        self.ops = ops
        self.parent = parent
        self.prefix = prefix  # concatenated
        self.domain = domain  # effective
        self.index_path = index_path  # tuple of op indexes leading here
        # `import` ops register every constructor of the module (and its submodules) with its annotated lifecycle
        self.ctor_ops = []
        for o in ops:
            if o["k"] == "ctor":
                self.ctor_ops.append(o)
            elif o["k"] == "import":
                for cid, c in sorted(load_catalog().items()):
                    mod = c.get("module") or ""
                    if c["kind"] == "ctor" and (mod == o["module"] or mod.startswith(o["module"] + "::")):
                        self.ctor_ops.append({"k": "ctor", "c": cid, "lc": "request_scoped", "from_import": o["module"]})
        self.prebuilt_ops = [o for o in ops if o["k"] == "prebuilt"]
        self.eh_ops = [o for o in ops if o["k"] == "eh"]
        self.children = []
        self.fallback = None
        self.fallback_chain = None

    def ancestors(self):
        n = self
        while n is not None:
            yield n
            n = n.parent


class RouteInfo:
    def __init__(self, op, node, chain, observers, kind="route"):
        self.op = op
        self.cid = op["c"]
        self.node = node
        self.chain = chain  # list of mw ops (dicts) in registration order
        self.observers = observers  # list of observer ops
        self.kind = kind  # route | fallback
        c = cat(self.cid)
        self.path = (node.prefix or "") + c.get("path", "") if kind == "route" else None
        self.methods = c.get("methods")
        self.domain = node.domain


class Analysis:
    def __init__(self, spec):
        self.spec = spec
        self.routes = []
        self.fallbacks = []
        self.nodes = []
        self.root = self._walk(spec["bp"], None, None, None, (), [], [])

    def _walk(self, bp, parent, prefix, domain, index_path, mw, obs):
        node = BpNode(bp["ops"], parent, prefix, domain, index_path)
        self.nodes.append(node)
        if parent is not None:
            parent.children.append(node)
        mw = list(mw)
        obs = list(obs)
        for i, op in enumerate(bp["ops"]):
            k = op["k"]
            if k in ("pre", "post", "wrap"):
                mw.append(op)
            elif k == "observer":
                obs.append(op)
            elif k == "route":
                self.routes.append(RouteInfo(op, node, list(mw), list(obs)))
            elif k == "routes":
                # bulk import: every route of the module, with the chains as they are at this point
                for cid, c in sorted(load_catalog().items()):
                    if c.get("module") == op["module"] and c["kind"] == "handler":
                        self.routes.append(RouteInfo({"k": "route", "c": cid}, node, list(mw), list(obs)))
            elif k == "fallback":
                node.fallback = op
            elif k == "nest":
                p = op.get("prefix")
                d = op.get("domain")
                np_ = (prefix or "") + p if p else prefix
                nd = d if d else domain
                self._walk(op["bp"], node, np_, nd, index_path + (i,), mw, obs)
        # fallbacks take the chains as they are at the end of their blueprint
        node.end_chain = list(mw)
        node.end_observers = list(obs)
        if node.fallback is not None:
            self.fallbacks.append(RouteInfo(node.fallback, node, list(mw), list(obs), kind="fallback"))
        return node

    # ---- resolution -------------------------------------------------------------------------
    def resolve_ctor(self, node, ty):
        """Nearest enclosing registration for `ty`, last one within a blueprint.
        Returns (op, owner_node) or (None, None)."""
        for n in node.ancestors():
            hits = [o for o in n.ctor_ops if cat(o["c"]).get("out") == ty]
            if hits:
                return hits[-1], n
            pb = [o for o in n.prebuilt_ops if cat(o["c"]).get("out") == ty]
            if pb:
                return pb[-1], n
        return None, None

    def n_registrations_in_chain(self, node, ty):
        return sum(1 for n in node.ancestors() for o in n.ctor_ops if cat(o["c"]).get("out") == ty)

    def resolve_eh(self, node, err_ty, op):
        """Designated error handler for a fallible component registered through `op` in `node`:
        handler attached at registration > specific handler visible from the scope > user handler for
        pavex::Error > framework default (None)."""
        if op.get("eh"):
            return op["eh"]
        for n in node.ancestors():
            hits = [o for o in n.eh_ops if cat(o["c"]).get("err") == err_ty]
            if hits:
                return hits[-1]["c"]
        for n in node.ancestors():
            hits = [o for o in n.eh_ops if cat(o["c"]).get("err") == "pavex::Error"]
            if hits:
                return hits[-1]["c"]
        return None


def lifecycle(op):
    return op.get("lc") or "request_scoped"


def is_cin(op):
    """Effective cloning policy: the registration's, else the annotation's, else never-clone."""
    if op.get("cl") is not None:
        return op["cl"] == "clone_if_necessary"
    return bool(cat(op["c"]).get("annotated_cin")) if op.get("k") == "ctor" else False


# --------------------------------------------------------------------------------------------------
# pipeline of one route
# --------------------------------------------------------------------------------------------------
class Pipeline:
    """Everything the model knows about the request pipeline of one route/fallback."""

    def __init__(self, an, route):
        self.an = an
        self.route = route
        self.node = route.node
        # scopes (Appendix A.3): scope i = pres/posts registered after wrap i (wrap 0 = synthetic)
        self.scopes = [{"pres": [], "posts": [], "wrap": None}]
        for op in route.chain:
            if op["k"] == "wrap":
                self.scopes.append({"pres": [], "posts": [], "wrap": op})
            elif op["k"] == "pre":
                self.scopes[-1]["pres"].append(op)
            else:
                self.scopes[-1]["posts"].append(op)
        self.handler_op = route.op
        # where each middleware was registered (for eh/ctor resolution): find node by identity
        self.op_node = {}
        for n in an.nodes:
            for o in n.ops:
                self.op_node[id(o)] = n
        self._consumers = None

    # components that run for this route, in registration order, with the scope they resolve from
    def components(self):
        out = []
        for sc in self.scopes:
            if sc["wrap"] is not None:
                out.append(sc["wrap"])
            out.extend(sc["pres"])
            out.extend(sc["posts"])
        out.append(self.handler_op)
        return out

    def resolution_node(self, op):
        """Scope from which the inputs of a pipeline component are resolved.
        Middlewares and handlers resolve from the scope of the route (the innermost one)."""
        return self.node

    def fallible(self, op):
        return bool(cat(op["c"]).get("fallible"))


def request_paths_for(route):
    """A concrete request path matching the route's own pattern."""
    p = route.path
    p = re.sub(r"\{\*[a-z_]+\}", "zz/yy", p)
    p = re.sub(r"\{[a-z_]+\}", "zz", p)
    return p


# --------------------------------------------------------------------------------------------------
# dependency analysis of one pipeline (who consumes what, how many instances)
# --------------------------------------------------------------------------------------------------
class Deps:
    """Resolution + consumer multiset for one pipeline, from the route's scope (Appendix A.1/A.5)."""

    def __init__(self, an, P):
        self.an = an
        self.P = P
        self.node = P.node
        self.missing = []  # (consumer id, type)
        self.ctor_of = {}  # type -> (op, owner node)
        self.sites = []  # (consumer cid, consumer kind, type, mode)
        self.roots = []  # pipeline components + their error handlers + observers
        for op in P.components():
            self.roots.append(("comp", op["c"], op))
        for o in P.route.observers:
            self.roots.append(("obs", o["c"], o))
        self.eh_of = {}  # component/ctor id -> designated error handler id or None (framework default)
        for op in P.components():
            c = cat(op["c"])
            if c.get("fallible"):
                n = P.op_node.get(id(op), self.node)
                self.eh_of[op["c"]] = an.resolve_eh(n, c["err"], op)
        self._close()

    def _inputs(self, cid):
        return cat(cid).get("inputs", [])

    def _close(self):
        todo = [cid for _, cid, _ in self.roots]
        seen = set()
        for cid, eh in list(self.eh_of.items()):
            if eh:
                todo.append(eh)
        while todo:
            cid = todo.pop()
            if cid in seen:
                continue
            seen.add(cid)
            kind = cat(cid)["kind"]
            for inp in self._inputs(cid):
                ty = inp["type"]
                self.sites.append((cid, kind, ty, inp["mode"]))
                if ty not in self.ctor_of:
                    op, owner = self.an.resolve_ctor(self.node, ty)
                    if op is None:
                        self.missing.append((cid, ty))
                        continue
                    self.ctor_of[ty] = (op, owner)
                    todo.append(op["c"])
                    c = cat(op["c"])
                    if c.get("fallible"):
                        eh = self.an.resolve_eh(owner, c["err"], op)
                        self.eh_of[op["c"]] = eh
                        if eh:
                            todo.append(eh)
        self.used = seen

    def lifecycle_of(self, ty):
        op, _ = self.ctor_of[ty]
        if op["k"] == "prebuilt":
            return "singleton"
        return lifecycle(op)

    def instances(self, cid, _depth=0):
        """How many times component `cid` runs per request on the all-Ok path (transients fan out)."""
        c = cat(cid)
        if c["kind"] != "ctor":
            return 1
        ty = c["out"]
        if self.lifecycle_of(ty) != "transient":
            return 1
        if _depth > 8:
            return 1
        return sum(self.instances(s[0], _depth + 1) for s in self.sites if s[2] == ty)

    def consumers(self, ty):
        return [(cid, kind, mode, self.instances(cid)) for (cid, kind, t, mode) in self.sites if t == ty]

    def transitive_ctor_ids(self, cid, acc=None):
        acc = acc if acc is not None else set()
        for inp in self._inputs(cid):
            ty = inp["type"]
            if ty in self.ctor_of:
                c = self.ctor_of[ty][0]["c"]
                if c not in acc:
                    acc.add(c)
                    self.transitive_ctor_ids(c, acc)
        return acc


def exclusive_by_value_sites(P, D, ty):
    """True iff the by-value consumers of `ty` are exactly two, each running at most once, and they
    sit on mutually exclusive control-flow paths in the one situation the model understands:
    one is the error handler of a fallible PRE-processing middleware p (it runs only if p fails, and
    then nothing after p inside p's wrapping scope runs), the other is a component that is skipped
    when p fails: a later pre-processor of the same scope, the next wrapping middleware, anything
    deeper, or the request handler — but not a post-processor of p's scope or of an outer scope
    (those still run on the error response)."""
    sites = [(cid, kind, mode, m) for (cid, kind, mode, m) in D.consumers(ty) if mode == "v"]
    if len(sites) != 2 or any(m != 1 for (_, _, _, m) in sites):
        return False
    eh_sites = [s for s in sites if s[1] == "eh"]
    if len(eh_sites) != 1:
        return False
    eh = eh_sites[0][0]
    other = [s for s in sites if s[1] != "eh"][0][0]
    owners = [c for c, h in D.eh_of.items() if h == eh]
    if len(owners) != 1:
        return False
    owner = owners[0]
    # locate the failing pre and the other consumer in the pipeline
    for si, sc in enumerate(P.scopes):
        ids = [o["c"] for o in sc["pres"]]
        if owner in ids:
            later_pres = ids[ids.index(owner) + 1:]
            skipped = set(later_pres)
            for sc2 in P.scopes[si + 1:]:
                if sc2["wrap"] is not None:
                    skipped.add(sc2["wrap"]["c"])
                skipped.update(o["c"] for o in sc2["pres"] + sc2["posts"])
            skipped.add(P.handler_op["c"])
            return other in skipped and ids.count(owner) == 1
    return False


def classify_pipeline(an, P):
    """-> (verdict, reason). verdict in must_accept / must_reject / unspecified (Appendix of C02/C08)."""
    D = Deps(an, P)
    if D.missing:
        return "must_reject", f"missing_constructor:{D.missing[0][1]}"
    rejects = []
    unspecified = []
    for ty, (op, owner) in D.ctor_of.items():
        if op["k"] == "prebuilt":
            continue
        c = cat(op["c"])
        fl = flavour_of(ty)
        lc = lifecycle(op)
        cin = is_cin(op)
        cons = D.consumers(ty)
        n_v = sum(m for (_, _, mode, m) in cons if mode == "v")
        n_r = sum(1 for (_, _, mode, _) in cons if mode == "r")
        n_m = sum(1 for (_, _, mode, _) in cons if mode == "m")
        if any(i["mode"] == "m" for i in c.get("inputs", [])):
            rejects.append("mut_input_on_constructor")
        if cin and fl == "P":
            rejects.append("clone_if_necessary_not_clone")
        if c.get("plant"):
            unspecified.append("plant_component")
        if lc == "singleton":
            for inp in c.get("inputs", []):
                if D.lifecycle_of(inp["type"]) != "singleton":
                    rejects.append("singleton_depends_on_shorter_lifecycle")
            if an.n_registrations_in_chain(P.node, ty) > 1:
                unspecified.append("singleton_registered_at_several_levels")
            if n_m:
                rejects.append("mut_ref_to_singleton")
            if c.get("fallible") and op.get("eh"):
                # "You can't register an error handler for a singleton constructor": pavexc's own rule, not among the
                # documented ones the class predicate is written from -> outside the class, not judged
                unspecified.append("fallible_singleton_with_attached_error_handler")
            # by-value consumers at request time need Copy or clone-if-necessary; a move into another
            # singleton's constructor happens once, while the application state is built
            def at_build_time(cid):
                cc = cat(cid)
                return cc["kind"] == "ctor" and D.lifecycle_of(cc["out"]) == "singleton"
            runtime_v = sum(m for (cid, kind, mode, m) in cons if mode == "v" and not at_build_time(cid))
            build_v = sum(1 for (cid, kind, mode, m) in cons if mode == "v" and at_build_time(cid))
            clonable = fl == "Y" or (fl == "K" and cin)
            if runtime_v and not clonable:
                rejects.append("singleton_by_value_not_clonable")
            elif build_v and not clonable and (build_v > 1 or n_r or runtime_v):
                unspecified.append("singleton_moved_at_build_time_and_used_elsewhere")
        elif lc == "transient":
            if n_m:
                rejects.append("mut_ref_to_transient")
        else:
            if n_m:
                if fl == "K" and cin:
                    rejects.append("mut_ref_to_cloneable_request_scoped")
                else:
                    unspecified.append("mut_ref_to_request_scoped")
            if fl == "Y" or (fl == "K" and cin):
                pass
            elif n_v == 0 or (n_v == 1 and n_r == 0 and n_m == 0):
                pass
            elif n_r == 0 and n_m == 0 and exclusive_by_value_sites(P, D, ty):
                pass  # moved into exactly one consumer on every control-flow path
            else:
                unspecified.append("non_trivial_ownership")
    # observers cannot depend (transitively) on fallible constructors
    for o in P.route.observers:
        for cid in D.transitive_ctor_ids(o["c"]):
            # a fallible SINGLETON is built (or fails) while the application state is built: at request time it is a
            # plain input, so an observer may depend on it
            if cat(cid).get("fallible") and D.lifecycle_of(cat(cid)["out"]) != "singleton":
                rejects.append("observer_depends_on_fallible_constructor")
    # error handlers that need the value whose construction failed: outside the class
    for cid, eh in D.eh_of.items():
        if eh and cat(cid)["kind"] == "ctor":
            if cid in D.transitive_ctor_ids(eh):
                unspecified.append("error_handler_depends_on_failed_value")
    rejects = sorted(set(rejects))
    if len(rejects) == 1 and not unspecified:
        return "must_reject", rejects[0]
    if rejects:
        return "unspecified", "several_or_mixed:" + ",".join(rejects + sorted(set(unspecified)))
    if unspecified:
        return "unspecified", ",".join(sorted(set(unspecified)))
    return "must_accept", ""


def classify_spec(an):
    """Static verdict of a whole spec = conjunction over its pipelines (routes + fallbacks)."""
    verdicts = []
    for r in an.routes + an.fallbacks:
        verdicts.append(classify_pipeline(an, Pipeline(an, r)))
    if not an.routes:
        return "unspecified", "no_route"
    rej = [v for v in verdicts if v[0] == "must_reject"]
    uns = [v for v in verdicts if v[0] == "unspecified"]
    if uns:
        return "unspecified", uns[0][1]
    if rej:
        rules = sorted({r[1] for r in rej})
        if len(rules) == 1:
            return "must_reject", rules[0]
        return "unspecified", "several:" + ",".join(rules)
    return "must_accept", ""


# --------------------------------------------------------------------------------------------------
# simulation of the call sequence of one request (Appendix A.3/A.4)
# --------------------------------------------------------------------------------------------------
ERR_DISPLAY = {"ErrC": "ErrC", "ErrH": "ErrH", "ErrPre": "ErrPre", "ErrPost": "ErrPost", "ErrW": "ErrW"}


class Sim:
    def __init__(self, an, P, plan, inject=None):
        """inject: None | ("START", ctor_id) | (op, ctor_id): the (planned) failure of constructor
        `ctor_id` surfaces when the pipeline is about to invoke component `op`."""
        self.an = an
        self.P = P
        self.D = Deps(an, P)
        self.plan = set(plan)
        self.inject = inject
        self.ev = []
        self.resp = None

    def handled(self, failing_cid, node, op):
        c = cat(failing_cid)
        eh = self.D.eh_of.get(failing_cid)
        if failing_cid not in self.D.eh_of:
            eh = self.an.resolve_eh(node, c["err"], op)
        err = f"{c['err']}({failing_cid})"
        if eh:
            self.ev.append(("eh", eh, err))
        for o in self.P.route.observers:
            self.ev.append(("obs", o["c"], err))
        if eh:
            e = cat(eh)
            return {"status": 511 if e["err"] == "pavex::Error" else 510, "body": f"eh:{eh}"}
        return {"status": 500, "body": None}

    def _inject_here(self, op):
        if self.inject is None or self.inject[0] == "START":
            return None
        if self.inject[0] == "EVERY":
            # a failing TRANSIENT constructor: every component whose inputs need it (directly or through
            # other constructors) gets its own instance, so every one of them fails when it is reached
            ctor_id = self.inject[1]
            if ctor_id in self.D.transitive_ctor_ids(op["c"]):
                ty = cat(ctor_id)["out"]
                cop, owner = self.D.ctor_of[ty]
                return self.handled(ctor_id, owner, cop)
            return None
        if self.inject[0] is op:
            ctor_id = self.inject[1]
            ty = cat(ctor_id)["out"]
            cop, owner = self.D.ctor_of[ty]
            return self.handled(ctor_id, owner, cop)
        return None

    def call(self, op, kind, inner=None, resp=None):
        """-> ("ok"|"early"|"err", response)"""
        cid = op["c"]
        node = self.P.op_node.get(id(op), self.P.node)
        inj = self._inject_here(op)
        if inj is not None:
            return "err", inj
        self.ev.append((kind, cid))
        fallible = cat(cid).get("fallible")
        if fallible and f"fail:{cid}" in self.plan:
            return "err", self.handled(cid, node, op)
        if kind == "pre":
            if f"early:{cid}" in self.plan:
                return "early", {"status": 200, "body": f"early:{cid}"}
            return "ok", None
        if kind == "wrap":
            r = inner()
            self.ev.append(("wrapexit", cid))
            if fallible and f"failafter:{cid}" in self.plan:
                return "err", self.handled(cid, node, op)
            return "ok", r
        if kind == "post":
            return "ok", resp
        if kind == "handler":
            return "ok", {"status": 200, "body": f"h:{cid}"}
        if kind == "fallback":
            return "ok", {"status": None, "body": f"fb:{cid}"}
        raise AssertionError(kind)

    def run_scope(self, i):
        sc = self.P.scopes[i]
        resp = None
        done = False
        for p in sc["pres"]:
            out, r = self.call(p, "pre")
            if out != "ok":
                resp, done = r, True
                break
        if not done:
            if i + 1 < len(self.P.scopes):
                nxt = self.P.scopes[i + 1]["wrap"]
                out, r = self.call(nxt, "wrap", inner=lambda: self.run_scope(i + 1))
                resp = r
            else:
                kind = "handler" if self.P.route.kind == "route" else "fallback"
                out, r = self.call(self.P.handler_op, kind)
                resp = r
        for q in sc["posts"]:
            out, r = self.call(q, "post", resp=resp)
            resp = r
        return resp

    def run(self):
        if self.inject is not None and self.inject[0] == "START":
            ctor_id = self.inject[1]
            ty = cat(ctor_id)["out"]
            cop, owner = self.D.ctor_of[ty]
            self.resp = self.handled(ctor_id, owner, cop)
        else:
            self.resp = self.run_scope(0)
        return self.ev, self.resp


def acceptable_runs(an, P, plan):
    """All (event sequence, response) pairs the model accepts for this plan (A.4: the point at which
    a failing constructor surfaces is unspecified up to its first consumer)."""
    D = Deps(an, P)
    failing_ctors = [cid for cid in D.used if cat(cid)["kind"] == "ctor" and cat(cid).get("fallible")
                     and f"fail:{cid}" in plan]
    if not failing_ctors:
        return [Sim(an, P, plan).run()]
    if len(failing_ctors) > 1:
        return None  # not modelled
    ctor_id = failing_ctors[0]
    if D.lifecycle_of(cat(ctor_id)["out"]) == "transient":
        # error handlers / observers that need the transient themselves are outside the model
        users = [cid for (cid, kind, ty, mode) in D.sites if ty == cat(ctor_id)["out"] and kind in ("eh", "obs")]
        if users:
            return None
        return [Sim(an, P, plan, inject=("EVERY", ctor_id)).run()]
    out = [Sim(an, P, plan, inject=("START", ctor_id)).run()]
    for op in P.components():
        out.append(Sim(an, P, plan, inject=(op, ctor_id)).run())
    # error handlers may also consume the value: then the failure can surface inside `handled` of
    # another failure; with a single planned failure this cannot happen.
    return out


# --------------------------------------------------------------------------------------------------
# request script
# --------------------------------------------------------------------------------------------------
def fault_plans(an, P, max_plans=None):
    D = Deps(an, P)
    plans = [[]]
    for op in P.components():
        cid = op["c"]
        c = cat(cid)
        if c.get("fallible"):
            plans.append([f"fail:{cid}"])
            if c["kind"] == "wrap":
                plans.append([f"failafter:{cid}"])
        if c["kind"] == "pre":
            plans.append([f"early:{cid}"])
    for cid in sorted(D.used):
        c = cat(cid)
        if c["kind"] == "ctor" and c.get("fallible") and D.lifecycle_of(c["out"]) != "singleton":
            plans.append([f"fail:{cid}"])
    return plans


def request_script(an):
    """[{method, path, host, plan, route(index)|None, kind}] — two fault-free requests per route
    first (per-request lifecycles), then one request per single-fault plan, then a fallback probe."""
    reqs = []
    for ri, r in enumerate(an.routes):
        P = Pipeline(an, r)
        path = request_paths_for(r)
        method = "GET" if r.methods in ("ANY", "ANYNS") else r.methods[0]
        plans = fault_plans(an, P)
        reqs.append({"method": method, "path": path, "plan": [], "route": ri, "kind": "route"})
        for pl in plans:
            reqs.append({"method": method, "path": path, "plan": pl, "route": ri, "kind": "route"})
    return reqs


# --------------------------------------------------------------------------------------------------
# trace parsing
# --------------------------------------------------------------------------------------------------
TAG_RE = re.compile(r"([A-Za-z0-9<>]+)#(\d+)/(\d+)/([A-Z0-9_]+)/([co])")


def parse_tags(s):
    return [{"type": m.group(1), "id": int(m.group(2)), "root": int(m.group(3)), "by": m.group(4),
             "cloned": m.group(5) == "c"} for m in TAG_RE.finditer(s)]


def parse_trace(lines):
    out = []
    for l in lines:
        parts = l.split(" ")
        k = parts[0]
        if k == "new":
            kv = dict(p.split("=", 1) for p in parts[2:] if "=" in p)
            out.append({"e": "new", "type": parts[1], "id": int(kv["id"]), "by": kv["by"], "ins": parse_tags(kv.get("in", ""))})
        elif k == "clone":
            kv = dict(p.split("=", 1) for p in parts[2:] if "=" in p)
            out.append({"e": "clone", "type": parts[1], "src": int(kv["src"]), "id": int(kv["new"]), "root": int(kv["root"]), "by": kv["by"]})
        elif k == "call":
            rest = " ".join(parts[3:])
            m = re.search(r"in=\[(.*)\]$", rest)
            err = re.search(r"err=(.*?) in=\[", rest)
            allowed = re.search(r"allowed=(\S*)", rest)
            params = re.search(r"params=(\S*)", rest)
            out.append({"e": "call", "kind": parts[1], "cid": parts[2], "ins": parse_tags(m.group(1) if m else ""),
                        "err": err.group(1) if err else None, "allowed": allowed.group(1) if allowed else None,
                        "params": params.group(1) if params else None})
        elif k == "wrapexit":
            out.append({"e": "wrapexit", "cid": parts[1]})
        elif k == "fail":
            out.append({"e": "failctor", "cid": parts[2]})
        elif k == "err":
            out.append({"e": "err", "type": parts[1]})
    return out


def call_sequence(events):
    seq = []
    for ev in events:
        if ev["e"] == "call":
            if ev["kind"] in ("eh", "obs"):
                seq.append((ev["kind"], ev["cid"], ev["err"]))
            else:
                seq.append((ev["kind"], ev["cid"]))
        elif ev["e"] == "wrapexit":
            seq.append(("wrapexit", ev["cid"]))
    return seq
