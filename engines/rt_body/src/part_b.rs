//! Part B: loopback. A real `pavex::server::Server` on 127.0.0.1:0 whose handler calls the public
//! `BufferedBody::extract` (BodySizeLimit::Enabled / Disabled) and the JSON / form extractors; a raw
//! `std::net::TcpStream` client controls the HTTP/1.1 framing (chunked transfer encoding, every
//! chunking of the body; or plain Content-Length framing with every split into TCP writes).
use crate::model::*;
use crate::part_a::{map_result, run_form, run_json};
use pavex::Response;
use pavex::connection::ConnectionInfo;
use pavex::request::RequestHead;
use pavex::request::body::{BodySizeLimit, BufferedBody, RawIncomingBody};
use pavex::server::{IncomingStream, Server, ServerConfiguration, ShutdownMode};
use pavex::unit::ByteUnit;
use serde_json::{Value, json};
use std::collections::BTreeMap;
use std::io::{Read, Write};
use std::net::SocketAddr;
use std::sync::atomic::{AtomicUsize, Ordering};
use std::time::Duration;

#[derive(Debug, Clone)]
pub struct BoundsB {
    /// limits 0..=max_n plus "off" (Disabled)
    pub max_n: u64,
    /// body lengths for the Disabled configuration: 0..=off_max_len
    pub off_max_len: usize,
    pub families: Vec<&'static str>,
    pub write_modes: Vec<WriteMode>,
}

#[derive(Debug, Clone, Copy, PartialEq, Eq)]
pub enum WriteMode {
    /// the whole request in one `write_all`
    Single,
    /// TCP_NODELAY, one `write_all` per piece (head, each chunk, terminator)
    PerPiece,
}

#[derive(Debug, Clone, PartialEq, Eq)]
pub enum Framing {
    /// `Transfer-Encoding: chunked`; `pieces` are the chunk sizes (all > 0)
    Chunked,
    /// `Content-Length: <len>` only; `pieces` are the sizes of the separate TCP writes of the body
    LengthOnly,
    /// HTTP/2 (prior knowledge, hyper client): `pieces` are the sizes of the DATA frames handed to the client
    /// connection; `cl_before` empty = no content-length header (the body is delimited by END_STREAM),
    /// `cl_before == [len]` = the length is announced
    H2,
}

#[derive(Debug, Clone)]
pub struct CaseB {
    pub limit: Option<u64>,
    pub family: String,
    pub body: Vec<u8>,
    pub framing: Framing,
    pub pieces: Vec<usize>,
    pub trailers: bool,
    pub cl_label: String,
    /// Content-Length header lines placed before `Transfer-Encoding` (hyper keeps these)
    pub cl_before: Vec<String>,
    /// Content-Length header lines placed after `Transfer-Encoding` (hyper drops these)
    pub cl_after: Vec<String>,
    pub write_mode: WriteMode,
}

impl CaseB {
    pub fn to_json(&self) -> Value {
        json!({
            "part": "B",
            "limit": match self.limit { Some(n) => json!(n), None => json!("off") },
            "family": self.family,
            "body_hex": hex(&self.body),
            "framing": match self.framing { Framing::Chunked => "chunked", Framing::LengthOnly => "content-length-only", Framing::H2 => "h2" },
            "pieces": self.pieces,
            "trailers": self.trailers,
            "content_length_label": self.cl_label,
            "content_length_before_te": self.cl_before,
            "content_length_after_te": self.cl_after,
            "write_mode": match self.write_mode { WriteMode::Single => "single", WriteMode::PerPiece => "per-piece" },
        })
    }
    pub fn from_json(v: &Value) -> CaseB {
        let s = |k: &str| {
            v.get(k)
                .and_then(|x| x.as_str())
                .unwrap_or_else(|| verif_common::machinery_error(&format!("replay case lacks string `{k}`")))
                .to_string()
        };
        let strs = |k: &str| -> Vec<String> {
            v.get(k)
                .and_then(|x| x.as_array())
                .map(|a| a.iter().map(|x| x.as_str().unwrap_or("").to_string()).collect())
                .unwrap_or_default()
        };
        CaseB {
            limit: v.get("limit").and_then(|x| x.as_u64()),
            family: s("family"),
            body: unhex(&s("body_hex")),
            framing: match s("framing").as_str() { "chunked" => Framing::Chunked, "h2" => Framing::H2, _ => Framing::LengthOnly },
            pieces: v
                .get("pieces")
                .and_then(|x| x.as_array())
                .map(|a| a.iter().map(|x| x.as_u64().unwrap_or(0) as usize).collect())
                .unwrap_or_default(),
            trailers: v.get("trailers").and_then(|x| x.as_bool()).unwrap_or(false),
            cl_label: s("content_length_label"),
            cl_before: strs("content_length_before_te"),
            cl_after: strs("content_length_after_te"),
            write_mode: if s("write_mode") == "per-piece" { WriteMode::PerPiece } else { WriteMode::Single },
        }
    }

    /// The Content-Length values the *handler* can see at most (what the client put on the wire
    /// where the HTTP stack keeps it). Used for the reference classification.
    fn cl_values_for_class(&self) -> Vec<Vec<u8>> {
        self.cl_before
            .iter()
            .chain(self.cl_after.iter())
            .map(|s| s.as_bytes().to_vec())
            .collect()
    }

    fn wire_pieces(&self) -> Vec<Vec<u8>> {
        let mut head = String::new();
        head.push_str("POST /c14 HTTP/1.1\r\nHost: verif\r\nConnection: close\r\n");
        head.push_str(&format!(
            "x-verif-limit: {}\r\n",
            match self.limit {
                Some(n) => n.to_string(),
                None => "off".into(),
            }
        ));
        for v in &self.cl_before {
            head.push_str(&format!("Content-Length: {v}\r\n"));
        }
        if self.framing == Framing::Chunked {
            head.push_str("Transfer-Encoding: chunked\r\n");
        }
        for v in &self.cl_after {
            head.push_str(&format!("Content-Length: {v}\r\n"));
        }
        if self.trailers {
            head.push_str("Trailer: x-trailer\r\n");
        }
        head.push_str("\r\n");
        let mut out = vec![head.into_bytes()];
        let mut off = 0;
        for &k in &self.pieces {
            let data = &self.body[off..off + k];
            off += k;
            match self.framing {
                Framing::Chunked => {
                    let mut p = format!("{k:x}\r\n").into_bytes();
                    p.extend_from_slice(data);
                    p.extend_from_slice(b"\r\n");
                    out.push(p);
                }
                Framing::LengthOnly | Framing::H2 => out.push(data.to_vec()),
            }
        }
        if off != self.body.len() {
            verif_common::machinery_error("pieces do not cover the body");
        }
        if self.framing == Framing::Chunked {
            let mut t = b"0\r\n".to_vec();
            if self.trailers {
                t.extend_from_slice(b"x-trailer: 1\r\n");
            }
            t.extend_from_slice(b"\r\n");
            out.push(t);
        }
        out
    }
}

// ---------------------------------------------------------------------------------------------
// server side

async fn handler(req: http::Request<hyper::body::Incoming>, _c: Option<ConnectionInfo>, _s: ()) -> Response {
    let (parts, body) = req.into_parts();
    let head = RequestHead::from(parts);
    let limit = match head.headers.get("x-verif-limit").and_then(|v| v.to_str().ok()) {
        Some("off") => BodySizeLimit::Disabled,
        Some(s) => match s.parse::<u64>() {
            Ok(n) => BodySizeLimit::Enabled { max_size: ByteUnit::Byte(n) },
            Err(_) => return Response::bad_request().set_typed_body("harness: bad x-verif-limit".to_string()),
        },
        None => return Response::bad_request().set_typed_body("harness: missing x-verif-limit".to_string()),
    };
    let r = BufferedBody::extract(&head, RawIncomingBody::from(body), limit).await;
    let (outcome, b) = map_result(r);
    let text = match (&outcome, &b) {
        (Outcome::Ok(bytes), Some(b)) => {
            let enc = |r: ExRes| match r {
                Ok(s) => format!("ok:{}", hex(s.as_bytes())),
                Err(e) => format!("err:{e}"),
            };
            format!("OK\nlen={}\nhex={}\njson={}\nform={}\n", bytes.len(), hex(bytes), enc(run_json(b)), enc(run_form(b)))
        }
        (Outcome::SizeLimit { max, cl }, _) => format!(
            "LIMIT\nmax={max}\ncl={}\n",
            match cl {
                Some(v) => v.to_string(),
                None => "none".into(),
            }
        ),
        (Outcome::Unexpected(m), _) => format!("UNEXPECTED\nmsg={}\n", hex(m.as_bytes())),
        _ => "OTHER\n".to_string(),
    };
    Response::ok()
        .insert_header(http::HeaderName::from_static("x-verif"), http::HeaderValue::from_static("1"))
        .set_typed_body(text)
}

pub struct TestServer {
    rt: tokio::runtime::Runtime,
    handle: Option<pavex::server::ServerHandle>,
    pub addrs: Vec<SocketAddr>,
}

impl TestServer {
    pub fn start(n_listeners: usize, n_workers: usize) -> TestServer {
        // The listeners are registered with this runtime's IO driver, so it must stay alive (and
        // be driven by its own worker thread) for as long as the server runs.
        let rt = tokio::runtime::Builder::new_multi_thread()
            .worker_threads(1)
            .enable_all()
            .build()
            .unwrap_or_else(|e| verif_common::machinery_error(&format!("cannot build tokio runtime: {e}")));
        let (handle, addrs) = rt.block_on(async {
            let mut server = Server::new().set_config(ServerConfiguration::new().set_n_workers(n_workers));
            let mut addrs = Vec::new();
            for _ in 0..n_listeners {
                let inc = IncomingStream::bind("127.0.0.1:0".parse().unwrap())
                    .await
                    .unwrap_or_else(|e| verif_common::machinery_error(&format!("cannot bind loopback listener: {e}")));
                addrs.push(inc.local_addr().unwrap());
                server = server.listen(inc);
            }
            (server.serve(handler, ()), addrs)
        });
        TestServer { rt, handle: Some(handle), addrs }
    }
    pub fn stop(mut self) {
        if let Some(h) = self.handle.take() {
            let _ = self.rt.block_on(async { tokio::time::timeout(Duration::from_secs(5), h.shutdown(ShutdownMode::Forced)).await });
        }
    }
}

// ---------------------------------------------------------------------------------------------
// client side

#[derive(Debug, Clone)]
pub struct RunB {
    pub outcome: Outcome,
    pub json: Option<ExRes>,
    pub form: Option<ExRes>,
    pub status: u16,
    pub attempts: usize,
}

/// A request body made of the given DATA frames; the exact size is announced (=> content-length header) or not.
struct FramesBody {
    frames: std::collections::VecDeque<bytes::Bytes>,
    announce: Option<u64>,
}

impl hyper::body::Body for FramesBody {
    type Data = bytes::Bytes;
    type Error = std::convert::Infallible;
    fn poll_frame(
        mut self: std::pin::Pin<&mut Self>,
        _cx: &mut std::task::Context<'_>,
    ) -> std::task::Poll<Option<Result<hyper::body::Frame<Self::Data>, Self::Error>>> {
        std::task::Poll::Ready(self.frames.pop_front().map(|b| Ok(hyper::body::Frame::data(b))))
    }
    fn is_end_stream(&self) -> bool {
        self.frames.is_empty()
    }
    fn size_hint(&self) -> hyper::body::SizeHint {
        match self.announce {
            Some(n) => hyper::body::SizeHint::with_exact(n),
            None => hyper::body::SizeHint::default(),
        }
    }
}

thread_local! {
    static H2_RT: tokio::runtime::Runtime = tokio::runtime::Builder::new_current_thread().enable_all().build()
        .unwrap_or_else(|e| verif_common::machinery_error(&format!("cannot build the HTTP/2 client runtime: {e}")));
}

/// One request over HTTP/2 with prior knowledge; the answer is re-rendered as an HTTP/1.1 response so that the rest
/// of Part B (parse_response, the handler's text protocol) is shared.
fn exchange_h2(addr: SocketAddr, case: &CaseB) -> Result<Vec<u8>, String> {
    use http_body_util::BodyExt;
    let mut frames = std::collections::VecDeque::new();
    let mut off = 0;
    for &k in &case.pieces {
        frames.push_back(bytes::Bytes::copy_from_slice(&case.body[off..off + k]));
        off += k;
    }
    let announce = case.cl_before.first().and_then(|v| v.parse::<u64>().ok());
    let limit = match case.limit {
        Some(n) => n.to_string(),
        None => "off".into(),
    };
    H2_RT.with(|rt| {
        rt.block_on(async {
            let stream = tokio::net::TcpStream::connect(addr).await.map_err(|e| format!("connect: {e}"))?;
            let io = hyper_util::rt::TokioIo::new(stream);
            let (mut sender, conn) = hyper::client::conn::http2::handshake(hyper_util::rt::TokioExecutor::new(), io)
                .await
                .map_err(|e| format!("h2 handshake: {e}"))?;
            let conn_task = tokio::spawn(conn);
            let req = http::Request::builder()
                .method("POST")
                .uri(format!("http://{addr}/c14"))
                .header("x-verif-limit", limit)
                .body(FramesBody { frames, announce })
                .map_err(|e| format!("request: {e}"))?;
            let resp = tokio::time::timeout(Duration::from_secs(10), sender.send_request(req))
                .await
                .map_err(|_| "h2 request timed out".to_string())?
                .map_err(|e| format!("h2 send: {e:?}"))?;
            let status = resp.status().as_u16();
            let marker = resp.headers().get("x-verif").map(|v| v == "1").unwrap_or(false);
            let body = tokio::time::timeout(Duration::from_secs(10), resp.into_body().collect())
                .await
                .map_err(|_| "h2 response body timed out".to_string())?
                .map_err(|e| format!("h2 body: {e:?}"))?
                .to_bytes();
            drop(sender);
            conn_task.abort();
            let mut raw = format!("HTTP/1.1 {status} X\r\n{}content-length: {}\r\n\r\n", if marker { "x-verif: 1\r\n" } else { "" }, body.len()).into_bytes();
            raw.extend_from_slice(&body);
            Ok(raw)
        })
    })
}

fn exchange(addr: SocketAddr, case: &CaseB) -> Result<Vec<u8>, String> {
    if case.framing == Framing::H2 {
        return exchange_h2(addr, case);
    }
    let mut s = std::net::TcpStream::connect(addr).map_err(|e| format!("connect: {e}"))?;
    s.set_read_timeout(Some(Duration::from_secs(10))).ok();
    s.set_write_timeout(Some(Duration::from_secs(10))).ok();
    let pieces = case.wire_pieces();
    match case.write_mode {
        WriteMode::Single => {
            let all: Vec<u8> = pieces.concat();
            // A server that answers early may reset the connection; what counts is the response.
            let _ = s.write_all(&all);
        }
        WriteMode::PerPiece => {
            s.set_nodelay(true).ok();
            for p in &pieces {
                if p.is_empty() {
                    continue;
                }
                if s.write_all(p).is_err() {
                    break;
                }
                let _ = s.flush();
            }
        }
    }
    let mut resp = Vec::new();
    let mut buf = [0u8; 4096];
    loop {
        match s.read(&mut buf) {
            Ok(0) => break,
            Ok(n) => resp.extend_from_slice(&buf[..n]),
            Err(e) if e.kind() == std::io::ErrorKind::ConnectionReset => break,
            Err(e) => return Err(format!("read: {e}")),
        }
    }
    Ok(resp)
}

struct ParsedResp {
    status: u16,
    marker: bool,
    body: Vec<u8>,
}

fn parse_response(raw: &[u8]) -> Result<ParsedResp, String> {
    let pos = raw.windows(4).position(|w| w == b"\r\n\r\n").ok_or("incomplete response head")?;
    let head = std::str::from_utf8(&raw[..pos]).map_err(|_| "non-UTF-8 response head")?;
    let mut lines = head.split("\r\n");
    let status_line = lines.next().ok_or("empty response")?;
    let status: u16 = status_line
        .split(' ')
        .nth(1)
        .and_then(|s| s.parse().ok())
        .ok_or_else(|| format!("bad status line {status_line:?}"))?;
    let mut marker = false;
    let mut clen: Option<usize> = None;
    let mut chunked = false;
    for l in lines {
        let Some((k, v)) = l.split_once(':') else { continue };
        let k = k.trim().to_ascii_lowercase();
        let v = v.trim();
        match k.as_str() {
            "x-verif" => marker = v == "1",
            "content-length" => clen = v.parse().ok(),
            "transfer-encoding" => chunked = true,
            _ => {}
        }
    }
    if chunked {
        return Err("unexpected chunked response".into());
    }
    let body = raw[pos + 4..].to_vec();
    if let Some(c) = clen
        && body.len() != c
    {
        return Err(format!("truncated response body: {} of {c} bytes", body.len()));
    }
    Ok(ParsedResp { status, marker, body })
}

fn field<'a>(text: &'a str, name: &str) -> Option<&'a str> {
    text.lines().find_map(|l| l.strip_prefix(name).and_then(|r| r.strip_prefix('=')))
}

fn dec_exres(s: &str) -> Option<ExRes> {
    if let Some(h) = s.strip_prefix("ok:") {
        Some(Ok(String::from_utf8_lossy(&unhex(h)).to_string()))
    } else {
        s.strip_prefix("err:").map(|e| Err(e.to_string()))
    }
}

pub fn run_case(addr: SocketAddr, case: &CaseB) -> RunB {
    let mut last_err = String::new();
    for attempt in 1..=5 {
        let raw = match exchange(addr, case) {
            Ok(r) => r,
            Err(e) => {
                last_err = e;
                continue;
            }
        };
        let p = match parse_response(&raw) {
            Ok(p) => p,
            Err(e) => {
                last_err = format!("{e} (got {} bytes)", raw.len());
                continue;
            }
        };
        if !p.marker {
            return RunB { outcome: Outcome::TransportReject(p.status), json: None, form: None, status: p.status, attempts: attempt };
        }
        let text = String::from_utf8_lossy(&p.body).to_string();
        let bad = || -> ! { verif_common::machinery_error(&format!("handler response not understood: {text:?}")) };
        let first = text.lines().next().unwrap_or("");
        let (outcome, json, form) = match first {
            "OK" => {
                let bytes = unhex(field(&text, "hex").unwrap_or_else(|| bad()));
                let len: usize = field(&text, "len").and_then(|s| s.parse().ok()).unwrap_or_else(|| bad());
                if len != bytes.len() {
                    bad();
                }
                (
                    Outcome::Ok(bytes),
                    field(&text, "json").and_then(dec_exres),
                    field(&text, "form").and_then(dec_exres),
                )
            }
            "LIMIT" => (
                Outcome::SizeLimit {
                    max: field(&text, "max").and_then(|s| s.parse().ok()).unwrap_or_else(|| bad()),
                    cl: field(&text, "cl").and_then(|s| s.parse().ok()),
                },
                None,
                None,
            ),
            "UNEXPECTED" => (
                Outcome::Unexpected(String::from_utf8_lossy(&unhex(field(&text, "msg").unwrap_or(""))).to_string()),
                None,
                None,
            ),
            _ => bad(),
        };
        return RunB { outcome, json, form, status: p.status, attempts: attempt };
    }
    verif_common::machinery_error(&format!(
        "loopback exchange failed 5 times for case {}: {last_err}",
        case.to_json()
    ))
}

pub fn check(case: &CaseB, run: &RunB) -> Vec<(String, String)> {
    let class = classify(&case.cl_values_for_class(), case.limit, case.body.len());
    let mut v = Vec::new();
    if let Outcome::TransportReject(status) = run.outcome {
        // hyper itself refuses requests whose Content-Length is not a number or has conflicting
        // values; the handler never runs, nothing is handed to the application. Anything else is
        // a malformed request produced by the harness.
        let vals = case.cl_values_for_class();
        let unparsable = vals.iter().any(|v| std::str::from_utf8(v).ok().and_then(|s| s.parse::<u64>().ok()).is_none());
        if class != ClClass::Garbage && !unparsable {
            verif_common::machinery_error(&format!("HTTP stack rejected a request the harness believes well-formed (status {status}): {}", case.to_json()));
        }
        return v;
    }
    if let Some((kind, what)) = judge(case.limit, &case.body, true, class, &run.outcome) {
        v.push((format!("loopback:{kind}"), format!("{what}; Content-Length class {}", class.as_str())));
    }
    if let Outcome::Ok(_) = &run.outcome {
        let rj = ref_json(&case.body);
        if run.json.as_ref() != Some(&rj) {
            v.push(("loopback:json-extractor-differs".to_string(), format!("JsonBody in the handler gave {:?}, parsing the sent bytes gives {:?}", run.json, rj)));
        }
        let rf = ref_form(&case.body);
        if run.form.as_ref() != Some(&rf) {
            v.push(("loopback:form-extractor-differs".to_string(), format!("UrlEncodedBody in the handler gave {:?}, parsing the sent bytes gives {:?}", run.form, rf)));
        }
    }
    v
}

#[derive(Default)]
pub struct AccB {
    pub evaluations: u64,
    pub nontrivial: u64,
    pub hist: BTreeMap<String, u64>,
    pub bucket_sample: BTreeMap<String, (usize, Value)>,
    /// per key the smallest violating case: ordered by (body length + pieces + header lines, index)
    pub violations: BTreeMap<String, ((usize, usize), String, Value)>,
    pub violating_cases: u64,
    pub transport_retries: u64,
    pub transport_rejects: u64,
    pub disabled_cases: u64,
    pub head_samples: Vec<Value>,
    pub history_dependent_unattributed: u64,
}

// ---------------------------------------------------------------------------------------------
// Part B2: request SEQUENCES on one worker. Every ordered pair (first, second) over the chunked
// bodies of one limit, `first` sent completely or abandoned (connection closed after the head and
// the first chunk); each pair is served by a FRESH server with one worker, so the pair is the whole
// history of that worker thread. `second` is judged by the oracle of Part B.

#[derive(Default)]
pub struct AccB2 {
    pub cases: usize,
    pub pairs: u64,
    pub abandoned_firsts: u64,
    pub violations: BTreeMap<String, (usize, String, Value)>,
}

fn exchange_abandoned(addr: SocketAddr, case: &CaseB, n_pieces: usize) {
    if let Ok(mut s) = std::net::TcpStream::connect(addr) {
        s.set_nodelay(true).ok();
        for p in case.wire_pieces().iter().take(n_pieces) {
            if !p.is_empty() && s.write_all(p).is_err() {
                break;
            }
            let _ = s.flush();
        }
        std::thread::sleep(Duration::from_millis(15));
        drop(s);
        std::thread::sleep(Duration::from_millis(15));
    }
}

fn pair_on_fresh_server(first: &CaseB, abandoned: bool, second: &CaseB) -> (RunB, Vec<(String, String)>) {
    let server = TestServer::start(1, 1);
    let addr = server.addrs[0];
    if abandoned {
        exchange_abandoned(addr, first, 2);
    } else {
        let _ = run_case(addr, first);
    }
    let run = run_case(addr, second);
    let v = check(second, &run);
    server.stop();
    (run, v)
}

pub fn run_sequences(b: &BoundsB, threads: usize, quick: bool) -> AccB2 {
    let limit = 3u64.min(b.max_n);
    let cases: Vec<CaseB> = enumerate(b)
        .into_iter()
        .filter(|c| {
            c.limit == Some(limit) && matches!(c.framing, Framing::Chunked) && c.cl_before.is_empty() && c.cl_after.is_empty() && !c.trailers
                && matches!(c.write_mode, WriteMode::PerPiece) && c.family == b.families[0]
                // quick: the empty body, and the bodies of length N and N+1 in one chunk, 1 + rest, rest + 1
                && (!quick
                    || c.body.is_empty()
                    || ((c.body.len() as u64 == limit || c.body.len() as u64 == limit + 1)
                        && (c.pieces.len() == 1 || (c.pieces.len() == 2 && (c.pieces[0] == 1 || c.pieces[1] == 1)))))
        })
        .collect();
    let n = cases.len();
    let next = AtomicUsize::new(0);
    let mut total = AccB2 { cases: n, ..Default::default() };
    std::thread::scope(|s| {
        let handles: Vec<_> = (0..threads.max(1))
            .map(|_| {
                s.spawn(|| {
                    let mut acc = AccB2::default();
                    loop {
                        let i = next.fetch_add(1, Ordering::SeqCst);
                        if i >= n * 2 {
                            break;
                        }
                        let (first, abandoned) = (&cases[i / 2], i % 2 == 1);
                        if abandoned && first.pieces.is_empty() {
                            continue;
                        }
                        if abandoned {
                            acc.abandoned_firsts += 1;
                        }
                        for second in &cases {
                            let (run, viol) = pair_on_fresh_server(first, abandoned, second);
                            acc.pairs += 1;
                            if viol.is_empty() {
                                continue;
                            }
                            let mut reproduced = None;
                            for _ in 0..3 {
                                let (run2, viol2) = pair_on_fresh_server(first, abandoned, second);
                                if viol2.iter().map(|x| &x.0).eq(viol.iter().map(|x| &x.0)) {
                                    reproduced = Some(run2);
                                    break;
                                }
                            }
                            let Some(run2) = reproduced else {
                                verif_common::machinery_error(&format!(
                                    "nondeterministic verdict for request sequence first={} abandoned={abandoned} second={} observed={}",
                                    first.to_json(), second.to_json(), run.outcome.to_json()
                                ));
                            };
                            let order = first.body.len() + first.pieces.len() + second.body.len() + second.pieces.len() + abandoned as usize;
                            for (key, what) in viol {
                                let key = format!("history:{key}");
                                if acc.violations.get(&key).is_none_or(|cur| cur.0 > order) {
                                    acc.violations.insert(
                                        key,
                                        (order,
                                         format!("second request served by a worker that had served one request before ({}; {} bytes in chunks {:?}): {what}; second request chunks {:?}",
                                                 if abandoned { "abandoned after its first chunk" } else { "sent completely" }, first.body.len(), first.pieces, second.pieces),
                                         json!({"case": {"part": "B2", "first": first.to_json(), "first_abandoned": abandoned, "second": second.to_json()},
                                                "observed": run2.outcome.to_json()})),
                                    );
                                }
                            }
                        }
                    }
                    acc
                })
            })
            .collect();
        for h in handles {
            match h.join() {
                Ok(a) => {
                    total.pairs += a.pairs;
                    total.abandoned_firsts += a.abandoned_firsts;
                    for (k, v) in a.violations {
                        if total.violations.get(&k).is_none_or(|cur| cur.0 > v.0) {
                            total.violations.insert(k, v);
                        }
                    }
                }
                Err(_) => verif_common::machinery_error("a Part B2 worker thread panicked (harness bug)"),
            }
        }
    });
    total
}

pub fn replay_sequence(v: &Value) -> bool {
    let first = CaseB::from_json(v.get("first").unwrap_or_else(|| verif_common::machinery_error("sequence replay lacks `first`")));
    let second = CaseB::from_json(v.get("second").unwrap_or_else(|| verif_common::machinery_error("sequence replay lacks `second`")));
    let abandoned = v.get("first_abandoned").and_then(|x| x.as_bool()).unwrap_or(false);
    let (run, viol) = pair_on_fresh_server(&first, abandoned, &second);
    println!("first: {} abandoned={abandoned}", first.to_json());
    println!("second: {}", second.to_json());
    println!("observed for second: {}", run.outcome.to_json());
    for (k, w) in &viol {
        println!("violated: {k}: {w}");
    }
    !viol.is_empty()
}

fn compositions(len: usize) -> Vec<Vec<usize>> {
    crate::script::frame_seqs(len, 0)
}

pub fn enumerate(b: &BoundsB) -> Vec<CaseB> {
    let mut cases = Vec::new();
    let mut limits: Vec<Option<u64>> = (0..=b.max_n).map(Some).collect();
    limits.push(None);
    for limit in limits {
        let max_len = match limit {
            Some(n) => n as usize + 2,
            None => b.off_max_len,
        };
        // for "off" the N-relative header variants use a nominal N = off_max_len - 2
        let nn = limit.unwrap_or(b.off_max_len.saturating_sub(2) as u64);
        for len in 0..=max_len {
            for &family in &b.families {
                let body = family_body(family, len);
                for pieces in compositions(len) {
                    for &write_mode in &b.write_modes {
                        // chunked framing x Content-Length variants
                        let l = len as u64;
                        let mut cls: Vec<(String, Vec<String>, Vec<String>)> = vec![("absent".into(), vec![], vec![])];
                        let mut push = |label: &str, before: Vec<String>, after: Vec<String>| {
                            if !cls.iter().any(|(_, x, y)| *x == before && *y == after) {
                                cls.push((label.to_string(), before, after));
                            }
                        };
                        push("truthful (before TE)", vec![l.to_string()], vec![]);
                        if l > 0 {
                            push("len-1 (before TE)", vec![(l - 1).to_string()], vec![]);
                        }
                        push("len+1 (before TE)", vec![(l + 1).to_string()], vec![]);
                        push("N (before TE)", vec![nn.to_string()], vec![]);
                        push("N+1 (before TE)", vec![(nn + 1).to_string()], vec![]);
                        push("abc (before TE)", vec!["abc".into()], vec![]);
                        push("2^64 (before TE)", vec!["18446744073709551616".into()], vec![]);
                        push("dup [len,N+1] (before TE)", vec![l.to_string(), (nn + 1).to_string()], vec![]);
                        push("N+1 (after TE)", vec![], vec![(nn + 1).to_string()]);
                        for trailers in [false, true] {
                            for (label, before, after) in &cls {
                                cases.push(CaseB {
                                    limit,
                                    family: family.to_string(),
                                    body: body.clone(),
                                    framing: Framing::Chunked,
                                    pieces: pieces.clone(),
                                    trailers,
                                    cl_label: label.clone(),
                                    cl_before: before.clone(),
                                    cl_after: after.clone(),
                                    write_mode,
                                });
                            }
                        }
                        // HTTP/2: the body is delimited by its DATA frames; the length is announced or not
                        if matches!(write_mode, WriteMode::Single) && family == b.families[0] && limit.is_some() {
                            for (label, before) in [("absent (h2)", vec![]), ("truthful (h2)", vec![l.to_string()])] {
                                cases.push(CaseB {
                                    limit,
                                    family: family.to_string(),
                                    body: body.clone(),
                                    framing: Framing::H2,
                                    pieces: pieces.clone(),
                                    trailers: false,
                                    cl_label: label.into(),
                                    cl_before: before,
                                    cl_after: vec![],
                                    write_mode,
                                });
                            }
                        }
                        // plain Content-Length framing (necessarily truthful), body split over writes
                        cases.push(CaseB {
                            limit,
                            family: family.to_string(),
                            body: body.clone(),
                            framing: Framing::LengthOnly,
                            pieces: pieces.clone(),
                            trailers: false,
                            cl_label: "truthful (no TE)".into(),
                            cl_before: vec![l.to_string()],
                            cl_after: vec![],
                            write_mode,
                        });
                    }
                }
            }
        }
    }
    cases
}

pub fn run(b: &BoundsB, seed: i64, threads: usize) -> AccB {
    let mut cases = enumerate(b);
    verif_common::rotate_by_seed(&mut cases, seed);
    let server = TestServer::start(4, 4);
    let addrs = server.addrs.clone();
    let next = AtomicUsize::new(0);
    let mut total = AccB::default();
    std::thread::scope(|s| {
        let handles: Vec<_> = (0..threads.max(1))
            .map(|_| {
                s.spawn(|| {
                    let mut acc = AccB::default();
                    loop {
                        let i = next.fetch_add(1, Ordering::SeqCst);
                        if i >= cases.len() {
                            break;
                        }
                        let case = &cases[i];
                        let addr = addrs[i % addrs.len()];
                        let run = run_case(addr, case);
                        acc.evaluations += 1;
                        acc.transport_retries += (run.attempts - 1) as u64;
                        if case.limit.is_none() {
                            acc.disabled_cases += 1;
                        }
                        if !case.body.is_empty() && (case.pieces.len() >= 2 || !case.cl_before.is_empty() || !case.cl_after.is_empty() || case.trailers) {
                            acc.nontrivial += 1;
                        }
                        if i < 3 {
                            acc.head_samples.push(case.to_json());
                        }
                        let class = classify(&case.cl_values_for_class(), case.limit, case.body.len());
                        if matches!(run.outcome, Outcome::TransportReject(_)) {
                            acc.transport_rejects += 1;
                        }
                        let bk = bucket(case.limit, case.body.len(), true, class, &run.outcome);
                        *acc.hist.entry(bk.clone()).or_default() += 1;
                        acc.bucket_sample
                            .entry(bk)
                            .or_insert_with(|| (i, json!({"case": case.to_json(), "observed": run.outcome.to_json()})));
                        let viol = check(case, &run);
                        if !viol.is_empty() {
                            acc.violating_cases += 1;
                            let again = check(case, &run_case(addr, case));
                            if again.iter().map(|x| &x.0).ne(viol.iter().map(|x| &x.0)) {
                                if crate::part_a::HISTORY_DEPENDENCE_KNOWN.load(Ordering::SeqCst) {
                                    // the history dimension (Parts A2 / B2) has already shown with a replayable pair that
                                    // requests served by one worker influence each other: one more manifestation
                                    acc.history_dependent_unattributed += 1;
                                    continue;
                                }
                                verif_common::machinery_error(&format!("nondeterministic verdict for loopback case {}", case.to_json()));
                            }
                            let vorder = (case.body.len() + case.pieces.len() + case.cl_before.len() + case.cl_after.len() + case.trailers as usize, i);
                            for (key, what) in viol {
                                if acc.violations.get(&key).is_none_or(|cur| cur.0 > vorder) {
                                    let cj = json!({"case": case.to_json(), "observed": run.outcome.to_json()});
                                    acc.violations.insert(
                                        key,
                                        (vorder, format!("{what}; {:?} pieces {:?}, Content-Length {}", case.framing, case.pieces, case.cl_label), cj),
                                    );
                                }
                            }
                        }
                    }
                    acc
                })
            })
            .collect();
        for h in handles {
            match h.join() {
                Ok(a) => {
                    total.evaluations += a.evaluations;
                    total.nontrivial += a.nontrivial;
                    total.violating_cases += a.violating_cases;
                    total.transport_retries += a.transport_retries;
                    total.transport_rejects += a.transport_rejects;
                    total.disabled_cases += a.disabled_cases;
                    total.history_dependent_unattributed += a.history_dependent_unattributed;
                    total.head_samples.extend(a.head_samples);
                    for (k, v) in a.hist {
                        *total.hist.entry(k).or_default() += v;
                    }
                    for (k, v) in a.bucket_sample {
                        if total.bucket_sample.get(&k).is_none_or(|c| c.0 > v.0) {
                            total.bucket_sample.insert(k, v);
                        }
                    }
                    for (k, v) in a.violations {
                        if total.violations.get(&k).is_none_or(|c| c.0 > v.0) {
                            total.violations.insert(k, v);
                        }
                    }
                }
                Err(_) => verif_common::machinery_error("a Part B client thread panicked (harness bug)"),
            }
        }
    });
    server.stop();
    total
}

pub fn replay(v: &Value) -> bool {
    let case = CaseB::from_json(v);
    let server = TestServer::start(1, 1);
    let run = run_case(server.addrs[0], &case);
    let class = classify(&case.cl_values_for_class(), case.limit, case.body.len());
    println!("case: {}", case.to_json());
    println!("observed: {} (HTTP status {}, attempts {})", run.outcome.to_json(), run.status, run.attempts);
    println!("observed extractors in the handler: json={:?} form={:?}", run.json, run.form);
    println!(
        "expected: limit {:?}, {} bytes sent, Content-Length class {} => {}",
        case.limit,
        case.body.len(),
        class.as_str(),
        crate::part_a::expected_text(case.limit, case.body.len(), true, class)
    );
    let viol = check(&case, &run);
    for (k, w) in &viol {
        println!("violated: {k}: {w}");
    }
    server.stop();
    !viol.is_empty()
}
