//! rt_body — engine for property C14 ("a buffered request body never exceeds the configured size
//! limit"). Bounded-exhaustive enumeration executed against the real pavex code:
//!   Part A: scripted `http_body::Body` fed to `BufferedBody::_extract_with_limit` through hook H1,
//!           JSON / form extractors on top;
//!   Part B: real `pavex::server::Server` on loopback, handler calling the public
//!           `BufferedBody::extract`, raw TCP client controlling the HTTP/1.1 framing.
mod model;
mod part_a;
mod part_b;
mod script;

use serde_json::{Value, json};
use std::cell::{Cell, RefCell};
use verif_common::Tier;

thread_local! {
    /// set while the thread is inside the code under test (panics are then captured, not printed)
    pub static IN_SUBJECT: Cell<bool> = const { Cell::new(false) };
    pub static LAST_PANIC: RefCell<String> = const { RefCell::new(String::new()) };
}

fn bounds(tier: Tier) -> (part_a::BoundsA, part_b::BoundsB) {
    use part_b::WriteMode;
    use script::Hint;
    match tier {
        Tier::Quick => (
            part_a::BoundsA {
                max_n: 4,
                max_empty: 2,
                max_pending: 2,
                max_pending_err: 1,
                hints: vec![Hint::Unknown, Hint::Exact],
            },
            part_b::BoundsB {
                max_n: 3,
                off_max_len: 5,
                families: model::FAMILIES.to_vec(),
                write_modes: vec![WriteMode::Single, WriteMode::PerPiece],
            },
        ),
        Tier::Thorough => (
            part_a::BoundsA {
                max_n: 6,
                max_empty: 2,
                max_pending: 3,
                max_pending_err: 2,
                hints: vec![Hint::Unknown, Hint::Exact],
            },
            part_b::BoundsB {
                max_n: 4,
                off_max_len: 6,
                families: model::FAMILIES.to_vec(),
                write_modes: vec![WriteMode::Single, WriteMode::PerPiece],
            },
        ),
    }
}

fn main() {
    let args = verif_common::Args::parse();
    if args.property != "C14" {
        verif_common::machinery_error(&format!("rt_body serves C14 only, got `{}`", args.property));
    }
    let default_hook = std::panic::take_hook();
    std::panic::set_hook(Box::new(move |info| {
        if IN_SUBJECT.with(|f| f.get()) {
            LAST_PANIC.with(|p| *p.borrow_mut() = info.to_string());
        } else {
            default_hook(info);
        }
    }));

    if let Some(path) = &args.replay {
        let case = verif_common::load_replay(path);
        // replay files store {"case": <case>, "observed": ...} under "case"
        let inner = case.get("case").cloned().unwrap_or(case);
        let still = match inner.get("part").and_then(|p| p.as_str()) {
            Some("A") => part_a::replay(&inner),
            Some("A2") => part_a::replay_history(&inner),
            Some("B2") => part_b::replay_sequence(&inner),
            Some("B") => part_b::replay(&inner),
            _ => verif_common::machinery_error("replay file has no `part` member"),
        };
        if still {
            println!("REPLAY: still violates");
            std::process::exit(1);
        }
        println!("REPLAY: no violation");
        std::process::exit(0);
    }

    let mut rep = verif_common::Reporter::from_args(&args);
    let (ba, bb) = bounds(args.tier);
    let threads: usize = args
        .extra("threads")
        .and_then(|s| s.parse().ok())
        .unwrap_or_else(|| std::thread::available_parallelism().map(|n| n.get()).unwrap_or(4).min(16));
    let only = args.extra("part").map(|s| s.to_string());

    // the history dimension runs first: if calls on one thread influence each other, Part A's per-case determinism
    // check must not mistake that for a fault of the harness
    let th = std::time::Instant::now();
    let hsty = if only.as_deref() != Some("B") { part_a::run_histories(if matches!(args.tier, verif_common::Tier::Quick) { 2 } else { ba.max_n }, threads) } else { part_a::AccH::default() };
    let wall_h = th.elapsed().as_secs_f64();
    if !hsty.violations.is_empty() {
        part_a::HISTORY_DEPENDENCE_KNOWN.store(true, std::sync::atomic::Ordering::SeqCst);
    }
    let t0 = std::time::Instant::now();
    let a = if only.as_deref() != Some("B") { part_a::run(&ba, args.seed, threads) } else { part_a::Acc::default() };
    let wall_a = t0.elapsed().as_secs_f64();
    let tb2 = std::time::Instant::now();
    let b2 = if only.as_deref() != Some("A") { part_b::run_sequences(&bb, threads.min(8), matches!(args.tier, verif_common::Tier::Quick)) } else { part_b::AccB2::default() };
    let wall_b2 = tb2.elapsed().as_secs_f64();
    if !b2.violations.is_empty() {
        part_a::HISTORY_DEPENDENCE_KNOWN.store(true, std::sync::atomic::Ordering::SeqCst);
    }
    let t1 = std::time::Instant::now();
    let b = if only.as_deref() != Some("A") { part_b::run(&bb, args.seed, threads.min(8)) } else { part_b::AccB::default() };
    let wall_b = t1.elapsed().as_secs_f64();

    for (key, (_, what, case)) in &a.violations {
        rep.violation(key, what, case.clone());
    }
    for (key, (_, what, case)) in &hsty.violations {
        rep.violation(key, what, case.clone());
    }
    for (key, (_, what, case)) in &b2.violations {
        rep.violation(&format!("loopback:{key}"), what, case.clone());
    }
    for (key, (_, what, case)) in &b.violations {
        rep.violation(key, what, case.clone());
    }

    // non-vacuity guards: every clause of the oracle must have been exercised
    let count = |h: &std::collections::BTreeMap<String, u64>, pat: &[&str]| -> u64 { h.iter().filter(|(k, _)| pat.iter().all(|p| k.contains(p))).map(|(_, v)| *v).sum() };
    let mut vacuity = Vec::new();
    if only.is_none() {
        for (name, n) in [
            ("A: Ok outcomes", count(&a.hist, &["-> Ok"])),
            ("A: size-limit errors for len=N+1", count(&a.hist, &["len=N+1", "SizeLimit"])),
            ("A: boundary len=N accepted", count(&a.hist, &["len=N ", "-> Ok"])),
            ("A: lying header cases", count(&a.hist, &["hdr=lie_"])),
            ("A: garbage header cases", count(&a.hist, &["hdr=garbage"])),
            ("A: error-terminated bodies", count(&a.hist, &["body-error"])),
            ("B: Ok outcomes", count(&b.hist, &["-> Ok"])),
            ("B: size-limit errors", count(&b.hist, &["SizeLimit"])),
            ("B: limit=off cases", count(&b.hist, &["limit=off"])),
        ] {
            if n == 0 && rep.violations.is_empty() {
                vacuity.push(name);
            }
        }
        if !vacuity.is_empty() {
            verif_common::machinery_error(&format!("vacuous run, oracle branches never exercised: {vacuity:?}"));
        }
    }

    let mut samples: Vec<Value> = Vec::new();
    samples.extend(a.head_samples.iter().take(3).cloned());
    samples.extend(a.bucket_sample.values().take(12).map(|(_, v)| v.clone()));
    samples.extend(b.head_samples.iter().take(2).cloned());
    samples.extend(b.bucket_sample.values().take(8).map(|(_, v)| v.clone()));
    if samples.is_empty() {
        samples.push(json!("no case executed"));
    }

    let rule = format!(
        "Part A (in-process, hook H1 = BufferedBody::_extract_with_limit): limit N in 0..={}, body length L in 0..=N+2, \
body content in families {:?} (pure function of family and L), every sequence of DATA frame sizes summing to L with at most {} \
empty frames, optional TRAILERS frame at the end, terminal answer End (None) or Error (transport error; with <= {} Pending), every \
multiset placement of 0..={} Poll::Pending answers (waker woken) before any frame or before the terminal answer, size_hint in {:?}, \
Content-Length in {{absent, L, L-1, L+1, N, N+1, abc, 2^64, 2^64-1, +L, +(N+1), 0L, 00(N+1), ' L', -1, empty, 0xff, 'L, L', \
dup[L,L], dup[L,N+1], dup[N+1,L], dup[abc,N+1]}} de-duplicated by value; full cartesian product, each tuple generated once. \
Part B (loopback, real pavex::server::Server, handler calls public BufferedBody::extract + JsonBody/UrlEncodedBody::extract): \
limit in 0..={} (BodySizeLimit::Enabled) and off (Disabled, L in 0..={}), L in 0..=N+2, every composition of the body into non-empty \
HTTP/1.1 chunks (Transfer-Encoding: chunked) with/without trailer section x Content-Length in {{absent, before-TE: L, L-1, L+1, N, N+1, \
abc, 2^64, dup[L,N+1]; after-TE: N+1}}, plus plain Content-Length framing with every split of the body into TCP writes; write modes {:?}; \
plus HTTP/2 with prior knowledge (hyper client): every composition of the body into DATA frames x content-length {{absent, announced}}. \
Oracle (reference model in model.rs::judge): Ok(b) => b.len() <= N and b == bytes sent; well-formed body with L > N => Err(SizeLimitExceeded) \
(never Ok, never UnexpectedBufferError); well-formed body with L <= N and Content-Length absent or truthful => Ok; well-formed body never \
yields UnexpectedBufferError; a lying/garbage header may be rejected with SizeLimitExceeded or accepted with the exact bytes; a panic is a \
violation; on every Ok the JSON and form extractors applied to the BufferedBody must equal the parse of the sent bytes. limit=off is read as \
N = infinity. A case is non-trivial iff its body is non-empty and (it has >= 2 DATA frames/chunks or >= 1 Pending or a trailers frame or a \
Content-Length header); distinctness holds by construction (each tuple of the product is generated exactly once).",
        ba.max_n,
        model::FAMILIES,
        ba.max_empty,
        ba.max_pending_err,
        ba.max_pending,
        ba.hints,
        bb.max_n,
        bb.off_max_len,
        bb.write_modes,
    );

    let coverage = json!({
        "evaluations": a.evaluations + b.evaluations + hsty.pairs + b2.pairs,
        "distinct_nontrivial": a.nontrivial + b.nontrivial,
        "rule": rule,
        "samples": samples,
        "exhaustive": true,
        "caps_hit": Value::Array(vec![]),
        "part_a": {
            "evaluations": a.evaluations,
            "distinct_nontrivial": a.nontrivial,
            "boundary_cases_len_eq_N_or_N_plus_1": a.boundary,
            "multi_frame_cases": a.multi_frame,
            "cases_with_pending": a.with_pending,
            "violating_cases": a.violating_cases,
            "history_dependent_verdicts_not_attributed": a.history_dependent_unattributed,
            "extractor_checks_on_ok_bodies": a.extractor_checks,
            "json_parsed_ok": a.json_ok,
            "json_parse_errors_matching_reference": a.json_err,
            "form_parsed_ok": a.form_ok,
            "max_bytes_pulled_from_body_beyond_limit": a.max_bytes_pulled_beyond_limit,
            "rejected_without_polling_the_body": a.rejected_without_polling_body,
            "polls_after_terminal_answer": a.polled_after_terminal,
            "outcome_histogram": a.hist,
            "wall_s": wall_a,
        },
        "part_a2_histories": {
            "rule": "all ordered pairs (first, second) over a reduced case set (limits {2,4}; body lengths {0,1,N,N+1,N+2}; frames {one, 1+rest, rest+1, all 1-byte}; End/Error; with/without a Pending after the first frame; Content-Length absent/truthful), `first` run to completion or dropped after 1, 2, 3 polls, both on the same thread; every pair runs on a fresh thread (the pair is the whole call history of that thread); `second` is judged by the oracle of Part A; a violating pair is executed twice",
            "reduced_case_set": hsty.cases,
            "pairs": hsty.pairs,
            "abandoned_first_variants": hsty.abandoned_firsts,
            "wall_s": wall_h,
        },
        "part_b2_request_sequences": {
            "rule": "every ordered pair (first, second) over all compositions into chunks of the bodies of length 0..=N+2 for one limit (Transfer-Encoding: chunked, no Content-Length, one TCP write per piece), `first` sent completely or abandoned (connection closed after the head and the first chunk); every pair is served by a fresh pavex::server::Server with ONE worker, so the pair is the whole history of the worker thread; `second` is judged by the oracle of Part B",
            "case_set": b2.cases,
            "pairs": b2.pairs,
            "abandoned_first_variants": b2.abandoned_firsts,
            "wall_s": wall_b2,
        },
        "part_b": {
            "evaluations": b.evaluations,
            "distinct_nontrivial": b.nontrivial,
            "violating_cases": b.violating_cases,
            "limit_off_cases": b.disabled_cases,
            "transport_rejects_by_http_stack": b.transport_rejects,
            "transport_retries": b.transport_retries,
            "history_dependent_verdicts_not_attributed": b.history_dependent_unattributed,
            "outcome_histogram": b.hist,
            "wall_s": wall_b,
        },
        "threads": threads,
    });
    println!(
        "C14 part A: {} cases ({} non-trivial) in {:.1}s; part B: {} loopback cases ({} non-trivial, {} retries) in {:.1}s",
        a.evaluations, a.nontrivial, wall_a, b.evaluations, b.nontrivial, b.transport_retries, wall_b
    );
    let code = rep.finish(
        "exploration",
        coverage,
        &[
            "hook H1 (verif_extract_with_limit) is a faithful pass-through to the private _extract_with_limit (it is one line)",
            "Part A bodies use Data = bytes::Bytes; other Buf implementations are not enumerated",
            "Part B: TCP segmentation below the write boundaries and hyper's own re-framing of chunks / DATA frames are not controlled",
            "the http / http-body-util / hyper crates are exercised as linked (versions of /repo/Cargo.lock), not modelled",
            "usize is 64 bit on the verification host",
        ],
    );
    std::process::exit(code);
}
