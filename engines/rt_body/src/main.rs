fn main() { verif_common::machinery_error("engine not built yet"); }
