//! A scripted `http_body::Body`: the harness decides every answer of `poll_frame`.
use bytes::Bytes;
use http_body::{Body, Frame, SizeHint};
use std::future::Future;
use std::pin::Pin;
use std::sync::Arc;
use std::sync::atomic::{AtomicBool, AtomicUsize, Ordering};
use std::task::{Context, Poll, Wake, Waker};

#[derive(Debug, Clone, Copy, PartialEq, Eq, Hash, PartialOrd, Ord)]
pub enum Step {
    /// a DATA frame carrying the next `k` bytes of the body (k may be 0)
    Data(usize),
    /// a TRAILERS frame
    Trailers,
    /// `Poll::Pending` (the waker is woken before returning)
    Pending,
}

#[derive(Debug, Clone, Copy, PartialEq, Eq, Hash, PartialOrd, Ord)]
pub enum Terminal {
    /// `Poll::Ready(None)`
    End,
    /// `Poll::Ready(Some(Err(_)))` — a transport error instead of the end of the stream
    Error,
}

#[derive(Debug, Clone, Copy, PartialEq, Eq, Hash, PartialOrd, Ord)]
pub enum Hint {
    /// `size_hint()` = default (0, None), `is_end_stream()` = false
    Unknown,
    /// `size_hint()` = exact remaining bytes, `is_end_stream()` = true once everything was polled
    Exact,
}

pub fn render_steps(steps: &[Step]) -> String {
    steps
        .iter()
        .map(|s| match s {
            Step::Data(k) => format!("D{k}"),
            Step::Trailers => "T".to_string(),
            Step::Pending => "P".to_string(),
        })
        .collect::<Vec<_>>()
        .join(" ")
}

pub fn parse_steps(s: &str) -> Vec<Step> {
    s.split_whitespace()
        .map(|t| match t {
            "T" => Step::Trailers,
            "P" => Step::Pending,
            d if d.starts_with('D') => Step::Data(
                d[1..]
                    .parse()
                    .unwrap_or_else(|_| verif_common::machinery_error("bad step in replay script")),
            ),
            _ => verif_common::machinery_error("bad step in replay script"),
        })
        .collect()
}

#[derive(Debug)]
pub struct ScriptError;
impl std::fmt::Display for ScriptError {
    fn fmt(&self, f: &mut std::fmt::Formatter<'_>) -> std::fmt::Result {
        f.write_str("scripted transport error")
    }
}
impl std::error::Error for ScriptError {}

#[derive(Default, Debug)]
pub struct BodyLog {
    pub polls: AtomicUsize,
    pub delivered_bytes: AtomicUsize,
    pub delivered_frames: AtomicUsize,
    pub polled_after_terminal: AtomicUsize,
    pub reached_terminal: AtomicBool,
}

pub struct ScriptedBody {
    bytes: Bytes,
    off: usize,
    steps: Vec<Step>,
    idx: usize,
    terminal: Terminal,
    hint: Hint,
    log: Arc<BodyLog>,
}

impl ScriptedBody {
    pub fn new(bytes: &[u8], steps: &[Step], terminal: Terminal, hint: Hint) -> (Self, Arc<BodyLog>) {
        let total: usize = steps
            .iter()
            .map(|s| if let Step::Data(k) = s { *k } else { 0 })
            .sum();
        if total != bytes.len() {
            verif_common::machinery_error("script does not cover the body bytes exactly");
        }
        let log = Arc::new(BodyLog::default());
        (
            ScriptedBody {
                bytes: Bytes::copy_from_slice(bytes),
                off: 0,
                steps: steps.to_vec(),
                idx: 0,
                terminal,
                hint,
                log: log.clone(),
            },
            log,
        )
    }
}

impl Body for ScriptedBody {
    type Data = Bytes;
    type Error = ScriptError;

    fn poll_frame(mut self: Pin<&mut Self>, cx: &mut Context<'_>) -> Poll<Option<Result<Frame<Bytes>, ScriptError>>> {
        let me = &mut *self;
        me.log.polls.fetch_add(1, Ordering::Relaxed);
        if me.idx >= me.steps.len() {
            if me.log.reached_terminal.swap(true, Ordering::Relaxed) {
                me.log.polled_after_terminal.fetch_add(1, Ordering::Relaxed);
                // A finished body keeps answering "end of stream".
                return Poll::Ready(None);
            }
            return match me.terminal {
                Terminal::End => Poll::Ready(None),
                Terminal::Error => Poll::Ready(Some(Err(ScriptError))),
            };
        }
        let step = me.steps[me.idx];
        me.idx += 1;
        match step {
            Step::Pending => {
                cx.waker().wake_by_ref();
                Poll::Pending
            }
            Step::Trailers => {
                let mut h = http::HeaderMap::new();
                h.insert("x-trailer", http::HeaderValue::from_static("1"));
                me.log.delivered_frames.fetch_add(1, Ordering::Relaxed);
                Poll::Ready(Some(Ok(Frame::trailers(h))))
            }
            Step::Data(k) => {
                let chunk = me.bytes.slice(me.off..me.off + k);
                me.off += k;
                me.log.delivered_bytes.fetch_add(k, Ordering::Relaxed);
                me.log.delivered_frames.fetch_add(1, Ordering::Relaxed);
                Poll::Ready(Some(Ok(Frame::data(chunk))))
            }
        }
    }

    fn is_end_stream(&self) -> bool {
        match self.hint {
            Hint::Unknown => false,
            Hint::Exact => self.idx >= self.steps.len() && self.terminal == Terminal::End,
        }
    }

    fn size_hint(&self) -> SizeHint {
        match self.hint {
            Hint::Unknown => SizeHint::default(),
            Hint::Exact => SizeHint::with_exact((self.bytes.len() - self.off) as u64),
        }
    }
}

struct Flag(AtomicBool);
impl Wake for Flag {
    fn wake(self: Arc<Self>) {
        self.0.store(true, Ordering::SeqCst);
    }
    fn wake_by_ref(self: &Arc<Self>) {
        self.0.store(true, Ordering::SeqCst);
    }
}

/// Minimal executor: poll; on `Pending` require that the waker was woken (otherwise the future
/// would hang for ever — reported as `Err`, which callers turn into a machinery error).
pub fn block_on<F: Future>(fut: F) -> Result<F::Output, String> {
    let flag = Arc::new(Flag(AtomicBool::new(false)));
    let waker = Waker::from(flag.clone());
    let mut cx = Context::from_waker(&waker);
    let mut fut = std::pin::pin!(fut);
    for _ in 0..10_000 {
        match fut.as_mut().poll(&mut cx) {
            Poll::Ready(v) => return Ok(v),
            Poll::Pending => {
                if !flag.0.swap(false, Ordering::SeqCst) {
                    return Err("future returned Pending without a wake-up being scheduled".into());
                }
            }
        }
    }
    Err("future still pending after 10000 polls".into())
}

/// All sequences of DATA frame sizes summing to `len` with at most `max_empty` empty frames.
pub fn frame_seqs(len: usize, max_empty: usize) -> Vec<Vec<usize>> {
    fn rec(rem: usize, empties: usize, cur: &mut Vec<usize>, out: &mut Vec<Vec<usize>>) {
        if rem == 0 {
            out.push(cur.clone());
        }
        if empties > 0 {
            cur.push(0);
            rec(rem, empties - 1, cur, out);
            cur.pop();
        }
        for k in 1..=rem {
            cur.push(k);
            rec(rem - k, empties, cur, out);
            cur.pop();
        }
    }
    let mut out = Vec::new();
    rec(len, max_empty, &mut Vec::new(), &mut out);
    out
}

/// All non-decreasing position tuples of size `p` over `0..=slots-1` (multisets): where the
/// `Pending` answers go. Position i = "before base step i"; position `base_len` = before the
/// terminal answer.
pub fn multisets(slots: usize, p: usize) -> Vec<Vec<usize>> {
    fn rec(slots: usize, p: usize, from: usize, cur: &mut Vec<usize>, out: &mut Vec<Vec<usize>>) {
        if p == 0 {
            out.push(cur.clone());
            return;
        }
        for i in from..slots {
            cur.push(i);
            rec(slots, p - 1, i, cur, out);
            cur.pop();
        }
    }
    let mut out = Vec::new();
    rec(slots, p, 0, &mut Vec::new(), &mut out);
    out
}

pub fn weave(base: &[Step], pend_at: &[usize]) -> Vec<Step> {
    let mut steps = Vec::with_capacity(base.len() + pend_at.len());
    for pos in 0..=base.len() {
        for _ in pend_at.iter().filter(|&&q| q == pos) {
            steps.push(Step::Pending);
        }
        if pos < base.len() {
            steps.push(base[pos]);
        }
    }
    steps
}
