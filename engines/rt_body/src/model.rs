//! Boring reference model for C14: what the property forces for a given (limit, sent bytes,
//! Content-Length header, well-formedness) and the abstract outcome type both parts map into.
use serde_json::{Value, json};

pub const FAMILIES: [&str; 4] = ["raw", "json", "form", "bin"];

/// Body content is a pure function of (family, length); all bytes of `raw`/`bin` are pairwise
/// distinct so any reordering, duplication or truncation changes the byte string.
pub fn family_body(family: &str, len: usize) -> Vec<u8> {
    const RAW: &[u8] = b"abcdefghij";
    const BIN: &[u8] = &[0x00, 0xFF, 0x0D, 0x0A, 0x80, 0x7F, 0x30, 0x25, 0x26, 0x3D];
    const JSON: [&str; 9] = [
        "", "7", "[]", "[1]", "true", "[1,2]", "[1,23]", "[1,2,3]", "{\"a\":12}",
    ];
    const FORM: [&str; 9] = [
        "", "a", "a=", "a=1", "a=12", "a=1&b", "a=1&b=", "a=1&b=2", "a=1&b=22",
    ];
    match family {
        "raw" => RAW[..len].to_vec(),
        "bin" => BIN[..len].to_vec(),
        "json" => {
            assert_eq!(JSON[len].len(), len);
            JSON[len].as_bytes().to_vec()
        }
        "form" => {
            assert_eq!(FORM[len].len(), len);
            FORM[len].as_bytes().to_vec()
        }
        other => verif_common::machinery_error(&format!("unknown body family {other}")),
    }
}

pub const MAX_FAMILY_LEN: usize = 8;

/// Abstract outcome of one extraction, as seen by the application.
#[derive(Debug, Clone, PartialEq, Eq)]
pub enum Outcome {
    Ok(Vec<u8>),
    SizeLimit { max: u64, cl: Option<u64> },
    Unexpected(String),
    Panic(String),
    /// Part B only: the HTTP stack answered without ever calling the handler.
    TransportReject(u16),
}

impl Outcome {
    pub fn short(&self) -> &'static str {
        match self {
            Outcome::Ok(_) => "Ok",
            Outcome::SizeLimit { .. } => "Err(SizeLimitExceeded)",
            Outcome::Unexpected(_) => "Err(UnexpectedBufferError)",
            Outcome::Panic(_) => "panic",
            Outcome::TransportReject(_) => "transport-reject",
        }
    }
    pub fn to_json(&self) -> Value {
        match self {
            Outcome::Ok(b) => json!({"ok_len": b.len(), "ok_hex": hex(b)}),
            Outcome::SizeLimit { max, cl } => json!({"size_limit_exceeded": {"max_size": max, "content_length": cl}}),
            Outcome::Unexpected(m) => json!({"unexpected_buffer_error": m}),
            Outcome::Panic(m) => json!({"panic": m}),
            Outcome::TransportReject(s) => json!({"transport_reject_status": s}),
        }
    }
}

/// How the reference model reads the Content-Length header(s) of a case.
#[derive(Debug, Clone, Copy, PartialEq, Eq, PartialOrd, Ord)]
pub enum ClClass {
    Absent,
    /// exactly one value, the plain decimal rendering of the true body length
    Truthful,
    /// exactly one value, plain decimal digits, != body length, <= limit
    LieLeLimit,
    /// exactly one value, plain decimal digits (any magnitude), != body length, > limit
    LieGtLimit,
    /// anything else: non-digits, signs, spaces, empty, opaque bytes, several values
    Garbage,
}

impl ClClass {
    pub fn as_str(&self) -> &'static str {
        match self {
            ClClass::Absent => "absent",
            ClClass::Truthful => "truthful",
            ClClass::LieLeLimit => "lie_le_limit",
            ClClass::LieGtLimit => "lie_gt_limit",
            ClClass::Garbage => "garbage",
        }
    }
}

pub fn classify(values: &[Vec<u8>], limit: Option<u64>, len: usize) -> ClClass {
    if values.is_empty() {
        return ClClass::Absent;
    }
    if values.len() == 1 && values[0] == len.to_string().as_bytes() {
        return ClClass::Truthful;
    }
    if values.len() == 1 && !values[0].is_empty() && values[0].iter().all(|b| b.is_ascii_digit()) && values[0].len() <= 30 {
        let v: u128 = std::str::from_utf8(&values[0]).unwrap().parse().unwrap();
        return match limit {
            Some(n) if v > n as u128 => ClClass::LieGtLimit,
            _ => ClClass::LieLeLimit,
        };
    }
    ClClass::Garbage
}

/// The oracle. `limit == None` means "no limit" (BodySizeLimit::Disabled), read as N = infinity.
/// `sent` = the bytes the client/body delivered (for a body that ends in a transport error: the
/// bytes delivered before the error). Returns `(kind, explanation)` for a violated clause.
pub fn judge(limit: Option<u64>, sent: &[u8], wellformed: bool, class: ClClass, out: &Outcome) -> Option<(&'static str, String)> {
    let len = sent.len() as u64;
    let within = limit.is_none_or(|n| len <= n);
    let lim = limit.map(|n| n.to_string()).unwrap_or_else(|| "off".into());
    match out {
        Outcome::Panic(m) => Some(("panic", format!("extraction panicked ({m}) instead of returning a body or a size-limit error"))),
        Outcome::Ok(b) => {
            if let Some(n) = limit
                && b.len() as u64 > n
            {
                return Some(("ok-over-limit", format!("Ok with {} bytes handed to the application, limit {n}", b.len())));
            }
            if b.as_slice() != sent {
                return Some(("ok-bytes-differ", format!("Ok body {} differs from sent {} (limit {lim})", hex(b), hex(sent))));
            }
            None
        }
        Outcome::SizeLimit { .. } => {
            if wellformed && within && matches!(class, ClClass::Absent | ClClass::Truthful) {
                Some(("spurious-size-limit", format!("body of {len} bytes within limit {lim}, Content-Length {} , but extraction failed with SizeLimitExceeded", class.as_str())))
            } else {
                None
            }
        }
        Outcome::Unexpected(m) => {
            if !wellformed {
                None
            } else if !within {
                Some(("oversize-without-size-limit-error", format!("well-formed body of {len} bytes over limit {lim} failed with UnexpectedBufferError({m}) instead of a size-limit error")))
            } else {
                Some(("unexpected-error-on-wellformed-body", format!("well-formed body of {len} bytes (limit {lim}) failed with UnexpectedBufferError({m})")))
            }
        }
        // Judged by the caller (only Part B produces it).
        Outcome::TransportReject(_) => None,
    }
}

/// Which clause of the oracle a (case, outcome) pair exercised. Used for the histogram.
pub fn bucket(limit: Option<u64>, len: usize, wellformed: bool, class: ClClass, out: &Outcome) -> String {
    let region = match limit {
        None => "limit=off",
        Some(n) => {
            let l = len as u64;
            if l < n {
                "len<N"
            } else if l == n {
                "len=N"
            } else if l == n + 1 {
                "len=N+1"
            } else {
                "len>N+1"
            }
        }
    };
    format!(
        "{region} hdr={} {} -> {}",
        class.as_str(),
        if wellformed { "wellformed" } else { "body-error" },
        out.short()
    )
}

pub fn hex(b: &[u8]) -> String {
    let mut s = String::with_capacity(b.len() * 2);
    for x in b {
        s.push_str(&format!("{x:02x}"));
    }
    s
}

pub fn unhex(s: &str) -> Vec<u8> {
    let s = s.as_bytes();
    if s.len() % 2 != 0 {
        verif_common::machinery_error("odd hex string");
    }
    (0..s.len() / 2)
        .map(|i| {
            u8::from_str_radix(std::str::from_utf8(&s[2 * i..2 * i + 2]).unwrap(), 16)
                .unwrap_or_else(|_| verif_common::machinery_error("bad hex string"))
        })
        .collect()
}

/// Result of a JSON / form extractor (or of the reference parse): canonical rendering or the name
/// of the error variant.
pub type ExRes = Result<String, String>;

/// Reference for `JsonBody<serde_json::Value>`: first JSON value of the sent bytes (the extractor
/// does not check for trailing characters; neither does the reference, C14 is not about that).
pub fn ref_json(sent: &[u8]) -> ExRes {
    use serde::Deserialize;
    let mut de = serde_json::Deserializer::from_slice(sent);
    match Value::deserialize(&mut de) {
        Ok(v) => Ok(v.to_string()),
        Err(_) => Err("DeserializationError".into()),
    }
}

/// Reference for `UrlEncodedBody<Vec<(String, String)>>`.
///
/// A name or value that is not valid UTF-8 once percent-decoded is malformed input (C15): the
/// extractor must answer with its deserialization error, not with a lossy value.
pub fn ref_form(sent: &[u8]) -> ExRes {
    for pair in sent.split(|b| *b == b'&') {
        for part in pair.splitn(2, |b| *b == b'=') {
            if std::str::from_utf8(&pct_decode(part)).is_err() {
                return Err("DeserializationError".into());
            }
        }
    }
    let pairs: Vec<(String, String)> = form_urlencoded::parse(sent).into_owned().collect();
    Ok(format!("{pairs:?}"))
}

/// Independent percent-decoder (`+` is irrelevant for UTF-8 validity).
fn pct_decode(part: &[u8]) -> Vec<u8> {
    let hex = |b: u8| (b as char).to_digit(16).map(|d| d as u8);
    let mut out = Vec::with_capacity(part.len());
    let mut i = 0;
    while i < part.len() {
        if part[i] == b'%' && i + 2 < part.len() + 0 && i + 2 <= part.len() - 1 + 0 {
            if let (Some(h), Some(l)) = (hex(part[i + 1]), hex(part[i + 2])) {
                out.push(h * 16 + l);
                i += 3;
                continue;
            }
        }
        out.push(part[i]);
        i += 1;
    }
    out
}

/// Content-Length header variants for Part A (values are raw header bytes; several values =
/// several header lines). De-duplicated so that every variant is a distinct case.
pub fn cl_variants(limit: u64, len: usize) -> Vec<(String, Vec<Vec<u8>>)> {
    let n = limit;
    let l = len as u64;
    let s = |v: u64| v.to_string().into_bytes();
    let mut out: Vec<(String, Vec<Vec<u8>>)> = vec![("absent".into(), vec![])];
    let mut push = |label: &str, v: Vec<Vec<u8>>| {
        if !out.iter().any(|(_, w)| *w == v) {
            out.push((label.to_string(), v));
        }
    };
    push("truthful", vec![s(l)]);
    if l > 0 {
        push("len-1", vec![s(l - 1)]);
    }
    push("len+1", vec![s(l + 1)]);
    push("N", vec![s(n)]);
    push("N+1", vec![s(n + 1)]);
    push("abc", vec![b"abc".to_vec()]);
    push("2^64", vec![b"18446744073709551616".to_vec()]);
    push("2^64-1", vec![b"18446744073709551615".to_vec()]);
    push("+len", vec![format!("+{l}").into_bytes()]);
    push("+(N+1)", vec![format!("+{}", n + 1).into_bytes()]);
    push("0-padded len", vec![format!("0{l}").into_bytes()]);
    push("0-padded N+1", vec![format!("00{}", n + 1).into_bytes()]);
    push("space len", vec![format!(" {l}").into_bytes()]);
    push("-1", vec![b"-1".to_vec()]);
    push("empty", vec![vec![]]);
    push("opaque 0xff", vec![vec![0xff]]);
    push("list len,len", vec![format!("{l}, {l}").into_bytes()]);
    push("dup [len,len]", vec![s(l), s(l)]);
    push("dup [len,N+1]", vec![s(l), s(n + 1)]);
    push("dup [N+1,len]", vec![s(n + 1), s(l)]);
    push("dup [abc,N+1]", vec![b"abc".to_vec(), s(n + 1)]);
    out
}
