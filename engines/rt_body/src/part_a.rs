//! Part A: in-process, exhaustive. Drives `BufferedBody::verif_extract_with_limit` (hook H1, a thin
//! wrapper around the private `_extract_with_limit`) with every scripted body of the bounded
//! space, then the JSON / form extractors on top of every `Ok` body.
use crate::model::*;
use crate::script::*;
use pavex::request::RequestHead;
use pavex::request::body::errors::{ExtractBufferedBodyError, ExtractJsonBodyError, ExtractUrlEncodedBodyError};
use pavex::request::body::{BufferedBody, JsonBody, UrlEncodedBody};
use pavex::unit::ByteUnit;
use serde_json::{Value, json};
use std::collections::BTreeMap;
use std::panic::{AssertUnwindSafe, catch_unwind};
use std::sync::atomic::{AtomicUsize, Ordering};

#[derive(Debug, Clone)]
pub struct BoundsA {
    pub max_n: u64,
    pub max_empty: usize,
    pub max_pending: usize,
    /// max number of Pending answers in scripts that end in a transport error
    pub max_pending_err: usize,
    pub hints: Vec<Hint>,
}

#[derive(Debug, Clone)]
pub struct CaseA {
    pub limit: u64,
    pub family: String,
    pub body: Vec<u8>,
    pub steps: Vec<Step>,
    pub terminal: Terminal,
    pub cl_label: String,
    pub cl: Vec<Vec<u8>>,
    pub hint: Hint,
}

impl CaseA {
    pub fn to_json(&self) -> Value {
        json!({
            "part": "A",
            "limit": self.limit,
            "family": self.family,
            "body_hex": hex(&self.body),
            "script": render_steps(&self.steps),
            "terminal": match self.terminal { Terminal::End => "End", Terminal::Error => "Error" },
            "size_hint": match self.hint { Hint::Unknown => "unknown", Hint::Exact => "exact" },
            "content_length_label": self.cl_label,
            "content_length_hex": self.cl.iter().map(|v| hex(v)).collect::<Vec<_>>(),
            "content_length_lossy": self.cl.iter().map(|v| String::from_utf8_lossy(v).to_string()).collect::<Vec<_>>(),
        })
    }
    pub fn from_json(v: &Value) -> CaseA {
        let s = |k: &str| {
            v.get(k)
                .and_then(|x| x.as_str())
                .unwrap_or_else(|| verif_common::machinery_error(&format!("replay case lacks string `{k}`")))
                .to_string()
        };
        CaseA {
            limit: v.get("limit").and_then(|x| x.as_u64()).unwrap_or_else(|| verif_common::machinery_error("replay case lacks `limit`")),
            family: s("family"),
            body: unhex(&s("body_hex")),
            steps: parse_steps(&s("script")),
            terminal: if s("terminal") == "Error" { Terminal::Error } else { Terminal::End },
            hint: if s("size_hint") == "exact" { Hint::Exact } else { Hint::Unknown },
            cl_label: s("content_length_label"),
            cl: v
                .get("content_length_hex")
                .and_then(|x| x.as_array())
                .unwrap_or_else(|| verif_common::machinery_error("replay case lacks `content_length_hex`"))
                .iter()
                .map(|x| unhex(x.as_str().unwrap_or("")))
                .collect(),
        }
    }
    /// bytes the body delivers before its terminal answer
    pub fn sent(&self) -> &[u8] {
        &self.body
    }
    pub fn wellformed(&self) -> bool {
        self.terminal == Terminal::End
    }
}

#[derive(Debug, Clone)]
pub struct RunA {
    pub outcome: Outcome,
    pub polls: usize,
    pub delivered_bytes: usize,
    pub polled_after_terminal: usize,
    pub json: Option<ExRes>,
    pub form: Option<ExRes>,
}

pub fn head_with(headers: http::HeaderMap) -> RequestHead {
    RequestHead {
        method: http::Method::POST,
        target: "/".parse().unwrap(),
        version: http::Version::HTTP_11,
        headers,
    }
}

pub fn ct_head(ct: &'static str) -> RequestHead {
    let mut h = http::HeaderMap::new();
    h.insert(http::header::CONTENT_TYPE, http::HeaderValue::from_static(ct));
    head_with(h)
}

pub fn run_json(b: &BufferedBody) -> ExRes {
    let head = ct_head("application/json");
    match JsonBody::<Value>::extract(&head, b) {
        Ok(JsonBody(v)) => Ok(v.to_string()),
        Err(ExtractJsonBodyError::DeserializationError(_)) => Err("DeserializationError".into()),
        Err(ExtractJsonBodyError::MissingContentType(_)) => Err("MissingContentType".into()),
        Err(ExtractJsonBodyError::ContentTypeMismatch(_)) => Err("ContentTypeMismatch".into()),
        Err(_) => Err("other".into()),
    }
}

pub fn run_form(b: &BufferedBody) -> ExRes {
    let head = ct_head("application/x-www-form-urlencoded");
    match UrlEncodedBody::<Vec<(String, String)>>::extract(&head, b) {
        Ok(UrlEncodedBody(v)) => Ok(format!("{v:?}")),
        Err(ExtractUrlEncodedBodyError::DeserializationError(_)) => Err("DeserializationError".into()),
        Err(ExtractUrlEncodedBodyError::MissingContentType(_)) => Err("MissingContentType".into()),
        Err(ExtractUrlEncodedBodyError::ContentTypeMismatch(_)) => Err("ContentTypeMismatch".into()),
        Err(_) => Err("other".into()),
    }
}

pub fn map_result(r: Result<BufferedBody, ExtractBufferedBodyError>) -> (Outcome, Option<BufferedBody>) {
    match r {
        Ok(b) => (Outcome::Ok(b.bytes.to_vec()), Some(b)),
        Err(ExtractBufferedBodyError::SizeLimitExceeded(e)) => (
            Outcome::SizeLimit {
                max: e.max_size.as_u64(),
                cl: e.content_length.map(|v| v as u64),
            },
            None,
        ),
        Err(ExtractBufferedBodyError::UnexpectedBufferError(e)) => {
            let src = std::error::Error::source(&e).map(|s| s.to_string()).unwrap_or_default();
            (Outcome::Unexpected(src), None)
        }
        Err(e) => (Outcome::Unexpected(format!("unknown error variant: {e:?}")), None),
    }
}

pub fn run_case(case: &CaseA) -> RunA {
    let mut headers = http::HeaderMap::new();
    for v in &case.cl {
        let hv = http::HeaderValue::from_bytes(v)
            .unwrap_or_else(|_| verif_common::machinery_error("harness built an illegal header value"));
        headers.append(http::header::CONTENT_LENGTH, hv);
    }
    let head = head_with(headers);
    let (body, log) = ScriptedBody::new(&case.body, &case.steps, case.terminal, case.hint);
    let max = ByteUnit::Byte(case.limit);
    crate::IN_SUBJECT.with(|f| f.set(true));
    let res = catch_unwind(AssertUnwindSafe(|| {
        let r = block_on(BufferedBody::verif_extract_with_limit(&head, body, max));
        r.map(|r| {
            let (outcome, b) = map_result(r);
            let (j, f) = match &b {
                Some(b) => (Some(run_json(b)), Some(run_form(b))),
                None => (None, None),
            };
            (outcome, j, f)
        })
    }));
    crate::IN_SUBJECT.with(|f| f.set(false));
    let (outcome, json, form) = match res {
        Ok(Ok(t)) => t,
        Ok(Err(stall)) => verif_common::machinery_error(&format!("executor stalled on case {}: {stall}", case.to_json())),
        Err(_) => (Outcome::Panic(crate::LAST_PANIC.with(|p| p.borrow().clone())), None, None),
    };
    RunA {
        outcome,
        polls: log.polls.load(Ordering::Relaxed),
        delivered_bytes: log.delivered_bytes.load(Ordering::Relaxed),
        polled_after_terminal: log.polled_after_terminal.load(Ordering::Relaxed),
        json,
        form,
    }
}

/// All oracle clauses for one executed case: `(key, explanation)` per violated clause.
pub fn check(case: &CaseA, run: &RunA) -> Vec<(String, String)> {
    let class = classify(&case.cl, Some(case.limit), case.body.len());
    let mut v = Vec::new();
    if let Some((kind, what)) = judge(Some(case.limit), case.sent(), case.wellformed(), class, &run.outcome) {
        v.push((kind.to_string(), format!("{what}; Content-Length class {}", class.as_str())));
    }
    if let Outcome::Ok(_) = &run.outcome {
        let rj = ref_json(case.sent());
        if run.json.as_ref() != Some(&rj) {
            v.push(("json-extractor-differs".to_string(), format!("JsonBody on the buffered body gave {:?}, parsing the sent bytes gives {:?}", run.json, rj)));
        }
        let rf = ref_form(case.sent());
        if run.form.as_ref() != Some(&rf) {
            v.push(("form-extractor-differs".to_string(), format!("UrlEncodedBody on the buffered body gave {:?}, parsing the sent bytes gives {:?}", run.form, rf)));
        }
    }
    v
}

#[derive(Default)]
pub struct Acc {
    pub evaluations: u64,
    pub nontrivial: u64,
    pub boundary: u64,
    pub multi_frame: u64,
    pub with_pending: u64,
    pub hist: BTreeMap<String, u64>,
    pub bucket_sample: BTreeMap<String, ((usize, u64), Value)>,
    /// per key the smallest violating case: ordered by (limit + body length + script length, unit, sequence number)
    pub violations: BTreeMap<String, ((usize, usize, u64), String, Value)>,
    pub violating_cases: u64,
    pub extractor_checks: u64,
    pub json_ok: u64,
    pub json_err: u64,
    pub form_ok: u64,
    pub max_bytes_pulled_beyond_limit: usize,
    pub rejected_without_polling_body: u64,
    pub polled_after_terminal: u64,
    pub head_samples: Vec<Value>,
    pub history_dependent_unattributed: u64,
}

impl Acc {
    pub fn merge(&mut self, o: Acc) {
        self.evaluations += o.evaluations;
        self.nontrivial += o.nontrivial;
        self.boundary += o.boundary;
        self.multi_frame += o.multi_frame;
        self.with_pending += o.with_pending;
        for (k, v) in o.hist {
            *self.hist.entry(k).or_default() += v;
        }
        for (k, v) in o.bucket_sample {
            match self.bucket_sample.get(&k) {
                Some(cur) if cur.0 <= v.0 => {}
                _ => {
                    self.bucket_sample.insert(k, v);
                }
            }
        }
        for (k, v) in o.violations {
            match self.violations.get(&k) {
                Some(cur) if cur.0 <= v.0 => {}
                _ => {
                    self.violations.insert(k, v);
                }
            }
        }
        self.violating_cases += o.violating_cases;
        self.extractor_checks += o.extractor_checks;
        self.json_ok += o.json_ok;
        self.json_err += o.json_err;
        self.form_ok += o.form_ok;
        self.max_bytes_pulled_beyond_limit = self.max_bytes_pulled_beyond_limit.max(o.max_bytes_pulled_beyond_limit);
        self.rejected_without_polling_body += o.rejected_without_polling_body;
        self.polled_after_terminal += o.polled_after_terminal;
        self.head_samples.extend(o.head_samples);
        self.history_dependent_unattributed += o.history_dependent_unattributed;
    }
}

#[derive(Debug, Clone)]
struct Unit {
    n: u64,
    len: usize,
    family: &'static str,
    trailers: bool,
    terminal: Terminal,
    pend: usize,
    hint: Hint,
    /// work split: this unit handles the frame sequences whose index is `shard` mod `shards`
    shard: usize,
    shards: usize,
}

/// set by main when Part A2 found a history-dependent verdict
pub static HISTORY_DEPENDENCE_KNOWN: std::sync::atomic::AtomicBool = std::sync::atomic::AtomicBool::new(false);

thread_local! {
    /// the cases this thread executed last (to attribute history-dependent verdicts)
    static PREV_CASES: std::cell::RefCell<std::collections::VecDeque<CaseA>> = const { std::cell::RefCell::new(std::collections::VecDeque::new()) };
}
const HISTORY_RING: usize = 512;

fn remember(case: &CaseA) {
    PREV_CASES.with(|p| {
        let mut p = p.borrow_mut();
        if p.len() == HISTORY_RING {
            p.pop_front();
        }
        p.push_back(case.clone());
    });
}

/// Run `history` (each case to completion) and then `second` on a FRESH thread; judge `second`.
fn seq_on_fresh_thread(history: &[CaseA], second: &CaseA) -> (RunA, Vec<(String, String)>) {
    let (h, s) = (history.to_vec(), second.clone());
    std::thread::spawn(move || {
        for c in &h {
            run_case(c);
        }
        let run = run_case(&s);
        let v = check(&s, &run);
        (run, v)
    })
    .join()
    .unwrap_or_else(|_| verif_common::machinery_error("history worker panicked (harness bug)"))
}

fn eval(acc: &mut Acc, order: (usize, u64), case: &CaseA) {
    let run = run_case(case);
    let class = classify(&case.cl, Some(case.limit), case.body.len());
    acc.evaluations += 1;
    let data_frames = case.steps.iter().filter(|s| matches!(s, Step::Data(_))).count();
    let pendings = case.steps.iter().filter(|s| matches!(s, Step::Pending)).count();
    let has_trailers = case.steps.contains(&Step::Trailers);
    if !case.body.is_empty() && (data_frames >= 2 || pendings >= 1 || has_trailers || !case.cl.is_empty()) {
        acc.nontrivial += 1;
    }
    if case.body.len() as u64 == case.limit || case.body.len() as u64 == case.limit + 1 {
        acc.boundary += 1;
    }
    if data_frames >= 2 {
        acc.multi_frame += 1;
    }
    if pendings >= 1 {
        acc.with_pending += 1;
    }
    let b = bucket(Some(case.limit), case.body.len(), case.wellformed(), class, &run.outcome);
    *acc.hist.entry(b.clone()).or_default() += 1;
    acc.bucket_sample
        .entry(b)
        .or_insert_with(|| (order, json!({"case": case.to_json(), "observed": run.outcome.to_json()})));
    if run.polls == 0 {
        acc.rejected_without_polling_body += 1;
    }
    acc.polled_after_terminal += run.polled_after_terminal as u64;
    acc.max_bytes_pulled_beyond_limit = acc
        .max_bytes_pulled_beyond_limit
        .max(run.delivered_bytes.saturating_sub(case.limit as usize));
    if let Outcome::Ok(_) = run.outcome {
        acc.extractor_checks += 2;
        match &run.json {
            Some(Ok(_)) => acc.json_ok += 1,
            _ => acc.json_err += 1,
        }
        if let Some(Ok(_)) = &run.form {
            acc.form_ok += 1;
        }
    }
    let viol = check(case, &run);
    if !viol.is_empty() {
        acc.violating_cases += 1;
        // determinism: the same case must violate the same clauses again
        let again = check(case, &run_case(case));
        if again.iter().map(|x| &x.0).ne(viol.iter().map(|x| &x.0)) {
            // the verdict depends on what this thread executed before: hidden state in the subject. Attribute it to
            // the pair (previous case on this thread, this case) on a fresh thread; if that does not reproduce it
            // either, the harness cannot explain the observation.
            let ring: Vec<CaseA> = PREV_CASES.with(|p| p.borrow().iter().cloned().collect());
            for k in 1..=ring.len() {
                let hist = &ring[ring.len() - k..];
                let (run2, viol2) = seq_on_fresh_thread(hist, case);
                if !viol2.is_empty() {
                    for (key, what) in viol2 {
                        let key = format!("history:{key}");
                        acc.violations.entry(key).or_insert_with(|| {
                            (
                                (0, order.0, order.1),
                                format!("after {k} other extraction(s) on the same thread: {what}"),
                                json!({"case": {"part": "A2", "history": hist.iter().map(|c| c.to_json()).collect::<Vec<_>>(), "second": case.to_json()},
                                       "observed": run2.outcome.to_json()}),
                            )
                        });
                    }
                    remember(case);
                    return;
                }
            }
            if HISTORY_DEPENDENCE_KNOWN.load(Ordering::SeqCst) {
                // Part A2 (which ran first) has already shown, with a replayable pair, that calls on one thread influence
                // each other; this case is one more manifestation whose origin lies further back than the ring
                acc.history_dependent_unattributed += 1;
                remember(case);
                return;
            }
            verif_common::machinery_error(&format!(
                "nondeterministic verdict for case {} (first run violated {:?}, second run {:?}; {} earlier cases of this thread did not reproduce it on a fresh thread)",
                case.to_json(),
                viol.iter().map(|x| x.0.clone()).collect::<Vec<_>>(),
                again.iter().map(|x| x.0.clone()).collect::<Vec<_>>(),
                ring.len()
            ));
        }
        let vorder = (case.limit as usize + case.body.len() + case.steps.len() + case.cl.len(), order.0, order.1);
        for (key, what) in viol {
            let e = acc.violations.get(&key);
            if e.is_none_or(|cur| cur.0 > vorder) {
                let cj = json!({"case": case.to_json(), "observed": run.outcome.to_json()});
                acc.violations.insert(key, (vorder, format!("{what}; script [{}] {:?}, Content-Length {}", render_steps(&case.steps), case.terminal, case.cl_label), cj));
            }
        }
    }
    remember(case);
}

pub fn run(b: &BoundsA, seed: i64, threads: usize) -> Acc {
    let mut units = Vec::new();
    for n in 0..=b.max_n {
        for len in 0..=(n as usize + 2) {
            if len > MAX_FAMILY_LEN {
                verif_common::machinery_error("bound exceeds the body families");
            }
            for family in FAMILIES {
                for trailers in [false, true] {
                    for terminal in [Terminal::End, Terminal::Error] {
                        let maxp = if terminal == Terminal::End { b.max_pending } else { b.max_pending_err };
                        for pend in 0..=maxp {
                            for &hint in &b.hints {
                                let shards = if len >= 5 { 8 } else { 1 };
                                for shard in 0..shards {
                                    units.push(Unit { n, len, family, trailers, terminal, pend, hint, shard, shards });
                                }
                            }
                        }
                    }
                }
            }
        }
    }
    // big units first (better load balance), then the seed rotation (order only)
    units.sort_by_key(|u| std::cmp::Reverse((u.len, u.pend)));
    verif_common::rotate_by_seed(&mut units, seed);
    let seqs: Vec<Vec<Vec<usize>>> = (0..=(b.max_n as usize + 2)).map(|l| frame_seqs(l, b.max_empty)).collect();
    let next = AtomicUsize::new(0);
    let mut total = Acc::default();
    std::thread::scope(|s| {
        let handles: Vec<_> = (0..threads.max(1))
            .map(|_| {
                s.spawn(|| {
                    let mut acc = Acc::default();
                    loop {
                        let ui = next.fetch_add(1, Ordering::SeqCst);
                        if ui >= units.len() {
                            break;
                        }
                        let u = &units[ui];
                        let body = family_body(u.family, u.len);
                        let cls = cl_variants(u.n, u.len);
                        let mut seq_no = 0u64;
                        for (fi, fs) in seqs[u.len].iter().enumerate() {
                            if fi % u.shards != u.shard {
                                continue;
                            }
                            let mut base: Vec<Step> = fs.iter().map(|&k| Step::Data(k)).collect();
                            if u.trailers {
                                base.push(Step::Trailers);
                            }
                            for pend_at in multisets(base.len() + 1, u.pend) {
                                let steps = weave(&base, &pend_at);
                                for (label, cl) in &cls {
                                    let case = CaseA {
                                        limit: u.n,
                                        family: u.family.to_string(),
                                        body: body.clone(),
                                        steps: steps.clone(),
                                        terminal: u.terminal,
                                        cl_label: label.clone(),
                                        cl: cl.clone(),
                                        hint: u.hint,
                                    };
                                    if ui < 3 && seq_no < 2 {
                                        acc.head_samples.push(case.to_json());
                                    }
                                    eval(&mut acc, (ui, seq_no), &case);
                                    seq_no += 1;
                                }
                            }
                        }
                    }
                    acc
                })
            })
            .collect();
        for h in handles {
            match h.join() {
                Ok(a) => total.merge(a),
                Err(_) => verif_common::machinery_error("a Part A worker thread panicked (harness bug)"),
            }
        }
    });
    total
}


// ------------------------------------------------------------------------------------------------
// Part A2: HISTORIES. The extractor is a pure function of (head, body, limit): what one call
// returns must not depend on the calls made before it on the same thread (successful, failed
// half-way, or abandoned: the future dropped after a few polls). All ordered pairs
// (first, second) over a reduced case set, `first` also in its abandoned variants.
// ------------------------------------------------------------------------------------------------

/// Poll the extraction future of `case` `polls` times, then drop it (a client that went away,
/// a handler that was cancelled). Returns true if the future completed before being dropped.
pub fn run_case_abandoned(case: &CaseA, polls: usize) -> bool {
    let mut headers = http::HeaderMap::new();
    for v in &case.cl {
        if let Ok(hv) = http::HeaderValue::from_bytes(v) {
            headers.append(http::header::CONTENT_LENGTH, hv);
        }
    }
    let head = head_with(headers);
    let (body, _log) = ScriptedBody::new(&case.body, &case.steps, case.terminal, case.hint);
    let max = ByteUnit::Byte(case.limit);
    crate::IN_SUBJECT.with(|f| f.set(true));
    let done = catch_unwind(AssertUnwindSafe(|| {
        let waker = std::task::Waker::noop();
        let mut cx = std::task::Context::from_waker(waker);
        let mut fut = Box::pin(BufferedBody::verif_extract_with_limit(&head, body, max));
        for _ in 0..polls {
            if fut.as_mut().poll(&mut cx).is_ready() {
                return true;
            }
        }
        false
    }))
    .unwrap_or(false);
    crate::IN_SUBJECT.with(|f| f.set(false));
    done
}

/// The reduced case set of the history dimension.
pub fn history_cases(max_n: u64) -> Vec<CaseA> {
    let mut out = Vec::new();
    // quick (max_n = 2): limit 2 only; thorough: limits 2 and 4
    let limits: Vec<u64> = [2u64, 4].into_iter().filter(|n| *n <= max_n.max(2)).collect();
    for &n in &limits {
        for len in [0usize, 1, n as usize, n as usize + 1, n as usize + 2] {
            if len > MAX_FAMILY_LEN {
                continue;
            }
            let body = family_body(FAMILIES[0], len);
            let mut frame_sets: Vec<Vec<usize>> = vec![if len == 0 { vec![] } else { vec![len] }];
            if len >= 2 {
                frame_sets.push(vec![1, len - 1]);
                frame_sets.push(vec![len - 1, 1]);
                frame_sets.push(vec![1; len]);
            }
            for fs in frame_sets {
                for terminal in [Terminal::End, Terminal::Error] {
                    for pend in [false, true] {
                        let mut steps: Vec<Step> = Vec::new();
                        for (i, k) in fs.iter().enumerate() {
                            steps.push(Step::Data(*k));
                            if pend && i == 0 {
                                steps.push(Step::Pending);
                            }
                        }
                        if pend && fs.is_empty() {
                            steps.push(Step::Pending);
                        }
                        for (label, cl) in [("absent".to_string(), Vec::<Vec<u8>>::new()), ("L".to_string(), vec![len.to_string().into_bytes()])] {
                            out.push(CaseA {
                                limit: n,
                                family: FAMILIES[0].to_string(),
                                body: body.clone(),
                                steps: steps.clone(),
                                terminal,
                                cl_label: label,
                                cl,
                                hint: Hint::Unknown,
                            });
                        }
                    }
                }
            }
        }
    }
    out
}

#[derive(Default)]
pub struct AccH {
    pub pairs: u64,
    pub abandoned_firsts: u64,
    pub cases: usize,
    pub violations: BTreeMap<String, (usize, String, Value)>,
}

fn pair_json(first: &CaseA, abandon: Option<usize>, second: &CaseA, run: &RunA) -> Value {
    json!({"case": {"part": "A2", "first": first.to_json(), "first_abandoned_after_polls": abandon, "second": second.to_json()},
           "observed": run.outcome.to_json()})
}

/// Run [first (possibly abandoned), second] on a FRESH thread and judge `second`.
fn pair_on_fresh_thread(first: &CaseA, abandon: Option<usize>, second: &CaseA) -> (RunA, Vec<(String, String)>) {
    let (f, s) = (first.clone(), second.clone());
    std::thread::spawn(move || {
        match abandon {
            Some(k) => {
                run_case_abandoned(&f, k);
            }
            None => {
                run_case(&f);
            }
        }
        let run = run_case(&s);
        let v = check(&s, &run);
        (run, v)
    })
    .join()
    .unwrap_or_else(|_| verif_common::machinery_error("history worker panicked (harness bug)"))
}

pub fn run_histories(max_n: u64, threads: usize) -> AccH {
    let cases = history_cases(max_n);
    let n = cases.len();
    // (first index, abandon variant): None = run to completion, Some(k) = dropped after k polls
    let variants: Vec<Option<usize>> = vec![None, Some(1), Some(2), Some(3)];
    let next = AtomicUsize::new(0);
    let mut total = AccH { cases: n, ..Default::default() };
    std::thread::scope(|s| {
        let handles: Vec<_> = (0..threads.max(1))
            .map(|_| {
                s.spawn(|| {
                    let mut acc = AccH::default();
                    loop {
                        let i = next.fetch_add(1, Ordering::SeqCst);
                        if i >= n * variants.len() {
                            break;
                        }
                        let (fi, ab) = (i / variants.len(), variants[i % variants.len()]);
                        let first = &cases[fi];
                        if ab.is_some() {
                            acc.abandoned_firsts += 1;
                        }
                        for second in &cases {
                            // every pair starts from a thread that has never called the extractor: the pair is the whole history
                            let (run, viol) = pair_on_fresh_thread(first, ab, second);
                            acc.pairs += 1;
                            if viol.is_empty() {
                                continue;
                            }
                            // determinism: the same pair, again on a fresh thread, must show the same clauses
                            let (run2, viol2) = pair_on_fresh_thread(first, ab, second);
                            if viol2.iter().map(|x| &x.0).ne(viol.iter().map(|x| &x.0)) {
                                verif_common::machinery_error(&format!(
                                    "nondeterministic verdict for history {}",
                                    pair_json(first, ab, second, &run)
                                ));
                            }
                            let order = first.body.len() + first.steps.len() + second.body.len() + second.steps.len() + ab.unwrap_or(0);
                            for (key, what) in viol2 {
                                let key = format!("history:{key}");
                                if acc.violations.get(&key).is_none_or(|cur| cur.0 > order) {
                                    let how = match ab {
                                        Some(k) => format!("dropped after {k} poll(s)"),
                                        None => "run to completion".to_string(),
                                    };
                                    acc.violations.insert(
                                        key,
                                        (order, format!("after a first extraction ({how}; limit {}, {} bytes, script [{}] {:?}) on the same thread: {what}; second script [{}]",
                                                 first.limit, first.body.len(), render_steps(&first.steps), first.terminal, render_steps(&second.steps)),
                                         pair_json(first, ab, second, &run2)),
                                    );
                                }
                            }
                        }
                    }
                    acc
                })
            })
            .collect();
        for h in handles {
            match h.join() {
                Ok(a) => {
                    total.pairs += a.pairs;
                    total.abandoned_firsts += a.abandoned_firsts;
                    for (k, v) in a.violations {
                        if total.violations.get(&k).is_none_or(|cur| cur.0 > v.0) {
                            total.violations.insert(k, v);
                        }
                    }
                }
                Err(_) => verif_common::machinery_error("a Part A2 worker thread panicked (harness bug)"),
            }
        }
    });
    total
}

pub fn replay_history(v: &Value) -> bool {
    if let Some(hist) = v.get("history").and_then(|h| h.as_array()) {
        let hist: Vec<CaseA> = hist.iter().map(CaseA::from_json).collect();
        let second = CaseA::from_json(v.get("second").unwrap_or_else(|| verif_common::machinery_error("history replay lacks `second`")));
        let (run, viol) = seq_on_fresh_thread(&hist, &second);
        println!("history of {} case(s), then: {}", hist.len(), second.to_json());
        println!("observed for the last case: {}", run.outcome.to_json());
        for (k, w) in &viol {
            println!("violated: {k}: {w}");
        }
        return !viol.is_empty();
    }
    let first = CaseA::from_json(v.get("first").unwrap_or_else(|| verif_common::machinery_error("history replay lacks `first`")));
    let second = CaseA::from_json(v.get("second").unwrap_or_else(|| verif_common::machinery_error("history replay lacks `second`")));
    let ab = v.get("first_abandoned_after_polls").and_then(|x| x.as_u64()).map(|x| x as usize);
    let (run, viol) = pair_on_fresh_thread(&first, ab, &second);
    println!("first: {} abandoned_after={ab:?}", first.to_json());
    println!("second: {}", second.to_json());
    println!("observed for second: {}", run.outcome.to_json());
    for (k, w) in &viol {
        println!("violated: {k}: {w}");
    }
    !viol.is_empty()
}

/// Replay one case: prints observed vs expected, returns true if it still violates.
pub fn replay(v: &Value) -> bool {
    let case = CaseA::from_json(v);
    let run = run_case(&case);
    let class = classify(&case.cl, Some(case.limit), case.body.len());
    println!("case: {}", case.to_json());
    println!("observed: {} (polls={}, bytes pulled from body={})", run.outcome.to_json(), run.polls, run.delivered_bytes);
    println!("observed extractors on top: json={:?} form={:?}", run.json, run.form);
    println!(
        "expected: limit {} , {} bytes sent, Content-Length class {}, {} body => {}",
        case.limit,
        case.body.len(),
        class.as_str(),
        if case.wellformed() { "well-formed" } else { "error-terminated" },
        expected_text(Some(case.limit), case.body.len(), case.wellformed(), class)
    );
    let viol = check(&case, &run);
    for (k, w) in &viol {
        println!("violated: {k}: {w}");
    }
    !viol.is_empty()
}

pub fn expected_text(limit: Option<u64>, len: usize, wellformed: bool, class: ClClass) -> &'static str {
    let within = limit.is_none_or(|n| len as u64 <= n);
    if !wellformed {
        "any error, or Ok with exactly the delivered bytes and at most N of them"
    } else if !within {
        "Err(SizeLimitExceeded), never Ok"
    } else if matches!(class, ClClass::Absent | ClClass::Truthful) {
        "Ok with exactly the sent bytes"
    } else {
        "Ok with exactly the sent bytes, or Err(SizeLimitExceeded) (the header lies)"
    }
}
