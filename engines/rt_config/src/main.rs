//! rt_config — property C18: configuration sources merge with the documented precedence.
//!
//! Exhaustive enumeration of (key -> subset of sources) assignments x profile x way the profile is
//! supplied x configuration directory placement x target struct, each case executed by the real
//! `pavex::config::ConfigLoader::load` in a fresh child process (this same binary, `--child`)
//! whose environment is `env_clear` + the `PX_*` variables of the case and whose cwd is a scratch
//! directory under /verif/work/rt_config/.  The outcome is compared with a tiny reference model
//! (`expect`).
use pavex::config::{ConfigLoader, ConfigProfile};
use serde::{Deserialize, Serialize};
use serde_json::{Value, json};
use std::collections::{BTreeMap, BTreeSet, HashMap};
use std::path::{Path, PathBuf};
use std::process::Command;
use std::sync::atomic::{AtomicUsize, Ordering};

const SCRATCH: &str = "/verif/work/rt_config";
const WORKERS: usize = 16;

// ---------------------------------------------------------------------------------------------
// Subject-side types (what an application would write)
// ---------------------------------------------------------------------------------------------

/// Profile type 1: derived implementation, names `dev` / `prod`.
#[derive(ConfigProfile, Debug, Clone, Copy, PartialEq, Eq)]
pub enum Profile {
    #[px(profile = "dev")]
    Development,
    #[px(profile = "prod")]
    Production,
}

/// Profile type 3: derived implementation whose variants carry OTHER attributes next to
/// `#[px(profile = "...")]`: before it (doc comment, `#[allow]`, `#[cfg_attr]`, `#[default]` of
/// `#[derive(Default)]`) or after it. Every custom name differs from the snake_case variant name
/// (`doc_before`, `allow_before`, ...), which is what the derive falls back to without `#[px]`.
#[derive(ConfigProfile, Debug, Clone, Copy, PartialEq, Eq, Default)]
pub enum Stage {
    /// A doc comment written before the `px` attribute.
    #[px(profile = "doc_b")]
    DocBefore,
    #[allow(dead_code)]
    #[px(profile = "allow_b")]
    AllowBefore,
    #[cfg_attr(all(), allow(dead_code))]
    #[px(profile = "cfgattr_b")]
    CfgAttrBefore,
    #[default]
    #[px(profile = "default_b")]
    DefaultBefore,
    #[px(profile = "allow_a")]
    #[allow(dead_code)]
    AllowAfter,
    #[px(profile = "doc_a")]
    /// A doc comment written after the `px` attribute.
    DocAfter,
}
/// snake_case names of the variants of `Stage` and `Profile` (decoy file names)
const STAGE_SNAKE: [&str; 6] = ["doc_before", "allow_before", "cfg_attr_before", "default_before", "allow_after", "doc_after"];
const PROFILE_SNAKE: [&str; 2] = ["development", "production"];

/// Profile type 2: hand-written implementation (as documented on the trait) whose names contain a
/// dot, which the derive macro forbids: `prod.eu` / `prod.us`.
#[derive(Debug, Clone, Copy, PartialEq, Eq)]
pub enum Region {
    ProdEu,
    ProdUs,
}
#[derive(Debug)]
pub struct UnknownRegion(String);
impl std::fmt::Display for UnknownRegion {
    fn fmt(&self, f: &mut std::fmt::Formatter<'_>) -> std::fmt::Result {
        write!(f, "Invalid profile: `{}`. Valid options are: `prod.eu`, `prod.us`", self.0)
    }
}
impl std::error::Error for UnknownRegion {}
impl std::str::FromStr for Region {
    type Err = UnknownRegion;
    fn from_str(s: &str) -> Result<Self, Self::Err> {
        match s {
            "prod.eu" => Ok(Region::ProdEu),
            "prod.us" => Ok(Region::ProdUs),
            _ => Err(UnknownRegion(s.to_string())),
        }
    }
}
impl AsRef<str> for Region {
    fn as_ref(&self) -> &str {
        match self {
            Region::ProdEu => "prod.eu",
            Region::ProdUs => "prod.us",
        }
    }
}
impl ConfigProfile for Region {}

#[derive(Debug, Deserialize)]
struct OptB {
    c: Option<String>,
    d: Option<u64>,
    m: Option<Vec<String>>,
}
#[derive(Debug, Deserialize)]
struct OptCfg {
    a: Option<String>,
    b: Option<OptB>,
    l: Option<Vec<String>>,
}
#[derive(Debug, Deserialize)]
struct ReqB {
    c: String,
    d: u64,
    m: Vec<String>,
}
#[derive(Debug, Deserialize)]
struct ReqCfg {
    a: String,
    b: ReqB,
    l: Vec<String>,
}
#[derive(Debug, Deserialize)]
#[serde(deny_unknown_fields)]
struct DenyB {
    c: Option<String>,
    d: Option<u64>,
    m: Option<Vec<String>>,
}
#[derive(Debug, Deserialize)]
#[serde(deny_unknown_fields)]
struct DenyCfg {
    a: Option<String>,
    b: Option<DenyB>,
    l: Option<Vec<String>>,
}
/// Like `OptCfg` plus a field literally called `profile`: `PX_PROFILE` must never populate it.
#[derive(Debug, Deserialize)]
struct ProbeCfg {
    a: Option<String>,
    b: Option<OptB>,
    l: Option<Vec<String>>,
    profile: Option<Value>,
}

// ---------------------------------------------------------------------------------------------
// Case description
// ---------------------------------------------------------------------------------------------

const BASE: u8 = 1;
const PROF: u8 = 2;
const ENV: u8 = 4;
const NK: usize = 5;
const KEYS: [&str; NK] = ["a", "b.c", "b.d", "l", "b.m"];
const KEY_KIND: [&str; NK] = ["top", "nested", "nested", "list-top", "list-nested"];
const ENV_NAMES: [&str; NK] = ["PX_A", "PX_B__C", "PX_B__D", "PX_L", "PX_B__M"];
type Assign = [u8; NK];
type Vals = [Value; NK];

#[derive(Debug, Clone, Copy, PartialEq, Eq, Hash, PartialOrd, Ord, Serialize, Deserialize)]
enum PName {
    #[serde(rename = "dev")]
    Dev,
    #[serde(rename = "prod")]
    Prod,
    #[serde(rename = "prod.eu")]
    ProdEu,
    #[serde(rename = "prod.us")]
    ProdUs,
    #[serde(rename = "doc_b")]
    DocB,
    #[serde(rename = "allow_b")]
    AllowB,
    #[serde(rename = "cfgattr_b")]
    CfgAttrB,
    #[serde(rename = "default_b")]
    DefaultB,
    #[serde(rename = "allow_a")]
    AllowA,
    #[serde(rename = "doc_a")]
    DocA,
}
impl PName {
    fn as_str(self) -> &'static str {
        match self {
            PName::Dev => "dev",
            PName::Prod => "prod",
            PName::ProdEu => "prod.eu",
            PName::ProdUs => "prod.us",
            PName::DocB => "doc_b",
            PName::AllowB => "allow_b",
            PName::CfgAttrB => "cfgattr_b",
            PName::DefaultB => "default_b",
            PName::AllowA => "allow_a",
            PName::DocA => "doc_a",
        }
    }
    fn other(self) -> PName {
        match self {
            PName::Dev => PName::Prod,
            PName::Prod => PName::Dev,
            PName::ProdEu => PName::ProdUs,
            PName::ProdUs => PName::ProdEu,
            PName::DocB => PName::AllowA,
            PName::AllowA => PName::DocB,
            PName::AllowB => PName::DocA,
            PName::DocA => PName::AllowB,
            PName::CfgAttrB => PName::DefaultB,
            PName::DefaultB => PName::CfgAttrB,
        }
    }
    /// hand-written `ConfigProfile` impl (`Region`) rather than the derived one (`Profile`)
    fn manual(self) -> bool {
        matches!(self, PName::ProdEu | PName::ProdUs)
    }
    /// derived impl on the enum whose variants mix `#[px]` with other attributes (`Stage`)
    fn attrs(self) -> bool {
        matches!(self, PName::DocB | PName::AllowB | PName::CfgAttrB | PName::DefaultB | PName::AllowA | PName::DocA)
    }
    fn ptype(self) -> &'static str {
        if self.manual() {
            "manual"
        } else if self.attrs() {
            "derived-attrs"
        } else {
            "derived"
        }
    }
}
const PNAMES: [PName; 10] = [
    PName::Dev,
    PName::Prod,
    PName::ProdEu,
    PName::ProdUs,
    PName::DocB,
    PName::AllowB,
    PName::CfgAttrB,
    PName::DefaultB,
    PName::AllowA,
    PName::DocA,
];
const CORE_PROFILES: [PName; 4] = [PName::Dev, PName::Prod, PName::ProdEu, PName::ProdUs];
const ATTR_PROFILES: [PName; 6] = [PName::DocB, PName::AllowB, PName::CfgAttrB, PName::DefaultB, PName::AllowA, PName::DocA];

#[derive(Debug, Clone, Copy, PartialEq, Eq, Hash, PartialOrd, Ord, Serialize, Deserialize)]
#[serde(rename_all = "kebab-case")]
enum PMode {
    /// `PX_PROFILE=<profile>`, no `.profile()` call
    EnvValid,
    /// `.profile(p)`, `PX_PROFILE` unset
    Explicit,
    /// `.profile(p)`, `PX_PROFILE=<the other profile of the same type>`
    ExplicitEnvOther,
    /// `.profile(p)`, `PX_PROFILE=staging` (not a valid profile)
    ExplicitEnvInvalid,
    /// no `.profile()`, `PX_PROFILE` unset  => Err
    NoneUnset,
    /// no `.profile()`, `PX_PROFILE=staging` => Err
    NoneInvalid,
    /// no `.profile()`, `PX_PROFILE=` (empty) => Err
    NoneEmpty,
}
const PMODES_OK: [PMode; 4] = [
    PMode::EnvValid,
    PMode::Explicit,
    PMode::ExplicitEnvOther,
    PMode::ExplicitEnvInvalid,
];
const PMODES_ERR: [PMode; 3] = [PMode::NoneUnset, PMode::NoneInvalid, PMode::NoneEmpty];

#[derive(Debug, Clone, Copy, PartialEq, Eq, Hash, PartialOrd, Ord, Serialize, Deserialize)]
#[serde(rename_all = "kebab-case")]
enum DMode {
    /// default dir name (`configuration`, no `.configuration_dir()` call), found in cwd
    RelCwdDefault,
    /// `.configuration_dir("settings")`, found in cwd
    RelCwdNamed,
    /// default dir name, absent from cwd, found in the parent of cwd
    RelParentDefault,
    /// `.configuration_dir("settings")`, absent from cwd and its parent, found in the grandparent
    RelGrandparentNamed,
    /// `.configuration_dir("/abs/…/cfg")`
    Absolute,
}
const DMODES: [DMode; 5] = [
    DMode::RelCwdDefault,
    DMode::RelCwdNamed,
    DMode::RelParentDefault,
    DMode::RelGrandparentNamed,
    DMode::Absolute,
];

#[derive(Debug, Clone, Copy, PartialEq, Eq, Hash, PartialOrd, Ord, Serialize, Deserialize)]
#[serde(rename_all = "kebab-case")]
enum Target {
    Option,
    Required,
    DenyUnknown,
    ProbeProfileField,
}
const TARGETS: [Target; 4] = [
    Target::Option,
    Target::Required,
    Target::DenyUnknown,
    Target::ProbeProfileField,
];

#[derive(Debug, Clone, Copy, PartialEq, Eq, Hash, PartialOrd, Ord, Serialize, Deserialize)]
#[serde(rename_all = "kebab-case")]
enum FMode {
    /// base.yml and <profile>.yml both exist (`{}` when no key is assigned to them); a decoy
    /// directory of the same name with different values sits one level further up.
    All,
    /// <profile>.yml does not exist (no key assigned to it). No decoy.
    NoProfileFile,
    /// base.yml does not exist (no key assigned to it). No decoy.
    NoBaseFile,
    /// neither exists, the directory does. No decoy.
    NoFiles,
    /// the configuration directory does not exist anywhere. No decoy.
    NoDir,
    /// nearest directory holds only base.yml, the next one up holds only <profile>.yml
    /// (observation only: the docs say the search stops at the first matching directory).
    SplitDir,
}

#[derive(Debug, Clone, PartialEq, Eq, Hash, PartialOrd, Ord, Serialize, Deserialize)]
struct Case {
    /// bitmask per key (a, b.c, b.d, l, b.m): 1 = base.yml, 2 = <profile>.yml, 4 = env
    assign: Assign,
    profile: PName,
    pmode: PMode,
    dmode: DMode,
    target: Target,
    files: FMode,
    /// machinery control: adds `PX_ZZZ=1` (an unknown key) to the environment
    #[serde(default)]
    control_unknown_env: bool,
    /// history: before the load under observation the same process loads the configuration of the OTHER profile
    /// (explicit `.profile(..)`) from the same directory into the same target; a load must not depend on earlier loads
    #[serde(default)]
    prelude_other_profile: bool,
    /// an environment variable that is PRESENT but blank: 1 = `PX_A=` (string key: the value is the empty string, not the
    /// files' value), 2 = `PX_B__D=` (number key: a blank cannot be a number => error, never the files' value)
    #[serde(default)]
    blank_env: u8,
}

fn name_of<T: Serialize>(v: T) -> String {
    json!(v).as_str().unwrap_or("?").to_string()
}

const TAGS: [&str; 8] = ["base", "profile", "env", "other", "decoy", "staging", "stem", "snake"];

/// Source-tagged distinct values. Lists have source-dependent lengths, so that concatenation,
/// index-wise merging and truncation are all distinguishable from whole-value replacement.
fn sval(key: usize, tag: &str) -> Value {
    let list = |prefix: &str, n: usize| -> Value {
        json!((1..=n).map(|i| format!("{prefix}-{tag}-{i}")).collect::<Vec<_>>())
    };
    match key {
        0 => json!(format!("a-{tag}")),
        1 => json!(format!("c-{tag}")),
        2 => json!(match tag {
            "base" => 11u64,
            "profile" => 22,
            "env" => 33,
            "other" => 44,
            "decoy" => 55,
            "staging" => 66,
            "stem" => 77,
            "snake" => 88,
            _ => 99,
        }),
        3 => list("l", match tag {
            "base" => 2,
            "profile" => 3,
            "env" => 1,
            "other" => 2,
            _ => 1,
        }),
        _ => list("m", match tag {
            "base" => 1,
            "profile" => 2,
            "env" => 3,
            "other" => 2,
            _ => 1,
        }),
    }
}

fn tag_of(key: usize, v: &Value) -> String {
    if v.is_null() {
        return "none".into();
    }
    for t in TAGS {
        if &sval(key, t) == v {
            return t.into();
        }
    }
    if let Some(arr) = v.as_array() {
        // a list that is not exactly one source's list: name the sources of its elements
        let mut tags: Vec<String> = Vec::new();
        for e in arr {
            let t = e
                .as_str()
                .and_then(|s| s.split('-').nth(1))
                .filter(|t| TAGS.contains(t))
                .unwrap_or("unrecognised")
                .to_string();
            if tags.last() != Some(&t) {
                tags.push(t);
            }
        }
        return format!("elements[{}]", tags.join("+"));
    }
    "unrecognised".into()
}

fn yaml_doc(vals: [Option<Value>; NK]) -> String {
    let mut s = String::new();
    if let Some(a) = &vals[0] {
        s += &format!("a: {a}\n");
    }
    if vals[1].is_some() || vals[2].is_some() || vals[4].is_some() {
        s += "b:\n";
        if let Some(c) = &vals[1] {
            s += &format!("  c: {c}\n");
        }
        if let Some(d) = &vals[2] {
            s += &format!("  d: {d}\n");
        }
        if let Some(m) = &vals[4] {
            // block sequence
            s += "  m:\n";
            for e in m.as_array().into_iter().flatten() {
                s += &format!("    - {e}\n");
            }
        }
    }
    if let Some(l) = &vals[3] {
        // flow sequence
        s += &format!("l: {l}\n");
    }
    if s.is_empty() {
        s = "{}\n".into();
    }
    s
}

fn yaml_tagged(assign: &Assign, bit: u8, tag: &str) -> String {
    let mut vals: [Option<Value>; NK] = Default::default();
    for k in 0..NK {
        if assign[k] & bit != 0 {
            vals[k] = Some(sval(k, tag));
        }
    }
    yaml_doc(vals)
}

fn yaml_all(tag: &str) -> String {
    yaml_tagged(&[7; NK], 7, tag)
}

// ---------------------------------------------------------------------------------------------
// Scratch layout + environment of a case
// ---------------------------------------------------------------------------------------------

/// A scratch directory owned by one thread, with a cache of what was last written to the files of
/// its persistent trees (so that unchanged files are not rewritten for every case).
struct Scratch {
    root: PathBuf,
    written: HashMap<PathBuf, String>,
}
impl Scratch {
    fn new(root: PathBuf) -> Scratch {
        Scratch {
            root,
            written: HashMap::new(),
        }
    }
    fn cleanup(&mut self) {
        let _ = std::fs::remove_dir_all(&self.root);
        self.written.clear();
    }
}

struct Setup {
    cwd: PathBuf,
    /// argument for `.configuration_dir(..)`, None = do not call it
    confdir_arg: Option<String>,
    env: Vec<(String, String)>,
    /// argument for `.profile(..)`
    explicit: Option<String>,
    /// (path, content) of every file of the tree, for the replay artefact
    files: Vec<(String, String)>,
}

/// `cached` = the file lives in a persistent tree: skip the write if the same content was written
/// there last time.
fn mkfile(sc: &mut Scratch, files: &mut Vec<(String, String)>, cached: bool, dir: &Path, name: &str, content: String) {
    let p = dir.join(name);
    let skip = cached && sc.written.get(&p) == Some(&content);
    if !skip {
        if let Err(e) = std::fs::create_dir_all(dir) {
            verif_common::machinery_error(&format!("mkdir {}: {e}", dir.display()));
        }
        if let Err(e) = std::fs::write(&p, &content) {
            verif_common::machinery_error(&format!("write {}: {e}", p.display()));
        }
        if cached {
            sc.written.insert(p.clone(), content.clone());
        }
    }
    files.push((p.display().to_string(), content));
}

/// Prepare the scratch tree of a case. For `FMode::All` (the bulk of the run) the tree
/// `root/all-<dmode>-<profile type>` is kept between cases: every file of the tree is (re)written
/// through the write cache, i.e. only when its content differs from what this thread wrote there
/// last. Every other family gets a tree rebuilt from nothing (`root/misc`).
fn setup(case: &Case, sc: &mut Scratch) -> Setup {
    let persistent = case.files == FMode::All;
    let tree = if persistent {
        sc.root.join(format!("all-{}-{}", name_of(case.dmode), case.profile.ptype()))
    } else {
        let t = sc.root.join("misc");
        if t.exists()
            && let Err(e) = std::fs::remove_dir_all(&t)
        {
            verif_common::machinery_error(&format!("cannot clean {}: {e}", t.display()));
        }
        t
    };
    let g = tree.join("g");
    let p = g.join("p");
    let cwd = p.join("cwd");
    if !cwd.is_dir()
        && let Err(e) = std::fs::create_dir_all(&cwd)
    {
        verif_common::machinery_error(&format!("mkdir {}: {e}", cwd.display()));
    }
    let (name, confdir_arg): (&str, Option<String>) = match case.dmode {
        DMode::RelCwdDefault | DMode::RelParentDefault => ("configuration", None),
        DMode::RelCwdNamed | DMode::RelGrandparentNamed => ("settings", Some("settings".into())),
        DMode::Absolute => ("cfg", Some(tree.join("abs").join("cfg").display().to_string())),
    };
    // `real` = where the loader is supposed to find the files; `up` = one search step further
    let (real, up): (PathBuf, PathBuf) = match case.dmode {
        DMode::RelCwdDefault | DMode::RelCwdNamed => (cwd.join(name), p.join(name)),
        DMode::RelParentDefault => (p.join(name), g.join(name)),
        DMode::RelGrandparentNamed => (g.join(name), tree.join(name)),
        // absolute: the decoy is the default relative directory in cwd
        DMode::Absolute => (tree.join("abs").join("cfg"), cwd.join("configuration")),
    };
    let mut files = Vec::new();
    let prof = case.profile.as_str();
    let other = case.profile.other().as_str();
    let base_doc = yaml_tagged(&case.assign, BASE, "base");
    let prof_doc = yaml_tagged(&case.assign, PROF, "profile");
    let c = persistent;
    // files next to the real ones that must never be read: the other profile of the same type,
    // `staging.yml` (the invalid PX_PROFILE value), for dotted profile names the file named
    // after the part before the dot (`prod.yml`), for derived impls the files named after the
    // snake_case variant names
    let extras = |sc: &mut Scratch, files: &mut Vec<(String, String)>| {
        mkfile(sc, files, c, &real, &format!("{other}.yml"), yaml_all("other"));
        mkfile(sc, files, c, &real, "staging.yml", yaml_all("staging"));
        if case.profile.manual() {
            mkfile(sc, files, c, &real, "prod.yml", yaml_all("stem"));
        } else {
            // derived impls: files named after the snake_case variant names, which is what the
            // derive uses when a variant has no `#[px(profile = ..)]`
            let snake: &[&str] = if case.profile.attrs() { &STAGE_SNAKE } else { &PROFILE_SNAKE };
            for n in snake {
                mkfile(sc, files, c, &real, &format!("{n}.yml"), yaml_all("snake"));
            }
        }
    };
    match case.files {
        FMode::All => {
            mkfile(sc, &mut files, c, &real, "base.yml", base_doc);
            mkfile(sc, &mut files, c, &real, &format!("{prof}.yml"), prof_doc);
            extras(sc, &mut files);
            for f in ["base.yml", "dev.yml", "prod.yml", "prod.eu.yml", "prod.us.yml", "staging.yml"] {
                mkfile(sc, &mut files, c, &up, f, yaml_all("decoy"));
            }
        }
        FMode::NoProfileFile => {
            mkfile(sc, &mut files, c, &real, "base.yml", base_doc);
            extras(sc, &mut files);
        }
        FMode::NoBaseFile => {
            mkfile(sc, &mut files, c, &real, &format!("{prof}.yml"), prof_doc);
            extras(sc, &mut files);
        }
        FMode::NoFiles => {
            extras(sc, &mut files);
        }
        FMode::NoDir => {}
        FMode::SplitDir => {
            mkfile(sc, &mut files, c, &real, "base.yml", base_doc);
            mkfile(sc, &mut files, c, &up, &format!("{prof}.yml"), prof_doc);
        }
    }
    let mut env: Vec<(String, String)> = Vec::new();
    for k in 0..NK {
        if case.assign[k] & ENV != 0 {
            // strings as written, numbers in decimal, lists in figment's documented TOML-like
            // syntax: `["x","y"]` (Array delimited by `[]`, String delimited by `"`)
            let v = sval(k, "env");
            let mut s = match &v {
                Value::String(s) => s.clone(),
                other => other.to_string(),
            };
            if (case.blank_env == 1 && k == 0) || (case.blank_env == 2 && k == 2) {
                s = String::new();
            }
            env.push((ENV_NAMES[k].to_string(), s));
        }
    }
    let px_profile: Option<String> = match case.pmode {
        PMode::EnvValid => Some(prof.to_string()),
        PMode::Explicit | PMode::NoneUnset => None,
        PMode::ExplicitEnvOther => Some(other.to_string()),
        PMode::ExplicitEnvInvalid | PMode::NoneInvalid => Some("staging".into()),
        PMode::NoneEmpty => Some(String::new()),
    };
    if let Some(v) = px_profile {
        env.push(("PX_PROFILE".into(), v));
    }
    if case.control_unknown_env {
        env.push(("PX_ZZZ".into(), "1".into()));
    }
    env.sort();
    let explicit = match case.pmode {
        PMode::Explicit | PMode::ExplicitEnvOther | PMode::ExplicitEnvInvalid => Some(prof.to_string()),
        _ => None,
    };
    Setup {
        cwd,
        confdir_arg,
        env,
        explicit,
        files,
    }
}

// ---------------------------------------------------------------------------------------------
// Child: run the real loader once
// ---------------------------------------------------------------------------------------------

fn error_chain(e: &dyn std::error::Error) -> String {
    let mut s = e.to_string();
    let mut cur = e.source();
    while let Some(c) = cur {
        s += " | ";
        s += &c.to_string();
        cur = c.source();
    }
    s
}

fn run_loader<P: ConfigProfile>(explicit: Option<P>, confdir: &str, target: &str) -> Value {
    let mut loader = ConfigLoader::<P>::new();
    if let Some(p) = explicit {
        loader = loader.profile(p);
    }
    if confdir != "-" {
        loader = loader.configuration_dir(confdir.to_string());
    }
    let res: Result<Value, pavex::config::errors::ConfigLoadError> = match target {
        "option" => loader.load::<OptCfg>().map(|c| {
            let (cc, d, m) = c.b.map(|b| (json!(b.c), json!(b.d), json!(b.m))).unwrap_or_default();
            json!({"a": c.a, "b.c": cc, "b.d": d, "l": c.l, "b.m": m, "profile_field": null})
        }),
        "required" => loader.load::<ReqCfg>().map(|c| {
            json!({"a": c.a, "b.c": c.b.c, "b.d": c.b.d, "l": c.l, "b.m": c.b.m, "profile_field": null})
        }),
        "deny-unknown" => loader.load::<DenyCfg>().map(|c| {
            let (cc, d, m) = c.b.map(|b| (json!(b.c), json!(b.d), json!(b.m))).unwrap_or_default();
            json!({"a": c.a, "b.c": cc, "b.d": d, "l": c.l, "b.m": m, "profile_field": null})
        }),
        "probe-profile-field" => loader.load::<ProbeCfg>().map(|c| {
            let (cc, d, m) = c.b.map(|b| (json!(b.c), json!(b.d), json!(b.m))).unwrap_or_default();
            json!({"a": c.a, "b.c": cc, "b.d": d, "l": c.l, "b.m": m, "profile_field": c.profile})
        }),
        other => return json!({"outcome": "child-usage", "msg": format!("target {other}")}),
    };
    match res {
        Ok(v) => json!({"outcome": "ok", "values": v}),
        Err(e) => json!({"outcome": "err", "chain": error_chain(&e)}),
    }
}

fn child_main(argv: &[String]) -> ! {
    // argv: <target> <profile type: derived|manual> <explicit-profile|-> <confdir|->
    let arg = |i: usize| argv.get(i).cloned().unwrap_or_else(|| "-".into());
    let (target, ptype, explicit, confdir) = (arg(0), arg(1), arg(2), arg(3));
    let prelude = arg(4);
    let run = move || -> Value {
        // history: an earlier load of another profile in this very process (its result is discarded)
        match (ptype.as_str(), prelude.as_str()) {
            (_, "-") => {}
            ("derived", "dev") => drop(run_loader(Some(Profile::Development), &confdir, &target)),
            ("derived", "prod") => drop(run_loader(Some(Profile::Production), &confdir, &target)),
            ("manual", "prod.eu") => drop(run_loader(Some(Region::ProdEu), &confdir, &target)),
            ("manual", "prod.us") => drop(run_loader(Some(Region::ProdUs), &confdir, &target)),
            (t, p) => return json!({"outcome": "child-usage", "msg": format!("prelude profile type {t} / profile {p}")}),
        }
        match (ptype.as_str(), explicit.as_str()) {
            ("derived", "-") => run_loader::<Profile>(None, &confdir, &target),
            ("derived", "dev") => run_loader(Some(Profile::Development), &confdir, &target),
            ("derived", "prod") => run_loader(Some(Profile::Production), &confdir, &target),
            ("derived-attrs", "-") => run_loader::<Stage>(None, &confdir, &target),
            ("derived-attrs", "doc_b") => run_loader(Some(Stage::DocBefore), &confdir, &target),
            ("derived-attrs", "allow_b") => run_loader(Some(Stage::AllowBefore), &confdir, &target),
            ("derived-attrs", "cfgattr_b") => run_loader(Some(Stage::CfgAttrBefore), &confdir, &target),
            // `#[default]` variant, obtained the way an application would
            ("derived-attrs", "default_b") => run_loader(Some(Stage::default()), &confdir, &target),
            ("derived-attrs", "allow_a") => run_loader(Some(Stage::AllowAfter), &confdir, &target),
            ("derived-attrs", "doc_a") => run_loader(Some(Stage::DocAfter), &confdir, &target),
            ("manual", "-") => run_loader::<Region>(None, &confdir, &target),
            ("manual", "prod.eu") => run_loader(Some(Region::ProdEu), &confdir, &target),
            ("manual", "prod.us") => run_loader(Some(Region::ProdUs), &confdir, &target),
            (t, p) => json!({"outcome": "child-usage", "msg": format!("profile type {t} / profile {p}")}),
        }
    };
    std::panic::set_hook(Box::new(|_| {}));
    let mut out = match std::panic::catch_unwind(run) {
        Ok(v) => v,
        Err(p) => {
            let msg = p
                .downcast_ref::<String>()
                .cloned()
                .or_else(|| p.downcast_ref::<&str>().map(|s| s.to_string()))
                .unwrap_or_else(|| "<non-string panic>".into());
            json!({"outcome": "panic", "msg": msg})
        }
    };
    // echo what the child really saw, so the parent can verify the environment was controlled
    let mut env: Vec<(String, String)> = std::env::vars_os()
        .map(|(k, v)| (k.to_string_lossy().into_owned(), v.to_string_lossy().into_owned()))
        .collect();
    env.sort();
    out["seen_env"] = json!(env);
    out["seen_cwd"] = json!(std::env::current_dir().map(|p| p.display().to_string()).unwrap_or_default());
    println!("{out}");
    std::process::exit(0)
}

// ---------------------------------------------------------------------------------------------
// Parent: execute one case
// ---------------------------------------------------------------------------------------------

#[derive(Debug, Clone, PartialEq)]
enum Observed {
    Ok { vals: Vals, profile_field: Value },
    Err { chain: String },
    Panic { msg: String },
}

fn vals_json(v: &Vals) -> Value {
    let mut m = serde_json::Map::new();
    for k in 0..NK {
        m.insert(KEYS[k].to_string(), v[k].clone());
    }
    Value::Object(m)
}

impl Observed {
    fn to_json(&self) -> Value {
        match self {
            Observed::Ok { vals, profile_field } => json!({"outcome": "ok", "values": vals_json(vals), "profile_field": profile_field}),
            Observed::Err { chain } => json!({"outcome": "err", "chain": chain}),
            Observed::Panic { msg } => json!({"outcome": "panic", "msg": msg}),
        }
    }
    fn class(&self) -> String {
        match self {
            Observed::Ok { .. } => "ok".to_string(),
            Observed::Err { chain } => format!("err:{}", err_class(chain)),
            Observed::Panic { .. } => "panic".to_string(),
        }
    }
}

static SPAWNED: AtomicUsize = AtomicUsize::new(0);

/// The profile whose file `setup` writes next to the case's own (tag `other`).
fn other_profile_name(p: PName) -> &'static str {
    match p {
        PName::Dev => "prod",
        PName::Prod => "dev",
        PName::ProdEu => "prod.us",
        PName::ProdUs => "prod.eu",
        _ => "-",
    }
}

fn run_case(case: &Case, sc: &mut Scratch, exe: &Path) -> (Observed, Setup) {
    let su = setup(case, sc);
    let mut cmd = Command::new(exe);
    cmd.arg("--child")
        .arg(name_of(case.target))
        .arg(case.profile.ptype())
        .arg(su.explicit.as_deref().unwrap_or("-"))
        .arg(su.confdir_arg.as_deref().unwrap_or("-"))
        .arg(if case.prelude_other_profile { other_profile_name(case.profile) } else { "-" })
        .env_clear()
        .envs(su.env.iter().map(|(k, v)| (k.as_str(), v.as_str())))
        .current_dir(&su.cwd)
        .stdin(std::process::Stdio::null());
    SPAWNED.fetch_add(1, Ordering::Relaxed);
    let out = cmd
        .output()
        .unwrap_or_else(|e| verif_common::machinery_error(&format!("cannot spawn child: {e}")));
    if !out.status.success() {
        verif_common::machinery_error(&format!(
            "child failed ({:?}) for case {}: stderr={}",
            out.status,
            serde_json::to_string(case).unwrap(),
            String::from_utf8_lossy(&out.stderr)
        ));
    }
    let stdout = String::from_utf8_lossy(&out.stdout);
    let line = stdout.lines().last().unwrap_or("");
    let v: Value = serde_json::from_str(line).unwrap_or_else(|e| {
        verif_common::machinery_error(&format!("child output not JSON ({e}): {stdout}"))
    });
    // the child's environment and cwd must be exactly what the case prescribes
    let seen_env: Vec<(String, String)> = serde_json::from_value(v["seen_env"].clone()).unwrap_or_default();
    if seen_env != su.env {
        verif_common::machinery_error(&format!(
            "child environment not controlled: wanted {:?}, child saw {:?}",
            su.env, seen_env
        ));
    }
    if v["seen_cwd"].as_str() != su.cwd.to_str() {
        let want_cwd = std::fs::canonicalize(&su.cwd).unwrap_or(su.cwd.clone());
        if Path::new(v["seen_cwd"].as_str().unwrap_or("")) != want_cwd {
            verif_common::machinery_error(&format!(
                "child cwd not controlled: wanted {}, child saw {}",
                want_cwd.display(),
                v["seen_cwd"]
            ));
        }
    }
    let obs = match v["outcome"].as_str() {
        Some("ok") => {
            let mut vals: Vals = Default::default();
            for k in 0..NK {
                vals[k] = v["values"][KEYS[k]].clone();
            }
            Observed::Ok {
                vals,
                profile_field: v["values"]["profile_field"].clone(),
            }
        }
        Some("err") => Observed::Err {
            chain: v["chain"].as_str().unwrap_or("").to_string(),
        },
        Some("panic") => Observed::Panic {
            msg: v["msg"].as_str().unwrap_or("").to_string(),
        },
        other => verif_common::machinery_error(&format!("child outcome {other:?}: {line}")),
    };
    (obs, su)
}

// ---------------------------------------------------------------------------------------------
// Reference model
// ---------------------------------------------------------------------------------------------

#[derive(Debug, Clone, PartialEq)]
enum Expect {
    /// the property forces an error
    MustErr(&'static str),
    /// the property forces exactly these values
    MustOk(Vals),
    /// a file/directory is missing: the property text and docs force neither Ok nor Err, but if
    /// the load succeeds the values must still follow the precedence over the sources that exist
    ErrOrOk(Vals),
    /// split directory: per key either reading (docs: ancestor profile file not used; code:
    /// used) is accepted; observation only
    SplitEither { docs: Vals, code: Vals },
}

fn winner(bits: u8) -> &'static str {
    if bits & ENV != 0 {
        "env"
    } else if bits & PROF != 0 {
        "profile"
    } else if bits & BASE != 0 {
        "base"
    } else {
        "none"
    }
}

/// Whole-value replacement for every key, lists included.
fn merged(assign: &Assign, mask: u8) -> Vals {
    let mut out: Vals = Default::default();
    for k in 0..NK {
        let w = winner(assign[k] & mask);
        if w != "none" {
            out[k] = sval(k, w);
        }
    }
    out
}

fn expect(case: &Case) -> Expect {
    match case.pmode {
        PMode::NoneUnset => return Expect::MustErr("profile-unset"),
        PMode::NoneInvalid | PMode::NoneEmpty => return Expect::MustErr("profile-invalid"),
        _ => {}
    }
    if case.control_unknown_env && case.target == Target::DenyUnknown {
        return Expect::MustErr("control-unknown-env-key");
    }
    let mut full = merged(&case.assign, BASE | PROF | ENV);
    if case.blank_env == 1 && case.assign[0] & ENV != 0 {
        full[0] = Value::String(String::new());
    }
    if case.blank_env == 2 && case.assign[2] & ENV != 0 {
        return Expect::MustErr("blank-env-value-for-a-number");
    }
    let required_missing = case.target == Target::Required && full.iter().any(|v| v.is_null());
    if required_missing {
        return Expect::MustErr("required-key-missing");
    }
    match case.files {
        FMode::All => Expect::MustOk(full),
        FMode::SplitDir => Expect::SplitEither {
            docs: merged(&case.assign, BASE | ENV),
            code: full,
        },
        _ => Expect::ErrOrOk(full),
    }
}

fn err_class(chain: &str) -> &'static str {
    let c = chain.to_ascii_lowercase();
    if c.contains("unknown field") && c.contains("profile") {
        "unknown-field-profile"
    } else if c.contains("unknown field") {
        "unknown-field"
    } else if c.contains("missing field") {
        "missing-field"
    } else if c.contains("not set") {
        "px-profile-not-set"
    } else if c.contains("invalid profile") || c.contains("parse the configuration profile") {
        "px-profile-invalid"
    } else {
        "other"
    }
}

fn sources_of(bits: u8) -> Vec<&'static str> {
    let mut v = Vec::new();
    if bits & BASE != 0 {
        v.push("base.yml");
    }
    if bits & PROF != 0 {
        v.push("<profile>.yml");
    }
    if bits & ENV != 0 {
        v.push("env");
    }
    v
}

/// Returns the list of (violation key, description) for one case; empty = conforms.
fn judge(case: &Case, exp: &Expect, obs: &Observed) -> Vec<(String, String)> {
    let mut out = Vec::new();
    let cmp_vals = |out: &mut Vec<(String, String)>, want: &Vals, got: &Vals| {
        for k in 0..NK {
            if want[k] != got[k] {
                out.push((
                    format!("precedence:{}:want={}:got={}", KEY_KIND[k], tag_of(k, &want[k]), tag_of(k, &got[k])),
                    format!(
                        "key `{}` assigned to sources {:?}: reference value {} (from {}), loader produced {} (from {})",
                        KEYS[k],
                        sources_of(case.assign[k]),
                        want[k],
                        tag_of(k, &want[k]),
                        got[k],
                        tag_of(k, &got[k])
                    ),
                ));
            }
        }
    };
    let probe = |out: &mut Vec<(String, String)>, profile_field: &Value| {
        if !profile_field.is_null() {
            out.push((
                "px-profile-surfaced-as-key".into(),
                format!("PX_PROFILE was deserialized into the configuration field `profile` = {profile_field}"),
            ));
        }
    };
    match (exp, obs) {
        (_, Observed::Panic { msg }) => out.push(("loader-panicked".into(), format!("ConfigLoader::load panicked: {msg}"))),
        (Expect::MustErr(reason), Observed::Ok { vals, .. }) => out.push((
            format!("unexpected-ok:{reason}"),
            format!("load returned Ok({}) although the property requires an error ({reason})", vals_json(vals)),
        )),
        (Expect::MustErr(_), Observed::Err { .. }) => {}
        (Expect::MustOk(want), Observed::Ok { vals, profile_field }) => {
            cmp_vals(&mut out, want, vals);
            probe(&mut out, profile_field);
        }
        (Expect::MustOk(_), Observed::Err { chain }) => out.push((
            format!("unexpected-err:{}", err_class(chain)),
            format!("load returned Err although every source is well-formed and every needed key is present: {chain}"),
        )),
        (Expect::ErrOrOk(want), Observed::Ok { vals, profile_field }) => {
            cmp_vals(&mut out, want, vals);
            probe(&mut out, profile_field);
        }
        (Expect::ErrOrOk(_), Observed::Err { chain }) => {
            // acceptable as long as it is not PX_PROFILE leaking into a deny_unknown_fields struct
            if err_class(chain) == "unknown-field-profile" {
                out.push(("unexpected-err:unknown-field-profile".into(), chain.clone()));
            }
        }
        (Expect::SplitEither { docs, code }, Observed::Ok { vals, profile_field }) => {
            for k in 0..NK {
                if vals[k] != docs[k] && vals[k] != code[k] {
                    out.push((
                        format!("precedence:{}:want={}:got={}", KEY_KIND[k], tag_of(k, &code[k]), tag_of(k, &vals[k])),
                        format!("split directory, key `{}`: got {} ; accepted {} or {}", KEYS[k], vals[k], docs[k], code[k]),
                    ));
                }
            }
            probe(&mut out, profile_field);
        }
        (Expect::SplitEither { .. }, Observed::Err { .. }) => {}
    }
    out
}

fn exp_json(e: &Expect) -> Value {
    match e {
        Expect::MustErr(r) => json!({"must": "err", "reason": r}),
        Expect::MustOk(v) => json!({"must": "ok", "values": vals_json(v), "profile_field": null}),
        Expect::ErrOrOk(v) => json!({"must": "err-or-ok-with", "values": vals_json(v)}),
        Expect::SplitEither { docs, code } => json!({"must": "either", "docs_reading": vals_json(docs), "code_reading": vals_json(code)}),
    }
}

// ---------------------------------------------------------------------------------------------
// Enumeration plan
// ---------------------------------------------------------------------------------------------

/// base -> profile -> env -> base
fn rot(bits: u8) -> u8 {
    ((bits << 1) & 7) | (bits >> 2)
}

/// a, b.c, b.d, l each over all 8 subsets (8^4 = 4096); the nested list b.m follows l rotated
fn main_assigns() -> Vec<Assign> {
    let mut v = Vec::new();
    for a in 0..8u8 {
        for c in 0..8u8 {
            for d in 0..8u8 {
                for l in 0..8u8 {
                    v.push([a, c, d, l, rot(l)]);
                }
            }
        }
    }
    v
}

/// both lists over all 8x8 subset pairs, scalars in three fixed configurations (192)
fn list_assigns() -> Vec<Assign> {
    let mut v = Vec::new();
    for s in [[0u8, 0, 0], [7, 7, 7], [1, 2, 4]] {
        for l in 0..8u8 {
            for m in 0..8u8 {
                v.push([s[0], s[1], s[2], l, m]);
            }
        }
    }
    v
}

/// quick: the three scalar keys over all 8^3 subsets, l tied to a's subset, b.m = rot(l) (512)
fn tied_assigns() -> Vec<Assign> {
    let mut v = Vec::new();
    for a in 0..8u8 {
        for c in 0..8u8 {
            for d in 0..8u8 {
                v.push([a, c, d, a, rot(a)]);
            }
        }
    }
    v
}

struct Slice {
    name: &'static str,
    assigns: Vec<Assign>,
    profiles: Vec<PName>,
    pmodes: Vec<PMode>,
    dmodes: Vec<DMode>,
    targets: Vec<Target>,
    files: FMode,
}

impl Slice {
    fn expand(&self, into: &mut BTreeSet<Case>) -> usize {
        let mut n = 0;
        for a in &self.assigns {
            for p in &self.profiles {
                for pm in &self.pmodes {
                    for dm in &self.dmodes {
                        for t in &self.targets {
                            n += 1;
                            into.insert(Case {
                                assign: *a,
                                profile: *p,
                                pmode: *pm,
                                dmode: *dm,
                                target: *t,
                                files: self.files,
                                control_unknown_env: false, prelude_other_profile: false, blank_env: 0,
                            });
                        }
                    }
                }
            }
        }
        n
    }
}

fn plan(tier: verif_common::Tier) -> (Vec<Case>, Vec<Value>) {
    use DMode::*;
    use PMode::*;
    let without = |src: &[Assign], bits: u8| -> Vec<Assign> {
        src.iter().copied().filter(|a| a.iter().all(|x| x & bits == 0)).collect()
    };
    let rel_with_ancestor = vec![RelCwdDefault, RelCwdNamed, RelParentDefault];
    let every = CORE_PROFILES.to_vec();
    let dotted = vec![PName::ProdEu, PName::ProdUs];
    let mut slices: Vec<Slice> = Vec::new();
    let mut s = |name, assigns: &[Assign], profiles: &[PName], pmodes: &[PMode], dmodes: &[DMode], targets: &[Target], files| {
        slices.push(Slice {
            name,
            assigns: assigns.to_vec(),
            profiles: profiles.to_vec(),
            pmodes: pmodes.to_vec(),
            dmodes: dmodes.to_vec(),
            targets: targets.to_vec(),
            files,
        })
    };
    if tier.is_thorough() {
        let main = main_assigns();
        let lists = list_assigns();
        let tied = tied_assigns();
        let small: Vec<Assign> = tied.iter().chain(lists.iter()).copied().collect::<BTreeSet<_>>().into_iter().collect();
        let union: Vec<Assign> = main.iter().chain(small.iter()).copied().collect::<BTreeSet<_>>().into_iter().collect();
        let derived = [PName::Dev, PName::Prod];
        s("main: full product, derived profiles (a, b.c, b.d, l over 8^4 subsets; b.m = rot(l))", &main, &derived, &PMODES_OK, &DMODES, &TARGETS, FMode::All);
        s("lists: l x b.m over 8x8 subsets, scalars in {none, everywhere, a@base b.c@profile b.d@env}; full product of the other factors, the four core profiles", &lists, &every, &PMODES_OK, &DMODES, &TARGETS, FMode::All);
        s("dotted profiles (hand-written ConfigProfile): tied assignments (a, b.c, b.d over 8^3, l tied to a, b.m = rot(l)); full product of the other factors", &tied, &dotted, &PMODES_OK, &DMODES, &TARGETS, FMode::All);
        s("attribute-order profiles (derive on variants mixing #[px] with doc/allow/cfg_attr/default attributes, before and after): tied assignments; pmodes x dmodes x targets{option,required}", &tied, &ATTR_PROFILES, &PMODES_OK, &DMODES, &[Target::Option, Target::Required], FMode::All);
        s("profile errors: tied assignments; profile type in {derived, manual, derived-attrs}; full product of the other factors", &tied, &[PName::Dev, PName::ProdEu, PName::DocB], &PMODES_ERR, &DMODES, &TARGETS, FMode::All);
        s("missing <profile>.yml", &without(&union, PROF), &every, &[EnvValid, Explicit], &DMODES, &TARGETS, FMode::NoProfileFile);
        s("missing base.yml", &without(&union, BASE), &every, &[EnvValid, Explicit], &DMODES, &TARGETS, FMode::NoBaseFile);
        s("missing both files", &without(&union, BASE | PROF), &every, &[EnvValid, Explicit], &DMODES, &TARGETS, FMode::NoFiles);
        s("missing directory", &without(&union, BASE | PROF), &every, &[EnvValid, Explicit], &DMODES, &TARGETS, FMode::NoDir);
        s("split directory (observation): tied + lists assignments", &small, &every, &[EnvValid], &rel_with_ancestor, &[Target::Option, Target::Required], FMode::SplitDir);
    } else {
        // quick: every slice keeps a complete assignment set (tied = scalar keys over 8^3 with
        // l tied to a's subset and b.m = rot(l); lists = l x b.m over 8x8) and frees one or two of
        // the other factors, the rest fixed; together every value of every factor is reached.
        let tied = tied_assigns();
        let lists = list_assigns();
        let union: Vec<Assign> = tied.iter().chain(lists.iter()).copied().collect::<BTreeSet<_>>().into_iter().collect();
        let dense: [Assign; 2] = [[7; NK], [3; NK]];
        s("main/targets x profiles{dev,prod} (tied; pmode=env-valid, dmode=rel-cwd-default)", &tied, &[PName::Dev, PName::Prod], &[EnvValid], &[RelCwdDefault], &TARGETS, FMode::All);
        s("main/pmodes x targets{option,deny-unknown,probe} (tied; profile=prod, dmode=rel-parent-default)", &tied, &[PName::Prod], &PMODES_OK, &[RelParentDefault], &[Target::Option, Target::DenyUnknown, Target::ProbeProfileField], FMode::All);
        s("main/dmodes (tied; profile=dev, pmode=explicit, target=required)", &tied, &[PName::Dev], &[Explicit], &DMODES, &[Target::Required], FMode::All);
        s("main/dmodes (tied; profile=prod, pmode=explicit-env-other, target=deny-unknown)", &tied, &[PName::Prod], &[ExplicitEnvOther], &DMODES, &[Target::DenyUnknown], FMode::All);
        s("lists (l x b.m 8x8 x 3 scalar configurations) x profiles{dev,prod.eu} x pmodes{env-valid,explicit} x dmodes{rel-cwd-default,absolute} x targets{option,required}", &lists, &[PName::Dev, PName::ProdEu], &[EnvValid, Explicit], &[RelCwdDefault, Absolute], &[Target::Option, Target::Required], FMode::All);
        s("dotted profiles{prod.eu,prod.us} x pmodes{env-valid,explicit} (tied; dmode=rel-cwd-default, target=option)", &tied, &dotted, &[EnvValid, Explicit], &[RelCwdDefault], &[Target::Option], FMode::All);
        s("dotted profiles x pmodes x dmodes x targets (assignments: every key everywhere / every key in both files)", &dense, &dotted, &PMODES_OK, &DMODES, &TARGETS, FMode::All);
        s("profile errors/emodes (tied; derived profile type, dmode=rel-cwd-default, target=option)", &tied, &[PName::Dev], &PMODES_ERR, &[RelCwdDefault], &[Target::Option], FMode::All);
        s("attribute-order profiles{doc_b,allow_b,cfgattr_b,default_b,allow_a,doc_a} x pmodes{env-valid,explicit} (tied; dmode=rel-cwd-default, target=option)", &tied, &ATTR_PROFILES, &[EnvValid, Explicit], &[RelCwdDefault], &[Target::Option], FMode::All);
        s("attribute-order profiles x pmodes x dmodes x targets (assignments: every key everywhere / every key in both files)", &dense, &ATTR_PROFILES, &PMODES_OK, &DMODES, &TARGETS, FMode::All);
        s("profile errors/emodes x profile type x dmodes x targets (assignment: every key everywhere)", &dense[..1], &[PName::Dev, PName::ProdEu, PName::DocB], &PMODES_ERR, &DMODES, &TARGETS, FMode::All);
        for (fm, asg, name, name2) in [
            (FMode::NoProfileFile, without(&union, PROF), "missing <profile>.yml x dmodes x targets (profile=dev, pmode=env-valid)", "missing <profile>.yml, dotted (profile=prod.eu, pmode=explicit, dmode=rel-cwd-default, target=option)"),
            (FMode::NoBaseFile, without(&union, BASE), "missing base.yml x dmodes x targets (profile=dev, pmode=env-valid)", "missing base.yml, dotted (profile=prod.eu, pmode=explicit, dmode=rel-cwd-default, target=option)"),
            (FMode::NoFiles, without(&union, BASE | PROF), "missing both files x dmodes x targets (profile=dev, pmode=env-valid)", "missing both files, dotted (profile=prod.eu, pmode=explicit, dmode=rel-cwd-default, target=option)"),
            (FMode::NoDir, without(&union, BASE | PROF), "missing directory x dmodes x targets (profile=dev, pmode=env-valid)", "missing directory, dotted (profile=prod.eu, pmode=explicit, dmode=rel-cwd-default, target=option)"),
        ] {
            s(name, &asg, &[PName::Dev], &[EnvValid], &DMODES, &TARGETS, fm);
            s(name2, &asg, &[PName::ProdEu], &[Explicit], &[RelCwdDefault], &[Target::Option], fm);
        }
        s("split directory (observation; tied; profile=dev, dmode=rel-cwd-default, target=option)", &tied, &[PName::Dev], &[EnvValid], &[RelCwdDefault], &[Target::Option], FMode::SplitDir);
    }
    let mut set = BTreeSet::new();
    let mut desc = Vec::new();
    for s in &slices {
        let before = set.len();
        let generated = s.expand(&mut set);
        desc.push(json!({"slice": s.name, "assignments": s.assigns.len(), "generated": generated, "new_distinct_cases": set.len() - before}));
    }
    // blank environment values: a variable that is present but empty still is the environment's answer for its key
    let mut n_blank = 0usize;
    for a in tied_assigns() {
        for (mode, k) in [(1u8, 0usize), (2u8, 2usize)] {
            if a[k] & ENV == 0 {
                continue;
            }
            for (profile, pmode) in [(PName::Dev, PMode::EnvValid), (PName::Prod, PMode::Explicit)] {
                let c = Case { assign: a, profile, pmode, dmode: DMode::RelCwdDefault, target: Target::Option, files: FMode::All,
                               control_unknown_env: false, prelude_other_profile: false, blank_env: mode };
                if set.insert(c) {
                    n_blank += 1;
                }
            }
        }
    }
    desc.push(json!({"slice": "blank-env: every tied assignment in which `a` (string) resp. `b.d` (number) is defined by the environment, with that variable present but EMPTY (`PX_A=`, `PX_B__D=`); a = \"\" resp. the load fails; the files' values never surface",
                     "generated": n_blank, "new_distinct_cases": n_blank}));
    // histories: the same cases again, preceded (in the same process) by a load of the other profile from the same directory
    let tied_set: BTreeSet<Assign> = tied_assigns().into_iter().collect();
    let with_history: Vec<Case> = set
        .iter()
        .filter(|c: &&Case| {
            matches!(c.profile, PName::Dev | PName::Prod | PName::ProdEu | PName::ProdUs)
                && matches!(c.pmode, PMode::Explicit | PMode::EnvValid)
                && matches!(c.files, FMode::All)
                && (tier.is_thorough() || (matches!(c.target, Target::Option | Target::Required) && tied_set.contains(&c.assign)))
        })
        .cloned()
        .map(|mut c| {
            c.prelude_other_profile = true;
            c
        })
        .collect();
    let n_hist = with_history.len();
    set.extend(with_history);
    desc.push(json!({"slice": "histories: every case of the slices above with profile in {dev, prod, prod.eu, prod.us}, pmode in {explicit, env-valid}, all files present (quick: targets option/required, tied assignments), preceded in the same process by a load of the OTHER profile from the same directory into the same target",
                     "generated": n_hist, "new_distinct_cases": n_hist}));
    (set.into_iter().collect(), desc)
}

fn control_cases() -> Vec<Case> {
    PNAMES
        .iter()
        .map(|p| Case {
            assign: [7; NK],
            profile: *p,
            // PX_PROFILE is not set in the control, so that it says nothing about PX_PROFILE itself
            pmode: PMode::Explicit,
            dmode: DMode::RelCwdDefault,
            target: Target::DenyUnknown,
            files: FMode::All,
            control_unknown_env: true, prelude_other_profile: false, blank_env: 0,
        })
        .collect()
}

// ---------------------------------------------------------------------------------------------
// Per-thread statistics (cases are judged by the worker that ran them; only counters, the first
// case of every sample kind and the first case of every violation key are kept)
// ---------------------------------------------------------------------------------------------

type Hist = BTreeMap<String, usize>;

#[derive(Default)]
struct Stats {
    evaluated: usize,
    nontrivial: usize,
    conforming: usize,
    controls_ok: usize,
    outcome: Hist,
    branch: Hist,
    factor: Hist,
    winner: Hist,
    missing: Hist,
    split: Hist,
    distinct_assign: BTreeSet<Assign>,
    /// sample kind -> (case index, observation) with the lowest index
    sample: BTreeMap<String, (usize, Observed)>,
    /// violation key -> (case index, observation, description) with the lowest index
    first_fail: BTreeMap<String, (usize, Observed, String)>,
    fail_count: Hist,
}

fn bump(h: &mut Hist, k: String) {
    *h.entry(k).or_default() += 1;
}

impl Stats {
    fn absorb(&mut self, o: Stats) {
        self.evaluated += o.evaluated;
        self.nontrivial += o.nontrivial;
        self.conforming += o.conforming;
        self.controls_ok += o.controls_ok;
        for (dst, src) in [
            (&mut self.outcome, o.outcome),
            (&mut self.branch, o.branch),
            (&mut self.factor, o.factor),
            (&mut self.winner, o.winner),
            (&mut self.missing, o.missing),
            (&mut self.split, o.split),
            (&mut self.fail_count, o.fail_count),
        ] {
            for (k, v) in src {
                *dst.entry(k).or_default() += v;
            }
        }
        self.distinct_assign.extend(o.distinct_assign);
        for (k, v) in o.sample {
            match self.sample.get(&k) {
                Some(cur) if cur.0 <= v.0 => {}
                _ => {
                    self.sample.insert(k, v);
                }
            }
        }
        for (k, v) in o.first_fail {
            match self.first_fail.get(&k) {
                Some(cur) if cur.0 <= v.0 => {}
                _ => {
                    self.first_fail.insert(k, v);
                }
            }
        }
    }

    fn record(&mut self, idx: usize, case: &Case, obs: Observed) {
        let exp = expect(case);
        if case.control_unknown_env {
            // machinery control: deny_unknown_fields must be effective for unknown PX_ keys,
            // otherwise the PX_PROFILE check on that target would be vacuous
            match &obs {
                Observed::Err { chain } if err_class(chain) == "unknown-field" => self.controls_ok += 1,
                other => verif_common::machinery_error(&format!(
                    "control failed: PX_ZZZ=1 with a deny_unknown_fields target gave {}",
                    other.to_json()
                )),
            }
            return;
        }
        self.evaluated += 1;
        self.distinct_assign.insert(case.assign);
        bump(&mut self.factor, format!("profile={}", case.profile.as_str()));
        bump(&mut self.factor, format!("profile-type={}", case.profile.ptype()));
        bump(&mut self.factor, format!("pmode={}", name_of(case.pmode)));
        bump(&mut self.factor, format!("dmode={}", name_of(case.dmode)));
        bump(&mut self.factor, format!("target={}", name_of(case.target)));
        bump(&mut self.factor, format!("files={}", name_of(case.files)));
        let branch = match &exp {
            Expect::MustErr(r) => format!("must-err:{r}"),
            Expect::MustOk(_) => "must-ok".to_string(),
            Expect::ErrOrOk(_) => format!("missing-file-weak-oracle:{}", name_of(case.files)),
            Expect::SplitEither { .. } => "split-dir-either-reading".to_string(),
        };
        bump(&mut self.branch, branch.clone());
        let oc = obs.class();
        bump(&mut self.outcome, oc.clone());
        // non-trivial: precedence had to decide between >= 2 sources for some key, or an error is forced
        if case.assign.iter().any(|b| b.count_ones() >= 2) || matches!(exp, Expect::MustErr(_)) {
            self.nontrivial += 1;
        }
        if let (Expect::MustOk(want), Observed::Ok { vals, .. }) = (&exp, &obs) {
            for k in 0..NK {
                if want[k] == vals[k] {
                    bump(&mut self.winner, format!("{}<-{}(of {})", KEYS[k], tag_of(k, &want[k]), sources_of(case.assign[k]).join("+")));
                }
            }
        }
        if matches!(exp, Expect::ErrOrOk(_)) {
            bump(&mut self.missing, format!("{}:{}", name_of(case.files), oc));
        }
        if let (Expect::SplitEither { docs, code }, Observed::Ok { vals, .. }) = (&exp, &obs) {
            let k = if docs == code {
                "readings-indistinguishable"
            } else if vals == code {
                "profile-file-taken-from-farther-directory(code reading)"
            } else if vals == docs {
                "farther-directory-ignored(docs reading)"
            } else {
                "mixed"
            };
            bump(&mut self.split, k.into());
        }
        let verdicts = judge(case, &exp, &obs);
        if verdicts.is_empty() {
            self.conforming += 1;
            let kind = format!("{branch}/{oc}/{}", case.profile.ptype());
            match self.sample.get(&kind) {
                Some(cur) if cur.0 <= idx => {}
                _ => {
                    self.sample.insert(kind, (idx, obs));
                }
            }
            return;
        }
        for (key, what) in verdicts {
            bump(&mut self.fail_count, key.clone());
            match self.first_fail.get(&key) {
                Some(cur) if cur.0 <= idx => {}
                _ => {
                    self.first_fail.insert(key, (idx, obs.clone(), what));
                }
            }
        }
    }
}

// ---------------------------------------------------------------------------------------------
// main
// ---------------------------------------------------------------------------------------------

fn replay_doc(case: &Case, su: &Setup, exp: &Expect, obs: &Observed) -> Value {
    json!({
        "case": case,
        "profile_type": case.profile.ptype(),
        "environment_of_child": su.env,
        "cwd_of_child": su.cwd.display().to_string(),
        "configuration_dir_argument": su.confdir_arg,
        "explicit_profile_argument": su.explicit,
        "files": su.files.iter().map(|(p, c)| json!({"path": p, "content": c})).collect::<Vec<_>>(),
        "expected": exp_json(exp),
        "observed": obs.to_json(),
    })
}

fn main() {
    let argv: Vec<String> = std::env::args().collect();
    if argv.get(1).map(|s| s.as_str()) == Some("--child") {
        child_main(&argv[2..]);
    }
    let args = verif_common::Args::parse();
    if args.property != "C18" {
        verif_common::machinery_error(&format!("rt_config serves C18 only, not {:?}", args.property));
    }
    let exe = std::env::current_exe()
        .unwrap_or_else(|e| verif_common::machinery_error(&format!("current_exe: {e}")));
    // one private sub-directory per run, so that concurrent runs of this engine cannot interfere
    let scratch = PathBuf::from(SCRATCH).join(format!("run-{}", std::process::id()));
    // an ancestor of the scratch area must not contain a stray configuration directory
    for anc in scratch.ancestors() {
        for n in ["configuration", "settings"] {
            if anc != scratch && anc.join(n).exists() {
                verif_common::machinery_error(&format!("stray {} would be found by the upward search", anc.join(n).display()));
            }
        }
    }

    if let Some(path) = &args.replay {
        let doc = verif_common::load_replay(path);
        let case: Case = serde_json::from_value(doc.get("case").cloned().unwrap_or(doc.clone()))
            .unwrap_or_else(|e| verif_common::machinery_error(&format!("replay case unreadable: {e}")));
        let mut sc = Scratch::new(scratch.join("replay"));
        sc.cleanup();
        let (obs, su) = run_case(&case, &mut sc, &exe);
        let exp = expect(&case);
        let verdicts = judge(&case, &exp, &obs);
        println!("case:     {}", serde_json::to_string(&case).unwrap());
        println!("env:      {:?}", su.env);
        println!("cwd:      {}", su.cwd.display());
        println!("expected: {}", exp_json(&exp));
        println!("observed: {}", obs.to_json());
        sc.cleanup();
        let _ = std::fs::remove_dir_all(&scratch);
        let _ = std::fs::remove_dir(SCRATCH);
        if verdicts.is_empty() {
            println!("REPLAY: conforms");
            std::process::exit(0);
        }
        for (k, w) in &verdicts {
            println!("REPLAY: still violates [{k}] {w}");
        }
        std::process::exit(1);
    }

    // watchdog: the machinery itself must not hang
    std::thread::spawn(|| {
        std::thread::sleep(std::time::Duration::from_secs(45 * 60));
        verif_common::machinery_error("rt_config watchdog: run exceeded 45 minutes");
    });

    let mut rep = verif_common::Reporter::from_args(&args);
    let (mut cases, slices) = plan(args.tier);
    verif_common::rotate_by_seed(&mut cases, args.seed);
    let n_planned = cases.len();
    let controls = control_cases();
    let n_controls = controls.len();
    cases.extend(controls);

    if scratch.exists() {
        let _ = std::fs::remove_dir_all(&scratch);
    }
    std::fs::create_dir_all(&scratch)
        .unwrap_or_else(|e| verif_common::machinery_error(&format!("mkdir {SCRATCH}: {e}")));

    let next = AtomicUsize::new(0);
    let parts: Vec<Stats> = std::thread::scope(|s| {
        let handles: Vec<_> = (0..WORKERS)
            .map(|w| {
                let cases = &cases;
                let next = &next;
                let exe = &exe;
                let mut sc = Scratch::new(scratch.join(format!("w{w}")));
                s.spawn(move || {
                    let mut st = Stats::default();
                    loop {
                        // small blocks of consecutive cases: consecutive cases share most files
                        let start = next.fetch_add(8, Ordering::Relaxed);
                        if start >= cases.len() {
                            break;
                        }
                        for i in start..(start + 8).min(cases.len()) {
                            let (obs, _) = run_case(&cases[i], &mut sc, exe);
                            st.record(i, &cases[i], obs);
                        }
                    }
                    sc.cleanup();
                    st
                })
            })
            .collect();
        handles
            .into_iter()
            .map(|h| h.join().unwrap_or_else(|_| verif_common::machinery_error("worker thread panicked")))
            .collect()
    });
    let mut st = Stats::default();
    for p in parts {
        st.absorb(p);
    }
    if st.evaluated != n_planned || st.controls_ok != n_controls {
        verif_common::machinery_error(&format!(
            "planned {n_planned}+{n_controls} cases but judged {}+{}",
            st.evaluated, st.controls_ok
        ));
    }

    // ---- report violations: first case of every key, re-executed once for determinism ----
    let mut sc = Scratch::new(scratch.join("recheck"));
    let mut fails: Vec<(&String, &(usize, Observed, String))> = st.first_fail.iter().collect();
    fails.sort_by_key(|(k, v)| (v.0, (*k).clone()));
    for (key, (idx, obs, what)) in fails {
        let case = &cases[*idx];
        let (obs2, su) = run_case(case, &mut sc, &exe);
        if &obs2 != obs {
            // The worker's scratch tree is persistent: files written for EARLIER cases (other profiles, decoys) stay on disk.
            // A loader that follows the property never reads them; one that reads a file it must not read makes the outcome
            // depend on that history. Decide on a tree that holds nothing but this case's files, executed twice.
            let mut fa = Scratch::new(scratch.join("recheck-fresh-a"));
            let mut fb = Scratch::new(scratch.join("recheck-fresh-b"));
            let (oa, sua) = run_case(case, &mut fa, &exe);
            let (ob, _) = run_case(case, &mut fb, &exe);
            fa.cleanup();
            fb.cleanup();
            if oa != ob {
                verif_common::machinery_error(&format!(
                    "nondeterministic outcome for case {} on two fresh trees: first {}, then {}",
                    serde_json::to_string(case).unwrap(),
                    oa.to_json(),
                    ob.to_json()
                ));
            }
            let exp = expect(case);
            let judged = judge(case, &exp, &oa);
            let what = match judged.first() {
                Some((_, w)) => format!("{w} (fresh tree; in the worker's tree, which still held the files of earlier cases, the outcome was {}) — case {}", obs.to_json(), serde_json::to_string(case).unwrap()),
                None => format!(
                    "the outcome depends on files the loader must not read: {} in a tree that still held the files of earlier cases, {} in a tree with this case's files only — case {}",
                    obs.to_json(), oa.to_json(), serde_json::to_string(case).unwrap()
                ),
            };
            rep.violation(key, &what, replay_doc(case, &sua, &exp, &oa));
            rep.suppressed += st.fail_count.get(key).copied().unwrap_or(1) - 1;
            continue;
        }
        let what = format!("{what} — case {}", serde_json::to_string(case).unwrap());
        rep.violation(key, &what, replay_doc(case, &su, &expect(case), obs));
        rep.suppressed += st.fail_count.get(key).copied().unwrap_or(1) - 1;
    }
    // ---- samples: the first case of every (oracle branch, outcome, profile type) kind ----
    let mut samples = verif_common::Samples::new(16);
    let mut picks: Vec<&(usize, Observed)> = st.sample.values().collect();
    picks.sort_by_key(|v| v.0);
    for (idx, obs) in picks.into_iter().take(16) {
        let case = &cases[*idx];
        let su = setup(case, &mut sc);
        samples.push(|| replay_doc(case, &su, &expect(case), obs));
    }
    let _ = std::fs::remove_dir_all(&scratch);
    // removes the shared parent only when no other run is using it
    let _ = std::fs::remove_dir(SCRATCH);

    let coverage = json!({
        "evaluations": st.evaluated,
        "distinct_nontrivial": st.nontrivial,
        "exhaustive": true,
        "rule": "Alphabet: keys {a (string), b.c (string), b.d (u64), l (list of strings), b.m (list of strings)}; b.* nested (YAML mapping / PX_B__C, PX_B__D, PX_B__M); each key assigned to a subset of {base.yml, <profile>.yml, PX_ env} with source-tagged distinct values (a-base/a-profile/a-env, c-*, 11/22/33; lists l-<src>-<i>, m-<src>-<i> with source-dependent lengths 2/3/1 and 1/2/3, env lists written in figment's documented syntax PX_L=[\"l-env-1\"]). Assignment sets: `main` = a, b.c, b.d, l over all 8^4 subsets with b.m = rot(l) (base->profile->env->base); `lists` = l x b.m over all 8x8 subset pairs x 3 scalar configurations; `tied` = a, b.c, b.d over all 8^3 subsets, l tied to a's subset, b.m = rot(l). Thorough uses main for the derived profiles and tied + lists for the hand-written dotted profiles, the error and the split-directory families; quick uses tied + lists. Profile in {dev, prod} (enum deriving ConfigProfile with #[px(profile=..)]) and {prod.eu, prod.us} (hand-written ConfigProfile impl whose names contain a dot; a file prod.yml with different values sits next to prod.eu.yml / prod.us.yml) and {doc_b, allow_b, cfgattr_b, default_b, allow_a, doc_a} (a second derived enum whose variants carry another attribute — doc comment, #[allow], #[cfg_attr], #[default] of derive(Default) — before, resp. after, #[px(profile=..)]; every custom name differs from the snake_case variant name); for derived enums, files named after the snake_case variant names (development.yml, doc_before.yml, ...) with different values sit next to the real files; profile supply in {PX_PROFILE valid, .profile() with PX_PROFILE unset / set to the other profile / set to an invalid name} plus error modes {PX_PROFILE unset, =staging, =empty, no .profile()}; directory in {default `configuration` in cwd, named `settings` in cwd, default in parent of cwd, named in grandparent, absolute via .configuration_dir()}; target in {all-Option, required, deny_unknown_fields, probe struct with a field named `profile`}; file presence in {both files present (with a decoy directory holding different values one search step further, plus the other profile's file and staging.yml with different values), profile file missing, base file missing, both missing, directory missing, split directory}. Bound: thorough = the full product of the factors per family as listed under `slices`; quick = the union of the slices listed under `slices` (each keeps a complete assignment set and fixes the factors named in its label). Every case runs the real ConfigLoader::load in a fresh child process with env_clear + only the case's PX_ variables and a controlled cwd (the child echoes its environment and cwd, verified). Oracle (reference model `expect`): per key env > profile file > base file by whole-value replacement (lists are replaced, never concatenated or merged index-wise), None/absent if nowhere; required target with a key nowhere => Err; no .profile() and PX_PROFILE unset/invalid/empty => Err; .profile(p) wins over PX_PROFILE; values of the decoy directory / other profile / staging.yml / prod.yml (for dotted names) / <snake_case variant name>.yml (for derived enums) never surface; PX_PROFILE never fails a deny_unknown_fields struct nor populates a field named `profile`; missing file/directory: weak oracle (Err accepted, Ok must still follow precedence over the existing sources); split directory: either reading accepted (observation only). Non-trivial = precedence had to choose between >= 2 sources for at least one key, or an error is forced by the property; cases are distinct Case tuples (deduplicated in a set before execution), so the count is of distinct cases.",
        "slices": slices,
        "distinct_assignments_reached": st.distinct_assign.len(),
        "control_cases": n_controls,
        "control_cases_passed(unknown PX_ key rejected by deny_unknown_fields)": st.controls_ok,
        "conforming_cases": st.conforming,
        "child_processes_spawned": SPAWNED.load(Ordering::Relaxed),
        "parallel_children": WORKERS,
        "factor_value_counts": st.factor,
        "oracle_branch_counts": st.branch,
        "outcome_histogram": st.outcome,
        "verified_winner_histogram(key<-winning source(of defining sources))": st.winner,
        "missing_file_observations": st.missing,
        "split_directory_observations": st.split,
        "violating_cases_per_key": st.fail_count,
        "caps_hit": [],
        "samples": samples.items,
    });
    let code = rep.finish(
        "exploration",
        coverage,
        &[
            "Value types: strings (a, b.c), unsigned integer (b.d), lists of strings (l, b.m); booleans, floats, lists of maps and maps set as a whole through one env variable are not enumerated.",
            "Depth of nesting is 2 (b.c, b.d, b.m); the `__` separator is exercised with exactly one level.",
            "Env lists use the syntax figment's Env provider documents (`[..]` array of `\"..\"` strings); that such a value replaces the files' list as a whole is what 'takes each key from the environment if present' forces.",
            "A missing <profile>.yml / base.yml / directory is NOT asserted to be an error: neither the property text ('missing profile' = PX_PROFILE not supplied) nor the guide documents it as one; observed outcomes are recorded under missing_file_observations.",
            "The split-directory family is an observation (docs: search stops at the first matching directory; figment searches per file), not part of the verdict.",
            "Profile names outside the enum are represented by `staging` and the empty string; dotted profile names by prod.eu / prod.us; attribute placements around #[px] by the six variants of the second derived enum.",
        ],
    );
    std::process::exit(code);
}
