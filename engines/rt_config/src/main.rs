//! rt_config — property C18: configuration sources merge with the documented precedence.
//!
//! Exhaustive enumeration of (key -> subset of sources) assignments x profile x way the profile is
//! supplied x configuration directory placement x target struct, each case executed by the real
//! `pavex::config::ConfigLoader::load` in a fresh child process (this same binary, `--child`)
//! whose environment is `env_clear` + the `PX_*` variables of the case and whose cwd is a scratch
//! directory under /verif/work/rt_config/.  The outcome is compared with a tiny reference model
//! (`expect`).
use pavex::config::{ConfigLoader, ConfigProfile};
use serde::{Deserialize, Serialize};
use serde_json::{Value, json};
use std::collections::{BTreeMap, BTreeSet};
use std::path::{Path, PathBuf};
use std::process::Command;
use std::sync::atomic::{AtomicUsize, Ordering};

const SCRATCH: &str = "/verif/work/rt_config";
const WORKERS: usize = 16;

// ---------------------------------------------------------------------------------------------
// Subject-side types (what an application would write)
// ---------------------------------------------------------------------------------------------

#[derive(ConfigProfile, Debug, Clone, Copy, PartialEq, Eq)]
pub enum Profile {
    #[px(profile = "dev")]
    Development,
    #[px(profile = "prod")]
    Production,
}

#[derive(Debug, Deserialize)]
struct OptB {
    c: Option<String>,
    d: Option<u64>,
}
#[derive(Debug, Deserialize)]
struct OptCfg {
    a: Option<String>,
    b: Option<OptB>,
}
#[derive(Debug, Deserialize)]
struct ReqB {
    c: String,
    d: u64,
}
#[derive(Debug, Deserialize)]
struct ReqCfg {
    a: String,
    b: ReqB,
}
#[derive(Debug, Deserialize)]
#[serde(deny_unknown_fields)]
struct DenyB {
    c: Option<String>,
    d: Option<u64>,
}
#[derive(Debug, Deserialize)]
#[serde(deny_unknown_fields)]
struct DenyCfg {
    a: Option<String>,
    b: Option<DenyB>,
}
/// Like `OptCfg` plus a field literally called `profile`: `PX_PROFILE` must never populate it.
#[derive(Debug, Deserialize)]
struct ProbeCfg {
    a: Option<String>,
    b: Option<OptB>,
    profile: Option<Value>,
}

// ---------------------------------------------------------------------------------------------
// Case description
// ---------------------------------------------------------------------------------------------

const BASE: u8 = 1;
const PROF: u8 = 2;
const ENV: u8 = 4;
const KEYS: [&str; 3] = ["a", "b.c", "b.d"];
const ENV_NAMES: [&str; 3] = ["PX_A", "PX_B__C", "PX_B__D"];

#[derive(Debug, Clone, Copy, PartialEq, Eq, Hash, PartialOrd, Ord, Serialize, Deserialize)]
#[serde(rename_all = "kebab-case")]
enum PMode {
    /// `PX_PROFILE=<profile>`, no `.profile()` call
    EnvValid,
    /// `.profile(p)`, `PX_PROFILE` unset
    Explicit,
    /// `.profile(p)`, `PX_PROFILE=<the other profile>`
    ExplicitEnvOther,
    /// `.profile(p)`, `PX_PROFILE=staging` (not a valid profile)
    ExplicitEnvInvalid,
    /// no `.profile()`, `PX_PROFILE` unset  => Err
    NoneUnset,
    /// no `.profile()`, `PX_PROFILE=staging` => Err
    NoneInvalid,
    /// no `.profile()`, `PX_PROFILE=` (empty) => Err
    NoneEmpty,
}
const PMODES_OK: [PMode; 4] = [
    PMode::EnvValid,
    PMode::Explicit,
    PMode::ExplicitEnvOther,
    PMode::ExplicitEnvInvalid,
];
const PMODES_ERR: [PMode; 3] = [PMode::NoneUnset, PMode::NoneInvalid, PMode::NoneEmpty];

#[derive(Debug, Clone, Copy, PartialEq, Eq, Hash, PartialOrd, Ord, Serialize, Deserialize)]
#[serde(rename_all = "kebab-case")]
enum DMode {
    /// default dir name (`configuration`, no `.configuration_dir()` call), found in cwd
    RelCwdDefault,
    /// `.configuration_dir("settings")`, found in cwd
    RelCwdNamed,
    /// default dir name, absent from cwd, found in the parent of cwd
    RelParentDefault,
    /// `.configuration_dir("settings")`, absent from cwd and its parent, found in the grandparent
    RelGrandparentNamed,
    /// `.configuration_dir("/abs/…/cfg")`
    Absolute,
}
const DMODES: [DMode; 5] = [
    DMode::RelCwdDefault,
    DMode::RelCwdNamed,
    DMode::RelParentDefault,
    DMode::RelGrandparentNamed,
    DMode::Absolute,
];

#[derive(Debug, Clone, Copy, PartialEq, Eq, Hash, PartialOrd, Ord, Serialize, Deserialize)]
#[serde(rename_all = "kebab-case")]
enum Target {
    Option,
    Required,
    DenyUnknown,
    ProbeProfileField,
}
const TARGETS: [Target; 4] = [
    Target::Option,
    Target::Required,
    Target::DenyUnknown,
    Target::ProbeProfileField,
];

#[derive(Debug, Clone, Copy, PartialEq, Eq, Hash, PartialOrd, Ord, Serialize, Deserialize)]
#[serde(rename_all = "kebab-case")]
enum FMode {
    /// base.yml and <profile>.yml both exist (`{}` when no key is assigned to them); a decoy
    /// directory of the same name with different values sits one level further up.
    All,
    /// <profile>.yml does not exist (no key assigned to it). No decoy.
    NoProfileFile,
    /// base.yml does not exist (no key assigned to it). No decoy.
    NoBaseFile,
    /// neither exists, the directory does. No decoy.
    NoFiles,
    /// the configuration directory does not exist anywhere. No decoy.
    NoDir,
    /// nearest directory holds only base.yml, the next one up holds only <profile>.yml
    /// (observation only: the docs say the search stops at the first matching directory).
    SplitDir,
}

#[derive(Debug, Clone, PartialEq, Eq, Hash, PartialOrd, Ord, Serialize, Deserialize)]
struct Case {
    /// bitmask per key (a, b.c, b.d): 1 = base.yml, 2 = <profile>.yml, 4 = env
    assign: [u8; 3],
    profile: String,
    pmode: PMode,
    dmode: DMode,
    target: Target,
    files: FMode,
    /// machinery control: adds `PX_ZZZ=1` (an unknown key) to the environment
    #[serde(default)]
    control_unknown_env: bool,
}

fn other_profile(p: &str) -> &'static str {
    if p == "dev" { "prod" } else { "dev" }
}

/// Source-tagged distinct values. `tag` in base|profile|env|other|decoy|staging
fn sval(key: usize, tag: &str) -> Value {
    match key {
        0 => json!(format!("a-{tag}")),
        1 => json!(format!("c-{tag}")),
        _ => json!(match tag {
            "base" => 11u64,
            "profile" => 22,
            "env" => 33,
            "other" => 44,
            "decoy" => 55,
            "staging" => 66,
            _ => 99,
        }),
    }
}

fn tag_of(key: usize, v: &Value) -> String {
    if v.is_null() {
        return "none".into();
    }
    for t in ["base", "profile", "env", "other", "decoy", "staging"] {
        if &sval(key, t) == v {
            return t.into();
        }
    }
    "unrecognised".into()
}

fn yaml_doc(vals: [Option<Value>; 3]) -> String {
    let mut s = String::new();
    if let Some(a) = &vals[0] {
        s += &format!("a: {a}\n");
    }
    if vals[1].is_some() || vals[2].is_some() {
        s += "b:\n";
        if let Some(c) = &vals[1] {
            s += &format!("  c: {c}\n");
        }
        if let Some(d) = &vals[2] {
            s += &format!("  d: {d}\n");
        }
    }
    if s.is_empty() {
        s = "{}\n".into();
    }
    s
}

fn yaml_tagged(assign: &[u8; 3], bit: u8, tag: &str) -> String {
    let mut vals = [None, None, None];
    for k in 0..3 {
        if assign[k] & bit != 0 {
            vals[k] = Some(sval(k, tag));
        }
    }
    yaml_doc(vals)
}

fn yaml_all(tag: &str) -> String {
    yaml_doc([Some(sval(0, tag)), Some(sval(1, tag)), Some(sval(2, tag))])
}

// ---------------------------------------------------------------------------------------------
// Scratch layout + environment of a case
// ---------------------------------------------------------------------------------------------

struct Setup {
    cwd: PathBuf,
    /// argument for `.configuration_dir(..)`, None = do not call it
    confdir_arg: Option<String>,
    env: Vec<(String, String)>,
    /// argument for `.profile(..)`
    explicit: Option<String>,
    /// (path, content) of every file written, for the replay artefact
    files: Vec<(String, String)>,
}

/// `write` = false: the file belongs to the static part of an already prepared tree, only list it.
fn mkfile(files: &mut Vec<(String, String)>, write: bool, dir: &Path, name: &str, content: String) {
    let p = dir.join(name);
    if write {
        if let Err(e) = std::fs::create_dir_all(dir) {
            verif_common::machinery_error(&format!("mkdir {}: {e}", dir.display()));
        }
        if let Err(e) = std::fs::write(&p, &content) {
            verif_common::machinery_error(&format!("write {}: {e}", p.display()));
        }
    }
    files.push((p.display().to_string(), content));
}

fn dmode_name(d: DMode) -> String {
    json!(d).as_str().unwrap_or("?").to_string()
}

/// Prepare the scratch tree of a case below `root` (a directory owned by the calling worker).
/// For `FMode::All` (the bulk of the run) the tree `root/all-<dmode>` is kept between cases: its
/// static part (directories, decoy directory, staging.yml) is written once, and the three files
/// that depend on the case (base.yml, dev.yml, prod.yml of the real directory) are rewritten for
/// every case. Every other family gets a tree rebuilt from nothing (`root/misc`).
fn setup(case: &Case, root: &Path) -> Setup {
    let persistent = case.files == FMode::All;
    let tree = if persistent {
        root.join(format!("all-{}", dmode_name(case.dmode)))
    } else {
        let t = root.join("misc");
        if t.exists()
            && let Err(e) = std::fs::remove_dir_all(&t)
        {
            verif_common::machinery_error(&format!("cannot clean {}: {e}", t.display()));
        }
        t
    };
    let ready_marker = tree.join(".ready");
    let write_static = !(persistent && ready_marker.exists());
    let g = tree.join("g");
    let p = g.join("p");
    let cwd = p.join("cwd");
    if write_static
        && let Err(e) = std::fs::create_dir_all(&cwd)
    {
        verif_common::machinery_error(&format!("mkdir {}: {e}", cwd.display()));
    }
    let (name, confdir_arg): (&str, Option<String>) = match case.dmode {
        DMode::RelCwdDefault | DMode::RelParentDefault => ("configuration", None),
        DMode::RelCwdNamed | DMode::RelGrandparentNamed => ("settings", Some("settings".into())),
        DMode::Absolute => ("cfg", Some(tree.join("abs").join("cfg").display().to_string())),
    };
    // `real` = where the loader is supposed to find the files; `up` = one search step further
    let (real, up): (PathBuf, PathBuf) = match case.dmode {
        DMode::RelCwdDefault | DMode::RelCwdNamed => (cwd.join(name), p.join(name)),
        DMode::RelParentDefault => (p.join(name), g.join(name)),
        DMode::RelGrandparentNamed => (g.join(name), tree.join(name)),
        // absolute: the decoy is the default relative directory in cwd
        DMode::Absolute => (tree.join("abs").join("cfg"), cwd.join("configuration")),
    };
    let mut files = Vec::new();
    let prof = case.profile.as_str();
    let other = other_profile(prof);
    let base_doc = yaml_tagged(&case.assign, BASE, "base");
    let prof_doc = yaml_tagged(&case.assign, PROF, "profile");
    match case.files {
        FMode::All => {
            mkfile(&mut files, true, &real, "base.yml", base_doc);
            mkfile(&mut files, true, &real, &format!("{prof}.yml"), prof_doc);
            mkfile(&mut files, true, &real, &format!("{other}.yml"), yaml_all("other"));
            mkfile(&mut files, write_static, &real, "staging.yml", yaml_all("staging"));
            for f in ["base.yml", "dev.yml", "prod.yml", "staging.yml"] {
                mkfile(&mut files, write_static, &up, f, yaml_all("decoy"));
            }
        }
        FMode::NoProfileFile => {
            mkfile(&mut files, true, &real, "base.yml", base_doc);
            mkfile(&mut files, true, &real, &format!("{other}.yml"), yaml_all("other"));
            mkfile(&mut files, true, &real, "staging.yml", yaml_all("staging"));
        }
        FMode::NoBaseFile => {
            mkfile(&mut files, true, &real, &format!("{prof}.yml"), prof_doc);
            mkfile(&mut files, true, &real, &format!("{other}.yml"), yaml_all("other"));
            mkfile(&mut files, true, &real, "staging.yml", yaml_all("staging"));
        }
        FMode::NoFiles => {
            mkfile(&mut files, true, &real, &format!("{other}.yml"), yaml_all("other"));
            mkfile(&mut files, true, &real, "staging.yml", yaml_all("staging"));
        }
        FMode::NoDir => {}
        FMode::SplitDir => {
            mkfile(&mut files, true, &real, "base.yml", base_doc);
            mkfile(&mut files, true, &up, &format!("{prof}.yml"), prof_doc);
        }
    }
    if persistent
        && write_static
        && let Err(e) = std::fs::write(&ready_marker, "")
    {
        verif_common::machinery_error(&format!("write {}: {e}", ready_marker.display()));
    }
    let mut env: Vec<(String, String)> = Vec::new();
    for k in 0..3 {
        if case.assign[k] & ENV != 0 {
            let v = sval(k, "env");
            let s = match &v {
                Value::String(s) => s.clone(),
                other => other.to_string(),
            };
            env.push((ENV_NAMES[k].to_string(), s));
        }
    }
    let px_profile: Option<String> = match case.pmode {
        PMode::EnvValid => Some(prof.to_string()),
        PMode::Explicit | PMode::NoneUnset => None,
        PMode::ExplicitEnvOther => Some(other.to_string()),
        PMode::ExplicitEnvInvalid | PMode::NoneInvalid => Some("staging".into()),
        PMode::NoneEmpty => Some(String::new()),
    };
    if let Some(v) = px_profile {
        env.push(("PX_PROFILE".into(), v));
    }
    if case.control_unknown_env {
        env.push(("PX_ZZZ".into(), "1".into()));
    }
    env.sort();
    let explicit = match case.pmode {
        PMode::Explicit | PMode::ExplicitEnvOther | PMode::ExplicitEnvInvalid => {
            Some(prof.to_string())
        }
        _ => None,
    };
    Setup {
        cwd,
        confdir_arg,
        env,
        explicit,
        files,
    }
}

// ---------------------------------------------------------------------------------------------
// Child: run the real loader once
// ---------------------------------------------------------------------------------------------

fn error_chain(e: &dyn std::error::Error) -> String {
    let mut s = e.to_string();
    let mut cur = e.source();
    while let Some(c) = cur {
        s += " | ";
        s += &c.to_string();
        cur = c.source();
    }
    s
}

fn child_main(argv: &[String]) -> ! {
    // argv: <target> <explicit-profile|-> <confdir|->
    let target = argv.first().cloned().unwrap_or_default();
    let explicit = argv.get(1).cloned().unwrap_or_else(|| "-".into());
    let confdir = argv.get(2).cloned().unwrap_or_else(|| "-".into());
    let run = move || -> Value {
        let mut loader = ConfigLoader::<Profile>::new();
        match explicit.as_str() {
            "-" => {}
            "dev" => loader = loader.profile(Profile::Development),
            "prod" => loader = loader.profile(Profile::Production),
            other => return json!({"outcome": "child-usage", "msg": format!("profile {other}")}),
        }
        if confdir != "-" {
            loader = loader.configuration_dir(confdir.clone());
        }
        let ob = |c: Option<String>, d: Option<u64>| (json!(c), json!(d));
        let res: Result<Value, pavex::config::errors::ConfigLoadError> = match target.as_str() {
            "option" => loader.load::<OptCfg>().map(|c| {
                let (cc, d) = c.b.map(|b| ob(b.c, b.d)).unwrap_or((Value::Null, Value::Null));
                json!({"a": c.a, "b.c": cc, "b.d": d, "profile_field": null})
            }),
            "required" => loader.load::<ReqCfg>().map(|c| {
                json!({"a": c.a, "b.c": c.b.c, "b.d": c.b.d, "profile_field": null})
            }),
            "deny-unknown" => loader.load::<DenyCfg>().map(|c| {
                let (cc, d) = c.b.map(|b| ob(b.c, b.d)).unwrap_or((Value::Null, Value::Null));
                json!({"a": c.a, "b.c": cc, "b.d": d, "profile_field": null})
            }),
            "probe-profile-field" => loader.load::<ProbeCfg>().map(|c| {
                let (cc, d) = c.b.map(|b| ob(b.c, b.d)).unwrap_or((Value::Null, Value::Null));
                json!({"a": c.a, "b.c": cc, "b.d": d, "profile_field": c.profile})
            }),
            other => return json!({"outcome": "child-usage", "msg": format!("target {other}")}),
        };
        match res {
            Ok(v) => json!({"outcome": "ok", "values": v}),
            Err(e) => json!({"outcome": "err", "chain": error_chain(&e)}),
        }
    };
    std::panic::set_hook(Box::new(|_| {}));
    let mut out = match std::panic::catch_unwind(run) {
        Ok(v) => v,
        Err(p) => {
            let msg = p
                .downcast_ref::<String>()
                .cloned()
                .or_else(|| p.downcast_ref::<&str>().map(|s| s.to_string()))
                .unwrap_or_else(|| "<non-string panic>".into());
            json!({"outcome": "panic", "msg": msg})
        }
    };
    // echo what the child really saw, so the parent can verify the environment was controlled
    let mut env: Vec<(String, String)> = std::env::vars_os()
        .map(|(k, v)| (k.to_string_lossy().into_owned(), v.to_string_lossy().into_owned()))
        .collect();
    env.sort();
    out["seen_env"] = json!(env);
    out["seen_cwd"] = json!(std::env::current_dir().map(|p| p.display().to_string()).unwrap_or_default());
    println!("{out}");
    std::process::exit(0)
}

// ---------------------------------------------------------------------------------------------
// Parent: execute one case
// ---------------------------------------------------------------------------------------------

#[derive(Debug, Clone, PartialEq)]
enum Observed {
    Ok { vals: [Value; 3], profile_field: Value },
    Err { chain: String },
    Panic { msg: String },
}

impl Observed {
    fn to_json(&self) -> Value {
        match self {
            Observed::Ok { vals, profile_field } => json!({"outcome": "ok", "a": vals[0], "b.c": vals[1], "b.d": vals[2], "profile_field": profile_field}),
            Observed::Err { chain } => json!({"outcome": "err", "chain": chain}),
            Observed::Panic { msg } => json!({"outcome": "panic", "msg": msg}),
        }
    }
}

static SPAWNED: AtomicUsize = AtomicUsize::new(0);

fn target_arg(t: Target) -> &'static str {
    match t {
        Target::Option => "option",
        Target::Required => "required",
        Target::DenyUnknown => "deny-unknown",
        Target::ProbeProfileField => "probe-profile-field",
    }
}

fn run_case(case: &Case, root: &Path, exe: &Path) -> (Observed, Setup) {
    let su = setup(case, root);
    let mut cmd = Command::new(exe);
    cmd.arg("--child")
        .arg(target_arg(case.target))
        .arg(su.explicit.as_deref().unwrap_or("-"))
        .arg(su.confdir_arg.as_deref().unwrap_or("-"))
        .env_clear()
        .envs(su.env.iter().map(|(k, v)| (k.as_str(), v.as_str())))
        .current_dir(&su.cwd)
        .stdin(std::process::Stdio::null());
    SPAWNED.fetch_add(1, Ordering::Relaxed);
    let out = cmd
        .output()
        .unwrap_or_else(|e| verif_common::machinery_error(&format!("cannot spawn child: {e}")));
    if !out.status.success() {
        verif_common::machinery_error(&format!(
            "child failed ({:?}) for case {}: stderr={}",
            out.status,
            serde_json::to_string(case).unwrap(),
            String::from_utf8_lossy(&out.stderr)
        ));
    }
    let stdout = String::from_utf8_lossy(&out.stdout);
    let line = stdout.lines().last().unwrap_or("");
    let v: Value = serde_json::from_str(line).unwrap_or_else(|e| {
        verif_common::machinery_error(&format!("child output not JSON ({e}): {stdout}"))
    });
    // the child's environment and cwd must be exactly what the case prescribes
    let seen_env: Vec<(String, String)> = serde_json::from_value(v["seen_env"].clone()).unwrap_or_default();
    if seen_env != su.env {
        verif_common::machinery_error(&format!(
            "child environment not controlled: wanted {:?}, child saw {:?}",
            su.env, seen_env
        ));
    }
    let want_cwd = std::fs::canonicalize(&su.cwd).unwrap_or(su.cwd.clone());
    if Path::new(v["seen_cwd"].as_str().unwrap_or("")) != want_cwd {
        verif_common::machinery_error(&format!(
            "child cwd not controlled: wanted {}, child saw {}",
            want_cwd.display(),
            v["seen_cwd"]
        ));
    }
    let obs = match v["outcome"].as_str() {
        Some("ok") => Observed::Ok {
            vals: [
                v["values"]["a"].clone(),
                v["values"]["b.c"].clone(),
                v["values"]["b.d"].clone(),
            ],
            profile_field: v["values"]["profile_field"].clone(),
        },
        Some("err") => Observed::Err {
            chain: v["chain"].as_str().unwrap_or("").to_string(),
        },
        Some("panic") => Observed::Panic {
            msg: v["msg"].as_str().unwrap_or("").to_string(),
        },
        other => verif_common::machinery_error(&format!("child outcome {other:?}: {line}")),
    };
    (obs, su)
}

// ---------------------------------------------------------------------------------------------
// Reference model
// ---------------------------------------------------------------------------------------------

#[derive(Debug, Clone, PartialEq)]
enum Expect {
    /// the property forces an error
    MustErr(&'static str),
    /// the property forces exactly these values
    MustOk([Value; 3]),
    /// a file/directory is missing: the property text and docs force neither Ok nor Err, but if
    /// the load succeeds the values must still follow the precedence over the sources that exist
    ErrOrOk([Value; 3]),
    /// split directory: per key either reading (docs: ancestor profile file not used; code:
    /// used) is accepted; observation only
    SplitEither { docs: [Value; 3], code: [Value; 3] },
}

fn winner(bits: u8) -> &'static str {
    if bits & ENV != 0 {
        "env"
    } else if bits & PROF != 0 {
        "profile"
    } else if bits & BASE != 0 {
        "base"
    } else {
        "none"
    }
}

fn merged(assign: &[u8; 3], mask: u8) -> [Value; 3] {
    let mut out = [Value::Null, Value::Null, Value::Null];
    for k in 0..3 {
        let w = winner(assign[k] & mask);
        if w != "none" {
            out[k] = sval(k, w);
        }
    }
    out
}

fn expect(case: &Case) -> Expect {
    match case.pmode {
        PMode::NoneUnset => return Expect::MustErr("profile-unset"),
        PMode::NoneInvalid | PMode::NoneEmpty => return Expect::MustErr("profile-invalid"),
        _ => {}
    }
    if case.control_unknown_env && case.target == Target::DenyUnknown {
        return Expect::MustErr("control-unknown-env-key");
    }
    let full = merged(&case.assign, BASE | PROF | ENV);
    let required_missing = |vals: &[Value; 3]| case.target == Target::Required && vals.iter().any(|v| v.is_null());
    match case.files {
        FMode::All => {
            if required_missing(&full) {
                Expect::MustErr("required-key-missing")
            } else {
                Expect::MustOk(full)
            }
        }
        FMode::SplitDir => {
            let docs = merged(&case.assign, BASE | ENV);
            if required_missing(&full) {
                // missing under both readings
                Expect::MustErr("required-key-missing")
            } else {
                Expect::SplitEither { docs, code: full }
            }
        }
        _ => {
            if required_missing(&full) {
                Expect::MustErr("required-key-missing")
            } else {
                Expect::ErrOrOk(full)
            }
        }
    }
}

fn err_class(chain: &str) -> &'static str {
    let c = chain.to_ascii_lowercase();
    if c.contains("unknown field") && c.contains("profile") {
        "unknown-field-profile"
    } else if c.contains("unknown field") {
        "unknown-field"
    } else if c.contains("missing field") {
        "missing-field"
    } else if c.contains("not set") {
        "px-profile-not-set"
    } else if c.contains("invalid profile") || c.contains("parse the configuration profile") {
        "px-profile-invalid"
    } else {
        "other"
    }
}

/// Returns the list of (violation key, description) for one case; empty = conforms.
fn judge(case: &Case, exp: &Expect, obs: &Observed) -> Vec<(String, String)> {
    let mut out = Vec::new();
    let cmp_vals = |out: &mut Vec<(String, String)>, want: &[Value; 3], got: &[Value; 3]| {
        for k in 0..3 {
            if want[k] != got[k] {
                let kind = if k == 0 { "top" } else { "nested" };
                out.push((
                    format!("precedence:{kind}:want={}:got={}", tag_of(k, &want[k]), tag_of(k, &got[k])),
                    format!(
                        "key `{}` assigned to sources {:?}: reference value {} (from {}), loader produced {} (from {})",
                        KEYS[k],
                        sources_of(case.assign[k]),
                        want[k],
                        tag_of(k, &want[k]),
                        got[k],
                        tag_of(k, &got[k])
                    ),
                ));
            }
        }
    };
    match (exp, obs) {
        (_, Observed::Panic { msg }) => out.push((
            "loader-panicked".into(),
            format!("ConfigLoader::load panicked: {msg}"),
        )),
        (Expect::MustErr(reason), Observed::Ok { vals, .. }) => out.push((
            format!("unexpected-ok:{reason}"),
            format!("load returned Ok({vals:?}) although the property requires an error ({reason})"),
        )),
        (Expect::MustErr(_), Observed::Err { .. }) => {}
        (Expect::MustOk(want), Observed::Ok { vals, profile_field }) => {
            cmp_vals(&mut out, want, vals);
            if !profile_field.is_null() {
                out.push((
                    "px-profile-surfaced-as-key".into(),
                    format!("PX_PROFILE was deserialized into the configuration field `profile` = {profile_field}"),
                ));
            }
        }
        (Expect::MustOk(_), Observed::Err { chain }) => out.push((
            format!("unexpected-err:{}", err_class(chain)),
            format!("load returned Err although every source is well-formed and every needed key is present: {chain}"),
        )),
        (Expect::ErrOrOk(want), Observed::Ok { vals, profile_field }) => {
            cmp_vals(&mut out, want, vals);
            if !profile_field.is_null() {
                out.push(("px-profile-surfaced-as-key".into(), format!("field `profile` = {profile_field}")));
            }
        }
        (Expect::ErrOrOk(_), Observed::Err { chain }) => {
            // acceptable as long as it is not PX_PROFILE leaking into a deny_unknown_fields struct
            if err_class(chain) == "unknown-field-profile" {
                out.push(("unexpected-err:unknown-field-profile".into(), chain.clone()));
            }
        }
        (Expect::SplitEither { docs, code }, Observed::Ok { vals, profile_field }) => {
            for k in 0..3 {
                if vals[k] != docs[k] && vals[k] != code[k] {
                    let kind = if k == 0 { "top" } else { "nested" };
                    out.push((
                        format!("precedence:{kind}:want={}:got={}", tag_of(k, &code[k]), tag_of(k, &vals[k])),
                        format!("split directory, key `{}`: got {} ; accepted {} or {}", KEYS[k], vals[k], docs[k], code[k]),
                    ));
                }
            }
            if !profile_field.is_null() {
                out.push(("px-profile-surfaced-as-key".into(), format!("field `profile` = {profile_field}")));
            }
        }
        (Expect::SplitEither { .. }, Observed::Err { .. }) => {}
    }
    out
}

fn sources_of(bits: u8) -> Vec<&'static str> {
    let mut v = Vec::new();
    if bits & BASE != 0 {
        v.push("base.yml");
    }
    if bits & PROF != 0 {
        v.push("<profile>.yml");
    }
    if bits & ENV != 0 {
        v.push("env");
    }
    v
}

fn exp_json(e: &Expect) -> Value {
    match e {
        Expect::MustErr(r) => json!({"must": "err", "reason": r}),
        Expect::MustOk(v) => json!({"must": "ok", "a": v[0], "b.c": v[1], "b.d": v[2], "profile_field": null}),
        Expect::ErrOrOk(v) => json!({"must": "err-or-ok-with", "a": v[0], "b.c": v[1], "b.d": v[2]}),
        Expect::SplitEither { docs, code } => json!({"must": "either", "docs_reading": docs, "code_reading": code}),
    }
}

// ---------------------------------------------------------------------------------------------
// Enumeration plan
// ---------------------------------------------------------------------------------------------

fn all_assigns() -> Vec<[u8; 3]> {
    let mut v = Vec::new();
    for a in 0..8u8 {
        for c in 0..8u8 {
            for d in 0..8u8 {
                v.push([a, c, d]);
            }
        }
    }
    v
}

struct Slice {
    name: &'static str,
    assigns: Vec<[u8; 3]>,
    profiles: Vec<&'static str>,
    pmodes: Vec<PMode>,
    dmodes: Vec<DMode>,
    targets: Vec<Target>,
    files: FMode,
}

impl Slice {
    fn expand(&self, into: &mut BTreeSet<Case>) -> usize {
        let mut n = 0;
        for a in &self.assigns {
            for p in &self.profiles {
                for pm in &self.pmodes {
                    for dm in &self.dmodes {
                        for t in &self.targets {
                            n += 1;
                            into.insert(Case {
                                assign: *a,
                                profile: p.to_string(),
                                pmode: *pm,
                                dmode: *dm,
                                target: *t,
                                files: self.files,
                                control_unknown_env: false,
                            });
                        }
                    }
                }
            }
        }
        n
    }
}

fn plan(tier: verif_common::Tier) -> (Vec<Case>, Vec<Value>) {
    let all = all_assigns();
    let without = |bits: u8| -> Vec<[u8; 3]> {
        all.iter().copied().filter(|a| a.iter().all(|x| x & bits == 0)).collect()
    };
    let rel_with_ancestor = vec![DMode::RelCwdDefault, DMode::RelCwdNamed, DMode::RelParentDefault];
    let both = vec!["dev", "prod"];
    let mut slices: Vec<Slice> = Vec::new();
    if tier.is_thorough() {
        slices.push(Slice { name: "main: full product", assigns: all.clone(), profiles: both.clone(), pmodes: PMODES_OK.to_vec(), dmodes: DMODES.to_vec(), targets: TARGETS.to_vec(), files: FMode::All });
        slices.push(Slice { name: "profile errors: full product (profile label fixed, it is not used)", assigns: all.clone(), profiles: vec!["dev"], pmodes: PMODES_ERR.to_vec(), dmodes: DMODES.to_vec(), targets: TARGETS.to_vec(), files: FMode::All });
        for (fm, asg, name) in [
            (FMode::NoProfileFile, without(PROF), "missing <profile>.yml"),
            (FMode::NoBaseFile, without(BASE), "missing base.yml"),
            (FMode::NoFiles, without(BASE | PROF), "missing both files"),
            (FMode::NoDir, without(BASE | PROF), "missing directory"),
        ] {
            slices.push(Slice { name, assigns: asg, profiles: both.clone(), pmodes: vec![PMode::EnvValid, PMode::Explicit], dmodes: DMODES.to_vec(), targets: TARGETS.to_vec(), files: fm });
        }
        slices.push(Slice { name: "split directory (observation)", assigns: all.clone(), profiles: both.clone(), pmodes: vec![PMode::EnvValid], dmodes: rel_with_ancestor.clone(), targets: vec![Target::Option, Target::Required], files: FMode::SplitDir });
    } else {
        // quick: every slice keeps all 512 assignments (or all compatible ones) and frees one or
        // two of the other factors, the rest fixed; together every factor value is reached.
        slices.push(Slice { name: "main/targets x profiles (pmode=env-valid, dmode=rel-cwd-default)", assigns: all.clone(), profiles: both.clone(), pmodes: vec![PMode::EnvValid], dmodes: vec![DMode::RelCwdDefault], targets: TARGETS.to_vec(), files: FMode::All });
        slices.push(Slice { name: "main/pmodes x targets (profile=prod, dmode=rel-parent-default)", assigns: all.clone(), profiles: vec!["prod"], pmodes: PMODES_OK.to_vec(), dmodes: vec![DMode::RelParentDefault], targets: TARGETS.to_vec(), files: FMode::All });
        slices.push(Slice { name: "main/dmodes x pmodes{explicit,env-valid} (profile=dev, target=required)", assigns: all.clone(), profiles: vec!["dev"], pmodes: vec![PMode::Explicit, PMode::EnvValid], dmodes: DMODES.to_vec(), targets: vec![Target::Required], files: FMode::All });
        slices.push(Slice { name: "main/dmodes (profile=prod, pmode=explicit-env-other, target=deny-unknown)", assigns: all.clone(), profiles: vec!["prod"], pmodes: vec![PMode::ExplicitEnvOther], dmodes: DMODES.to_vec(), targets: vec![Target::DenyUnknown], files: FMode::All });
        slices.push(Slice { name: "profile errors/emodes (dmode=rel-cwd-default, target=option)", assigns: all.clone(), profiles: vec!["dev"], pmodes: PMODES_ERR.to_vec(), dmodes: vec![DMode::RelCwdDefault], targets: vec![Target::Option], files: FMode::All });
        slices.push(Slice { name: "profile errors/emodes x dmodes x targets (assignment fixed: every key in every source)", assigns: vec![[7, 7, 7]], profiles: vec!["dev"], pmodes: PMODES_ERR.to_vec(), dmodes: DMODES.to_vec(), targets: TARGETS.to_vec(), files: FMode::All });
        for (fm, asg, name) in [
            (FMode::NoProfileFile, without(PROF), "missing <profile>.yml (pmode=env-valid)"),
            (FMode::NoBaseFile, without(BASE), "missing base.yml (pmode=env-valid)"),
            (FMode::NoFiles, without(BASE | PROF), "missing both files (pmode=env-valid)"),
            (FMode::NoDir, without(BASE | PROF), "missing directory (pmode=env-valid)"),
        ] {
            slices.push(Slice { name, assigns: asg, profiles: vec!["dev"], pmodes: vec![PMode::EnvValid], dmodes: DMODES.to_vec(), targets: TARGETS.to_vec(), files: fm });
        }
        slices.push(Slice { name: "split directory (observation; profile=dev, dmode=rel-cwd-default, target=option)", assigns: all.clone(), profiles: vec!["dev"], pmodes: vec![PMode::EnvValid], dmodes: vec![DMode::RelCwdDefault], targets: vec![Target::Option], files: FMode::SplitDir });
    }
    let mut set = BTreeSet::new();
    let mut desc = Vec::new();
    for s in &slices {
        let before = set.len();
        let generated = s.expand(&mut set);
        desc.push(json!({"slice": s.name, "generated": generated, "new_distinct_cases": set.len() - before}));
    }
    (set.into_iter().collect(), desc)
}

fn control_cases() -> Vec<Case> {
    ["dev", "prod"]
        .iter()
        .map(|p| Case {
            assign: [7, 7, 7],
            profile: p.to_string(),
            // PX_PROFILE is not set in the control, so that it says nothing about PX_PROFILE itself
            pmode: PMode::Explicit,
            dmode: DMode::RelCwdDefault,
            target: Target::DenyUnknown,
            files: FMode::All,
            control_unknown_env: true,
        })
        .collect()
}

// ---------------------------------------------------------------------------------------------
// main
// ---------------------------------------------------------------------------------------------

fn replay_doc(case: &Case, su: &Setup, exp: &Expect, obs: &Observed) -> Value {
    json!({
        "case": case,
        "environment_of_child": su.env,
        "cwd_of_child": su.cwd.display().to_string(),
        "configuration_dir_argument": su.confdir_arg,
        "explicit_profile_argument": su.explicit,
        "files": su.files.iter().map(|(p, c)| json!({"path": p, "content": c})).collect::<Vec<_>>(),
        "expected": exp_json(exp),
        "observed": obs.to_json(),
    })
}

fn main() {
    let argv: Vec<String> = std::env::args().collect();
    if argv.get(1).map(|s| s.as_str()) == Some("--child") {
        child_main(&argv[2..]);
    }
    let args = verif_common::Args::parse();
    if args.property != "C18" {
        verif_common::machinery_error(&format!("rt_config serves C18 only, not {:?}", args.property));
    }
    let exe = std::env::current_exe()
        .unwrap_or_else(|e| verif_common::machinery_error(&format!("current_exe: {e}")));
    let scratch = PathBuf::from(SCRATCH);
    // an ancestor of the scratch area must not contain a stray configuration directory
    for anc in scratch.ancestors() {
        for n in ["configuration", "settings"] {
            if anc != scratch && anc.join(n).exists() {
                verif_common::machinery_error(&format!("stray {} would be found by the upward search", anc.join(n).display()));
            }
        }
    }

    if let Some(path) = &args.replay {
        let doc = verif_common::load_replay(path);
        let case: Case = serde_json::from_value(doc.get("case").cloned().unwrap_or(doc.clone()))
            .unwrap_or_else(|e| verif_common::machinery_error(&format!("replay case unreadable: {e}")));
        let root = scratch.join("replay");
        let (obs, su) = run_case(&case, &root, &exe);
        let exp = expect(&case);
        let verdicts = judge(&case, &exp, &obs);
        println!("case:     {}", serde_json::to_string(&case).unwrap());
        println!("env:      {:?}", su.env);
        println!("cwd:      {}", su.cwd.display());
        println!("expected: {}", exp_json(&exp));
        println!("observed: {}", obs.to_json());
        let _ = std::fs::remove_dir_all(&root);
        if verdicts.is_empty() {
            println!("REPLAY: conforms");
            std::process::exit(0);
        }
        for (k, w) in &verdicts {
            println!("REPLAY: still violates [{k}] {w}");
        }
        std::process::exit(1);
    }

    // watchdog: the machinery itself must not hang
    std::thread::spawn(|| {
        std::thread::sleep(std::time::Duration::from_secs(40 * 60));
        verif_common::machinery_error("rt_config watchdog: run exceeded 40 minutes");
    });

    let mut rep = verif_common::Reporter::from_args(&args);
    let (mut cases, slices) = plan(args.tier);
    verif_common::rotate_by_seed(&mut cases, args.seed);
    let n_planned = cases.len();
    let controls = control_cases();
    let n_controls = controls.len();
    cases.extend(controls);

    if scratch.exists() {
        let _ = std::fs::remove_dir_all(&scratch);
    }
    std::fs::create_dir_all(&scratch)
        .unwrap_or_else(|e| verif_common::machinery_error(&format!("mkdir {SCRATCH}: {e}")));

    let next = AtomicUsize::new(0);
    let mut results: Vec<Option<Observed>> = vec![None; cases.len()];
    let chunks: Vec<Vec<(usize, Observed)>> = std::thread::scope(|s| {
        let handles: Vec<_> = (0..WORKERS)
            .map(|w| {
                let cases = &cases;
                let next = &next;
                let exe = &exe;
                let root = scratch.join(format!("w{w}"));
                s.spawn(move || {
                    let mut local = Vec::new();
                    loop {
                        let i = next.fetch_add(1, Ordering::Relaxed);
                        if i >= cases.len() {
                            break;
                        }
                        let (obs, _) = run_case(&cases[i], &root, exe);
                        local.push((i, obs));
                    }
                    let _ = std::fs::remove_dir_all(&root);
                    local
                })
            })
            .collect();
        handles
            .into_iter()
            .map(|h| h.join().unwrap_or_else(|_| verif_common::machinery_error("worker thread panicked")))
            .collect()
    });
    for c in chunks {
        for (i, o) in c {
            results[i] = Some(o);
        }
    }

    // ---- judge, count ----
    let mut samples = verif_common::Samples::new(14);
    let mut sample_kinds: BTreeSet<String> = BTreeSet::new();
    let mut outcome_hist: BTreeMap<String, usize> = BTreeMap::new();
    let mut branch_hist: BTreeMap<String, usize> = BTreeMap::new();
    let mut factor_hist: BTreeMap<String, usize> = BTreeMap::new();
    let mut winner_hist: BTreeMap<String, usize> = BTreeMap::new();
    let mut missing_obs: BTreeMap<String, usize> = BTreeMap::new();
    let mut split_obs: BTreeMap<String, usize> = BTreeMap::new();
    let mut nontrivial: BTreeSet<&Case> = BTreeSet::new();
    let mut distinct_assign: BTreeSet<[u8; 3]> = BTreeSet::new();
    let mut conforming = 0usize;
    let mut reported_keys: BTreeSet<String> = BTreeSet::new();
    let root = scratch.join("recheck");
    for (i, case) in cases.iter().enumerate() {
        let obs = results[i].clone().unwrap_or_else(|| verif_common::machinery_error("case without result"));
        let exp = expect(case);
        if case.control_unknown_env {
            // machinery control: deny_unknown_fields must be effective for unknown PX_ keys,
            // otherwise the PX_PROFILE check on that target would be vacuous
            match &obs {
                Observed::Err { chain } if err_class(chain) == "unknown-field" => {
                    *branch_hist.entry("control:unknown-env-key-rejected-by-deny_unknown_fields".into()).or_default() += 1;
                }
                other => verif_common::machinery_error(&format!(
                    "control failed: PX_ZZZ=1 with a deny_unknown_fields target gave {}",
                    other.to_json()
                )),
            }
            continue;
        }
        distinct_assign.insert(case.assign);
        for (f, v) in [
            ("profile", json!(case.profile)),
            ("pmode", json!(case.pmode)),
            ("dmode", json!(case.dmode)),
            ("target", json!(case.target)),
            ("files", json!(case.files)),
        ] {
            *factor_hist.entry(format!("{f}={}", v.as_str().unwrap_or("?"))).or_default() += 1;
        }
        let branch = match &exp {
            Expect::MustErr(r) => format!("must-err:{r}"),
            Expect::MustOk(_) => "must-ok".to_string(),
            Expect::ErrOrOk(_) => format!("missing-file-weak-oracle:{}", json!(case.files).as_str().unwrap_or("?")),
            Expect::SplitEither { .. } => "split-dir-either-reading".to_string(),
        };
        *branch_hist.entry(branch.clone()).or_default() += 1;
        let oc = match &obs {
            Observed::Ok { .. } => "ok".to_string(),
            Observed::Err { chain } => format!("err:{}", err_class(chain)),
            Observed::Panic { .. } => "panic".to_string(),
        };
        *outcome_hist.entry(oc.clone()).or_default() += 1;
        // non-trivial: precedence had to decide between >= 2 sources for some key, or an error is forced
        let collides = case.assign.iter().any(|b| b.count_ones() >= 2);
        if collides || matches!(exp, Expect::MustErr(_)) {
            nontrivial.insert(case);
        }
        if let (Expect::MustOk(want), Observed::Ok { .. }) = (&exp, &obs) {
            for k in 0..3 {
                *winner_hist
                    .entry(format!("{}<-{}(of {})", KEYS[k], tag_of(k, &want[k]), sources_of(case.assign[k]).join("+")))
                    .or_default() += 1;
            }
        }
        if matches!(exp, Expect::ErrOrOk(_)) {
            *missing_obs
                .entry(format!("{}:{}", json!(case.files).as_str().unwrap_or("?"), oc))
                .or_default() += 1;
        }
        if let (Expect::SplitEither { docs, code }, Observed::Ok { vals, .. }) = (&exp, &obs) {
            if docs != code {
                let k = if vals == code {
                    "profile-file-taken-from-farther-directory(code reading)"
                } else if vals == docs {
                    "farther-directory-ignored(docs reading)"
                } else {
                    "mixed"
                };
                *split_obs.entry(k.into()).or_default() += 1;
            } else {
                *split_obs.entry("readings-indistinguishable".into()).or_default() += 1;
            }
        }
        let verdicts = judge(case, &exp, &obs);
        if verdicts.is_empty() {
            conforming += 1;
            let kind = format!("{branch}/{oc}");
            if sample_kinds.insert(kind) {
                let su = setup(case, &root);
                samples.push(|| replay_doc(case, &su, &exp, &obs));
            }
            continue;
        }
        // determinism: re-execute once before reporting (only the first case of every key is
        // written out by the Reporter, so only that one needs the re-execution)
        let fresh = verdicts.iter().any(|(k, _)| !reported_keys.contains(k));
        if !fresh {
            for (key, what) in verdicts {
                rep.violation(&key, &what, Value::Null);
            }
            continue;
        }
        for (k, _) in &verdicts {
            reported_keys.insert(k.clone());
        }
        let (obs2, su) = run_case(case, &root, &exe);
        if obs2 != obs {
            verif_common::machinery_error(&format!(
                "nondeterministic outcome for case {}: first {}, then {}",
                serde_json::to_string(case).unwrap(),
                obs.to_json(),
                obs2.to_json()
            ));
        }
        for (key, what) in verdicts {
            let what = format!("{what} — case {}", serde_json::to_string(case).unwrap());
            rep.violation(&key, &what, replay_doc(case, &su, &exp, &obs));
        }
    }
    let _ = std::fs::remove_dir_all(&scratch);

    let evaluations = n_planned;
    let coverage = json!({
        "evaluations": evaluations,
        "distinct_nontrivial": nontrivial.len(),
        "exhaustive": true,
        "rule": "Alphabet: keys {a, b.c, b.d} (b.* nested: YAML mapping / PX_B__C, PX_B__D), each key assigned to a subset of {base.yml, <profile>.yml, PX_ env} (8^3 = 512 assignments) with source-tagged distinct values (a-base/a-profile/a-env, c-*, 11/22/33); profile in {dev, prod} (enum deriving ConfigProfile with #[px(profile=..)]); profile supply in {PX_PROFILE valid, .profile() with PX_PROFILE unset / set to the other profile / set to an invalid name} plus error modes {PX_PROFILE unset, =staging, =empty, no .profile()}; directory in {default `configuration` in cwd, named `settings` in cwd, default in parent of cwd, named in grandparent, absolute via .configuration_dir()}; target in {all-Option, required, deny_unknown_fields, probe struct with a field named `profile`}; file presence in {both files present (with a decoy directory holding different values one search step further, plus the other profile's file and staging.yml with different values), profile file missing, base file missing, both missing, directory missing, split directory}. Bound: thorough = the full product of the factors per family; quick = the union of the slices listed under `slices` (each slice keeps all compatible assignments and fixes the factors named in its label). Every case runs the real ConfigLoader::load in a fresh child process with env_clear + only the case's PX_ variables and a controlled cwd (the child echoes its environment and cwd, verified). Oracle (reference model `expect`): per key env > profile file > base file, None/absent if nowhere; required target with a key nowhere => Err; no .profile() and PX_PROFILE unset/invalid/empty => Err; .profile(p) wins over PX_PROFILE; values of the decoy directory / other profile / staging file never surface; PX_PROFILE never fails a deny_unknown_fields struct nor populates a field named `profile`; missing file/directory: weak oracle (Err accepted, Ok must still follow precedence over the existing sources); split directory: either reading accepted (observation only). Non-trivial = precedence had to choose between >= 2 sources for at least one key, or an error is forced by the property; distinct = distinct Case tuples (counted in a set).",
        "slices": slices,
        "distinct_assignments_reached": distinct_assign.len(),
        "control_cases": n_controls,
        "conforming_cases": conforming,
        "child_processes_spawned": SPAWNED.load(Ordering::Relaxed),
        "parallel_children": WORKERS,
        "factor_value_counts": factor_hist,
        "oracle_branch_counts": branch_hist,
        "outcome_histogram": outcome_hist,
        "verified_winner_histogram(key<-winning source(of defining sources))": winner_hist,
        "missing_file_observations": missing_obs,
        "split_directory_observations": split_obs,
        "caps_hit": [],
        "samples": samples.items,
    });
    let code = rep.finish(
        "exploration",
        coverage,
        &[
            "Values are strings for a and b.c and an unsigned integer for b.d; other value types (lists, booleans, maps set as a whole through one env variable) are not enumerated.",
            "Depth of nesting is 2 (b.c, b.d); the `__` separator is exercised with exactly one level.",
            "A missing <profile>.yml / base.yml / directory is NOT asserted to be an error: neither the property text ('missing profile' = PX_PROFILE not supplied) nor the guide documents it as one; observed outcomes are recorded under missing_file_observations.",
            "The split-directory family is an observation (docs: search stops at the first matching directory; figment searches per file), not part of the verdict.",
            "Profile names outside the enum are represented by `staging` and the empty string.",
        ],
    );
    std::process::exit(code);
}
