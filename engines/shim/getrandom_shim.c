/*
 * getrandom_shim.c -- LD_PRELOAD interposer used by check C10 (engines/e2e/fam_c10.py).
 *
 * Purpose: make the process-level hash seeds of `pavexc` an *enumerated input*. std's
 * `RandomState` and `ahash` (through getrandom 0.3) obtain their keys from getrandom(2) /
 * getentropy(3) via the libc symbols, so interposing those two symbols puts every randomly
 * seeded hash table of the compiler under the control of the harness.
 *
 *   VERIF_HASH_SEED=<u64>        selects the stream. The i-th call (0-based, counted over both entry
 *                                points) made by a thread returns bytes that are a pure function of
 *                                (seed, i, byte offset): SplitMix64 keyed by seed and i. The call index
 *                                is per thread, so what a thread receives does not depend on how its
 *                                calls interleave with those of other threads (std seeds RandomState
 *                                once per thread, ahash once per process from whichever thread gets
 *                                there first).
 *   VERIF_SHIM_PROG=<name>       the interposer is active only in processes whose short program
 *                                name equals <name> (default "pavexc"); every other process that
 *                                inherits LD_PRELOAD (rustup, cargo, rustdoc, ...) is passed through
 *                                to the real implementation untouched. "*" = every process.
 *   VERIF_SHIM_COUNT_FILE=<path> the active process writes "<calls> <bytes>\n" there (rewritten
 *                                after every call, so it is correct whichever way the process ends).
 *
 * Without VERIF_HASH_SEED the shim is a pure pass-through.
 * ASLR must be disabled as well (`setarch -R`): ahash mixes the address of a static into its keys.
 *
 * Build: gcc -O2 -shared -fPIC -o libgetrandom_shim.so getrandom_shim.c -ldl
 */
#define _GNU_SOURCE
#include <dlfcn.h>
#include <errno.h>
#include <fcntl.h>
#include <stdint.h>
#include <stdio.h>
#include <stdlib.h>
#include <string.h>
#include <sys/syscall.h>
#include <sys/types.h>
#include <unistd.h>

extern char *program_invocation_short_name;

static int g_state = 0; /* 0 = not initialised, 1 = active, 2 = pass-through */
static uint64_t g_seed = 0;
static uint64_t g_calls = 0;
static __thread uint64_t t_calls = 0;
static uint64_t g_bytes = 0;
static const char *g_count_file = NULL;

static void shim_init(void) {
    if (__atomic_load_n(&g_state, __ATOMIC_ACQUIRE) != 0) return;
    int state = 2;
    const char *seed = getenv("VERIF_HASH_SEED");
    if (seed && *seed) {
        const char *prog = getenv("VERIF_SHIM_PROG");
        if (!prog || !*prog) prog = "pavexc";
        if (strcmp(prog, "*") == 0 ||
            (program_invocation_short_name && strcmp(program_invocation_short_name, prog) == 0)) {
            g_seed = strtoull(seed, NULL, 0);
            g_count_file = getenv("VERIF_SHIM_COUNT_FILE");
            state = 1;
        }
    }
    __atomic_store_n(&g_state, state, __ATOMIC_RELEASE);
}

static uint64_t splitmix64(uint64_t *x) {
    uint64_t z = (*x += 0x9E3779B97F4A7C15ULL);
    z = (z ^ (z >> 30)) * 0xBF58476D1CE4E5B9ULL;
    z = (z ^ (z >> 27)) * 0x94D049BB133111EBULL;
    return z ^ (z >> 31);
}

static void write_count(uint64_t calls, uint64_t bytes) {
    if (!g_count_file || !*g_count_file) return;
    int fd = open(g_count_file, O_WRONLY | O_CREAT | O_TRUNC | O_CLOEXEC, 0644);
    if (fd < 0) return;
    char line[64];
    int n = snprintf(line, sizeof line, "%llu %llu\n", (unsigned long long)calls, (unsigned long long)bytes);
    if (n > 0) {
        ssize_t r = write(fd, line, (size_t)n);
        (void)r;
    }
    close(fd);
}

static void fill(void *buf, size_t len) {
    uint64_t ncalls = __atomic_add_fetch(&g_calls, 1, __ATOMIC_SEQ_CST);
    uint64_t total = __atomic_add_fetch(&g_bytes, (uint64_t)len, __ATOMIC_SEQ_CST);
    uint64_t idx = t_calls++;
    /* stream state = f(seed, per-thread call index); successive 8-byte words are SplitMix64 outputs */
    uint64_t st = g_seed * 0xD6E8FEB86659FD93ULL + idx * 0xA0761D6478BD642FULL + 0x2545F4914F6CDD1DULL;
    (void)splitmix64(&st);
    unsigned char *p = (unsigned char *)buf;
    size_t off = 0;
    while (off < len) {
        uint64_t w = splitmix64(&st);
        size_t n = len - off < 8 ? len - off : 8;
        memcpy(p + off, &w, n);
        off += n;
    }
    write_count(ncalls, total);
}

ssize_t getrandom(void *buf, size_t buflen, unsigned int flags) {
    shim_init();
    if (g_state == 1) {
        if (buf == NULL && buflen != 0) {
            errno = EFAULT;
            return -1;
        }
        fill(buf, buflen);
        return (ssize_t)buflen;
    }
    return (ssize_t)syscall(SYS_getrandom, buf, buflen, flags);
}

int getentropy(void *buf, size_t buflen) {
    shim_init();
    if (g_state == 1) {
        if (buflen > 256) {
            errno = EIO;
            return -1;
        }
        fill(buf, buflen);
        return 0;
    }
    if (buflen > 256) {
        errno = EIO;
        return -1;
    }
    unsigned char *p = (unsigned char *)buf;
    size_t off = 0;
    while (off < buflen) {
        long r = syscall(SYS_getrandom, p + off, buflen - off, 0);
        if (r < 0) {
            if (errno == EINTR) continue;
            return -1;
        }
        off += (size_t)r;
    }
    return 0;
}

__attribute__((destructor)) static void shim_fini(void) {
    if (g_state == 1) write_count(g_calls, g_bytes);
}
