//! Alphabet of the search: session operations, request boundaries, configurations.
use serde_json::{Value, json};
use std::collections::BTreeMap;

/// Keys are 0 => "a", 1 => "b"; values are 1 (the JSON number 1) and 2 (JSON `null`, see real::enc).
pub const KEYS: [&str; 2] = ["a", "b"];
pub const VALUES: [u8; 2] = [1, 2];

pub type Map = BTreeMap<u8, u8>;

pub fn map_str(m: &Map) -> String {
    let parts: Vec<String> = m.iter().map(|(k, v)| format!("{}={}", KEYS[*k as usize], v)).collect();
    format!("{{{}}}", parts.join(","))
}

#[derive(Clone, Copy, PartialEq, Eq, Hash, Debug, PartialOrd, Ord)]
pub enum Op {
    SInsert(u8, u8),
    SRemove(u8),
    SClear,
    SDelete,
    SGet(u8),
    ForceLoad,
    Sync,
    CycleId,
    Invalidate,
    CInsert(u8, u8),
    CRemove(u8),
    CClear,
    CGet(u8),
}

impl Op {
    pub fn all() -> Vec<Op> {
        let mut v = Vec::new();
        for k in 0..2u8 {
            for val in VALUES {
                v.push(Op::SInsert(k, val));
            }
        }
        for k in 0..2u8 {
            v.push(Op::SRemove(k));
        }
        v.push(Op::SClear);
        v.push(Op::SDelete);
        for k in 0..2u8 {
            v.push(Op::SGet(k));
        }
        v.push(Op::ForceLoad);
        v.push(Op::Sync);
        v.push(Op::CycleId);
        v.push(Op::Invalidate);
        for k in 0..2u8 {
            for val in VALUES {
                v.push(Op::CInsert(k, val));
            }
        }
        for k in 0..2u8 {
            v.push(Op::CRemove(k));
        }
        v.push(Op::CClear);
        for k in 0..2u8 {
            v.push(Op::CGet(k));
        }
        v
    }

    /// Name without arguments: used in abstract violation keys.
    pub fn name(&self) -> &'static str {
        match self {
            Op::SInsert(..) => "insert",
            Op::SRemove(..) => "remove",
            Op::SClear => "clear",
            Op::SDelete => "delete",
            Op::SGet(..) => "get",
            Op::ForceLoad => "force_load",
            Op::Sync => "sync",
            Op::CycleId => "cycle_id",
            Op::Invalidate => "invalidate",
            Op::CInsert(..) => "client.insert",
            Op::CRemove(..) => "client.remove",
            Op::CClear => "client.clear",
            Op::CGet(..) => "client.get",
        }
    }

    pub fn to_string(&self) -> String {
        let k = |k: &u8| KEYS[*k as usize];
        match self {
            Op::SInsert(a, v) => format!("insert({},{})", k(a), v),
            Op::SRemove(a) => format!("remove({})", k(a)),
            Op::SGet(a) => format!("get({})", k(a)),
            Op::CInsert(a, v) => format!("client.insert({},{})", k(a), v),
            Op::CRemove(a) => format!("client.remove({})", k(a)),
            Op::CGet(a) => format!("client.get({})", k(a)),
            other => other.name().to_string(),
        }
    }
}

#[derive(Clone, Copy, PartialEq, Eq, Hash, Debug, PartialOrd, Ord)]
pub enum Present {
    /// The cookie the client currently holds (what the last Set-Cookie left in its jar).
    Current,
    /// The cookie the client held before that (replay of a stale cookie).
    Stale,
    NoCookie,
}

#[derive(Clone, Copy, PartialEq, Eq, Hash, Debug, PartialOrd, Ord)]
pub enum Event {
    Begin(Present),
    Op(Op),
    Finalize,
}

impl Event {
    pub fn to_string(&self) -> String {
        match self {
            Event::Begin(Present::Current) => "begin[current-cookie]".into(),
            Event::Begin(Present::Stale) => "begin[stale-cookie]".into(),
            Event::Begin(Present::NoCookie) => "begin[no-cookie]".into(),
            Event::Op(op) => op.to_string(),
            Event::Finalize => "finalize".into(),
        }
    }

    pub fn parse(s: &str) -> Option<Event> {
        for p in [Present::Current, Present::Stale, Present::NoCookie] {
            if Event::Begin(p).to_string() == s {
                return Some(Event::Begin(p));
            }
        }
        if s == "finalize" {
            return Some(Event::Finalize);
        }
        Op::all().into_iter().find(|o| o.to_string() == s).map(Event::Op)
    }
}

pub fn history_json(h: &[Event]) -> Value {
    Value::Array(h.iter().map(|e| Value::String(e.to_string())).collect())
}

pub fn history_from_json(v: &Value) -> Option<Vec<Event>> {
    v.as_array()?.iter().map(|e| Event::parse(e.as_str()?)).collect()
}

/// The 2^5 session-state configurations of the quantifier.
#[derive(Clone, Copy, PartialEq, Eq, Hash, Debug, PartialOrd, Ord)]
pub struct Cfg {
    pub never_skip: bool,
    pub reject: bool,
    pub extend_on_loads: bool,
    pub threshold: bool,
    pub persistent: bool,
}

impl Cfg {
    pub fn all() -> Vec<Cfg> {
        let mut v = Vec::new();
        for i in 0..32u8 {
            v.push(Cfg {
                never_skip: i & 1 != 0,
                reject: i & 2 != 0,
                extend_on_loads: i & 4 != 0,
                threshold: i & 8 != 0,
                persistent: i & 16 != 0,
            });
        }
        v
    }
    pub fn to_json(&self) -> Value {
        json!({
            "server_state_creation": if self.never_skip { "never_skip" } else { "skip_if_empty" },
            "missing_server_state": if self.reject { "reject" } else { "allow" },
            "extend_ttl": if self.extend_on_loads { "on_state_loads_and_changes" } else { "on_state_changes" },
            "ttl_extension_threshold": if self.threshold { json!(0.8) } else { Value::Null },
            "cookie_kind": if self.persistent { "persistent" } else { "session" },
        })
    }
    pub fn from_json(v: &Value) -> Option<Cfg> {
        Some(Cfg {
            never_skip: v.get("server_state_creation")?.as_str()? == "never_skip",
            reject: v.get("missing_server_state")?.as_str()? == "reject",
            extend_on_loads: v.get("extend_ttl")?.as_str()? == "on_state_loads_and_changes",
            threshold: !v.get("ttl_extension_threshold")?.is_null(),
            persistent: v.get("cookie_kind")?.as_str()? == "persistent",
        })
    }
    pub fn short(&self) -> String {
        format!(
            "{}/{}/{}/{}/{}",
            if self.never_skip { "NeverSkip" } else { "SkipIfEmpty" },
            if self.reject { "Reject" } else { "Allow" },
            if self.extend_on_loads { "OnLoads" } else { "OnChanges" },
            if self.threshold { "thr0.8" } else { "thrNone" },
            if self.persistent { "Persistent" } else { "SessionCookie" }
        )
    }
}

/// Session cookie configuration (C12 enumerates these; C11 uses the crate default).
#[derive(Clone, PartialEq, Eq, Hash, Debug, PartialOrd, Ord)]
pub struct CookieCfg {
    pub name: &'static str,
    pub domain: Option<&'static str>,
    pub path: Option<&'static str>,
    /// 0 = attribute unset, 1 = SameSite::None, 2 = Lax, 3 = Strict
    pub same_site: u8,
    pub secure: bool,
    pub http_only: bool,
}

pub const COOKIE_NAMES: [&str; 2] = ["id", "sess"];
pub const OTHER_COOKIE_NAME: &str = "some_other_cookie";

impl CookieCfg {
    pub fn default_cfg() -> CookieCfg {
        CookieCfg { name: "id", domain: None, path: Some("/"), same_site: 2, secure: true, http_only: true }
    }
    pub fn all() -> Vec<CookieCfg> {
        let mut v = Vec::new();
        for name in COOKIE_NAMES {
            for domain in [None, Some("example.com")] {
                for path in [None, Some("/app")] {
                    for same_site in 0..4u8 {
                        for secure in [false, true] {
                            for http_only in [false, true] {
                                v.push(CookieCfg { name, domain, path, same_site, secure, http_only });
                            }
                        }
                    }
                }
            }
        }
        v
    }
    pub fn to_json(&self) -> Value {
        let ss = ["unset", "None", "Lax", "Strict"][self.same_site as usize];
        json!({
            "name": self.name, "domain": self.domain, "path": self.path,
            "same_site": ss,
            "secure": self.secure, "http_only": self.http_only,
        })
    }
    pub fn from_json(v: &Value) -> Option<CookieCfg> {
        let st = |s: &str| -> &'static str { Box::leak(s.to_string().into_boxed_str()) };
        Some(CookieCfg {
            name: st(v.get("name")?.as_str()?),
            domain: v.get("domain")?.as_str().map(st),
            path: v.get("path")?.as_str().map(st),
            same_site: ["unset", "None", "Lax", "Strict"].iter().position(|s| Some(*s) == v.get("same_site").and_then(|x| x.as_str()))? as u8,
            secure: v.get("secure")?.as_bool()?,
            http_only: v.get("http_only")?.as_bool()?,
        })
    }
}

/// Cookie-processor crypto configurations of C12.
#[derive(Clone, Copy, PartialEq, Eq, Hash, Debug, PartialOrd, Ord)]
pub enum Crypto {
    NoRules,
    SignOnly,
    EncryptOnly,
    /// two rules for the session cookie: signing first, encryption second (the later rule wins)
    SignThenEncrypt,
    /// two rules for the session cookie: encryption first, signing second (the later rule wins)
    EncryptThenSign,
    /// an encryption rule and a signing rule that both target *another* cookie name
    OtherNameOnly,
}

impl Crypto {
    pub fn all() -> [Crypto; 6] {
        [Crypto::NoRules, Crypto::SignOnly, Crypto::EncryptOnly, Crypto::SignThenEncrypt, Crypto::EncryptThenSign, Crypto::OtherNameOnly]
    }
    pub fn name(&self) -> &'static str {
        match self {
            Crypto::NoRules => "none",
            Crypto::SignOnly => "sign-only",
            Crypto::EncryptOnly => "encrypt-only",
            Crypto::SignThenEncrypt => "both(sign,then-encrypt)",
            Crypto::EncryptThenSign => "both(encrypt,then-sign)",
            Crypto::OtherNameOnly => "rules-for-other-cookie-name",
        }
    }
    pub fn parse(s: &str) -> Option<Crypto> {
        Crypto::all().into_iter().find(|c| c.name() == s)
    }
}
