//! Everything that touches the real objects of /repo.
use crate::types::{Cfg, CookieCfg, Crypto, KEYS, Map, OTHER_COOKIE_NAME, Op, map_str};
use futures_util::FutureExt;
use pavex::cookie::config::{CryptoAlgorithm, CryptoRule};
use pavex::cookie::{Key, Processor, ProcessorConfig, RequestCookies, ResponseCookie, ResponseCookies, SameSite};
use pavex_session::config::{
    MissingServerState, ServerStateCreation, SessionCookieKind, TtlExtensionThreshold, TtlExtensionTrigger,
};
use pavex_session::store::errors::{
    ChangeIdError, CreateError, DeleteError, DeleteExpiredError, LoadError, UpdateError, UpdateTtlError,
};
use pavex_session::store::{SessionRecord, SessionRecordRef, SessionStorageBackend};
use pavex_session::{IncomingSession, Session, SessionConfig, SessionId};
use pavex_session_memory_store::InMemorySessionStore;
use std::num::NonZeroUsize;
use std::panic::AssertUnwindSafe;
use std::sync::{Arc, Mutex};

pub const TTL_SECS: u64 = 7200;

pub fn session_config(cfg: &Cfg, cookie: &CookieCfg) -> SessionConfig {
    let mut c = SessionConfig::new();
    c.state.ttl = std::time::Duration::from_secs(TTL_SECS);
    c.state.server_state_creation =
        if cfg.never_skip { ServerStateCreation::NeverSkip } else { ServerStateCreation::SkipIfEmpty };
    c.state.missing_server_state = if cfg.reject { MissingServerState::Reject } else { MissingServerState::Allow };
    c.state.extend_ttl =
        if cfg.extend_on_loads { TtlExtensionTrigger::OnStateLoadsAndChanges } else { TtlExtensionTrigger::OnStateChanges };
    c.state.ttl_extension_threshold = if cfg.threshold { Some(TtlExtensionThreshold::new(0.8).unwrap()) } else { None };
    c.cookie.kind = if cfg.persistent { SessionCookieKind::Persistent } else { SessionCookieKind::Session };
    c.cookie.name = cookie.name.to_string();
    c.cookie.domain = cookie.domain.map(|s| s.to_string());
    c.cookie.path = cookie.path.map(|s| s.to_string());
    c.cookie.same_site = same_site_of(cookie.same_site);
    c.cookie.secure = cookie.secure;
    c.cookie.http_only = cookie.http_only;
    c
}

pub fn same_site_of(code: u8) -> Option<SameSite> {
    match code {
        0 => None,
        1 => Some(SameSite::None),
        2 => Some(SameSite::Lax),
        _ => Some(SameSite::Strict),
    }
}

/// Keys are generated once per process: cookies never cross process boundaries.
pub struct Keys {
    pub a: Key,
    pub b: Key,
}

impl Keys {
    pub fn generate() -> Keys {
        Keys { a: Key::generate(), b: Key::generate() }
    }
}

pub fn processor(crypto: Crypto, cookie_name: &str, keys: &Keys) -> Processor {
    let mut pc = ProcessorConfig::default();
    let rule = |name: &str, algorithm: CryptoAlgorithm, key: &Key| CryptoRule {
        cookie_names: vec![name.to_string()],
        algorithm,
        key: key.clone(),
        fallbacks: vec![],
    };
    match crypto {
        Crypto::NoRules => {}
        Crypto::SignOnly => pc.crypto_rules.push(rule(cookie_name, CryptoAlgorithm::Signing, &keys.a)),
        Crypto::EncryptOnly => pc.crypto_rules.push(rule(cookie_name, CryptoAlgorithm::Encryption, &keys.a)),
        Crypto::SignThenEncrypt => {
            pc.crypto_rules.push(rule(cookie_name, CryptoAlgorithm::Signing, &keys.a));
            pc.crypto_rules.push(rule(cookie_name, CryptoAlgorithm::Encryption, &keys.b));
        }
        Crypto::EncryptThenSign => {
            pc.crypto_rules.push(rule(cookie_name, CryptoAlgorithm::Encryption, &keys.a));
            pc.crypto_rules.push(rule(cookie_name, CryptoAlgorithm::Signing, &keys.b));
        }
        Crypto::OtherNameOnly => {
            pc.crypto_rules.push(rule(OTHER_COOKIE_NAME, CryptoAlgorithm::Encryption, &keys.a));
            pc.crypto_rules.push(rule(&format!("{cookie_name}_"), CryptoAlgorithm::Signing, &keys.b));
        }
    }
    pc.into()
}

// ---------------------------------------------------------------------------------------------
// Store wrapper: delegates to the real in-memory store and records which calls were made.

#[derive(Default)]
pub struct StoreLog {
    /// `create`, `update`, `update_ttl`, `change_id`, `delete`, `load` (+ `!` when the call failed)
    pub ops: Vec<String>,
    /// every id that was ever passed to the backend, in order of first appearance
    pub ids: Vec<SessionId>,
    pub recording: bool,
}

impl StoreLog {
    fn note(&mut self, op: &str, ok: bool, ids: &[&SessionId]) {
        if !self.recording {
            return;
        }
        self.ops.push(if ok { op.to_string() } else { format!("{op}!") });
        for id in ids {
            if !self.ids.contains(id) {
                self.ids.push(**id);
            }
        }
    }
}

pub type SharedLog = Arc<Mutex<StoreLog>>;

pub fn lock(log: &SharedLog) -> std::sync::MutexGuard<'_, StoreLog> {
    log.lock().unwrap_or_else(|e| e.into_inner())
}

pub struct LogBackend {
    pub inner: InMemorySessionStore,
    pub log: SharedLog,
}

impl std::fmt::Debug for LogBackend {
    fn fmt(&self, f: &mut std::fmt::Formatter<'_>) -> std::fmt::Result {
        f.write_str("LogBackend")
    }
}

#[async_trait::async_trait]
impl SessionStorageBackend for LogBackend {
    async fn create(&self, id: &SessionId, record: SessionRecordRef<'_>) -> Result<(), CreateError> {
        let r = self.inner.create(id, record).await;
        lock(&self.log).note("create", r.is_ok(), &[id]);
        r
    }
    async fn update(&self, id: &SessionId, record: SessionRecordRef<'_>) -> Result<(), UpdateError> {
        let r = self.inner.update(id, record).await;
        lock(&self.log).note("update", r.is_ok(), &[id]);
        r
    }
    async fn update_ttl(&self, id: &SessionId, ttl: std::time::Duration) -> Result<(), UpdateTtlError> {
        let r = self.inner.update_ttl(id, ttl).await;
        lock(&self.log).note("update_ttl", r.is_ok(), &[id]);
        r
    }
    async fn load(&self, session_id: &SessionId) -> Result<Option<SessionRecord>, LoadError> {
        let r = self.inner.load(session_id).await;
        let found = matches!(&r, Ok(Some(_)));
        lock(&self.log).note(if found { "load" } else { "load-miss" }, r.is_ok(), &[session_id]);
        r
    }
    async fn delete(&self, session_id: &SessionId) -> Result<(), DeleteError> {
        let r = self.inner.delete(session_id).await;
        lock(&self.log).note("delete", r.is_ok(), &[session_id]);
        r
    }
    async fn change_id(&self, old_id: &SessionId, new_id: &SessionId) -> Result<(), ChangeIdError> {
        let r = self.inner.change_id(old_id, new_id).await;
        lock(&self.log).note("change_id", r.is_ok(), &[old_id, new_id]);
        r
    }
    async fn delete_expired(&self, batch_size: Option<NonZeroUsize>) -> Result<usize, DeleteExpiredError> {
        self.inner.delete_expired(batch_size).await
    }
}

pub fn id_string(id: &SessionId) -> String {
    id.inner().to_string()
}

/// Read a record straight from the real in-memory store (not logged, no side effects).
pub async fn peek(mem: &InMemorySessionStore, id: &SessionId) -> Result<Option<Map>, String> {
    match mem.load(id).await {
        Ok(None) => Ok(None),
        Ok(Some(rec)) => {
            let mut m = Map::new();
            for (k, v) in rec.state.iter() {
                let ki = KEYS.iter().position(|x| *x == k.as_ref()).ok_or_else(|| format!("foreign key {k:?} in store"))?;
                let vi = dec_json(v).ok_or_else(|| format!("foreign value {v:?} in store"))?;
                m.insert(ki as u8, vi);
            }
            Ok(Some(m))
        }
        Err(e) => Err(format!("store load failed: {e:?}")),
    }
}

// ---------------------------------------------------------------------------------------------
// Operations on the real session.

#[derive(Clone, PartialEq, Eq, Debug)]
pub enum Ret {
    Val(Option<u8>),
    Unit,
    Err(String),
    Panic(String),
}

impl Ret {
    /// value-abstract rendering for outcome histograms (invariant under renaming of values)
    pub fn shape(&self) -> String {
        match self {
            Ret::Val(None) => "None".into(),
            Ret::Val(Some(_)) => "Some".into(),
            Ret::Unit => "()".into(),
            Ret::Err(e) => format!("Err({e})"),
            Ret::Panic(_) => "PANIC".into(),
        }
    }
    pub fn show(&self) -> String {
        match self {
            Ret::Val(None) => "None".into(),
            Ret::Val(Some(v)) => format!("Some({v})"),
            Ret::Unit => "()".into(),
            Ret::Err(e) => format!("Err({e})"),
            Ret::Panic(e) => format!("PANIC({e})"),
        }
    }
}

/// Value alphabet on the wire: 1 is the JSON number 1, 2 is JSON `null` (a stored `None::<u64>`): a key whose value is null
/// is PRESENT (`get::<Option<u64>>` = Some(None), `get_raw` = Some(Null)) and must carry over like any other value.
pub fn enc(v: u8) -> Option<u64> {
    if v == 2 { None } else { Some(v as u64) }
}
pub fn dec(v: Option<u64>) -> u8 {
    match v {
        None => 2,
        Some(n) => n as u8,
    }
}
pub fn dec_json(v: &serde_json::Value) -> Option<u8> {
    if v.is_null() { Some(2) } else { v.as_u64().map(|n| n as u8) }
}

fn val_of(v: Option<serde_json::Value>) -> Ret {
    match v {
        None => Ret::Val(None),
        Some(v) => match dec_json(&v) {
            Some(n) => Ret::Val(Some(n)),
            None => Ret::Err(format!("non-numeric value {v}")),
        },
    }
}

pub fn panic_message(p: Box<dyn std::any::Any + Send>) -> String {
    if let Some(s) = p.downcast_ref::<&str>() {
        s.to_string()
    } else if let Some(s) = p.downcast_ref::<String>() {
        s.clone()
    } else {
        "<non-string panic payload>".to_string()
    }
}

/// Abstract an error to the chain of its variant names, e.g. `SyncErr/CreateError/DuplicateId`.
pub fn error_shape<E: std::fmt::Debug>(e: &E) -> String {
    let d = format!("{e:?}");
    let mut parts = Vec::new();
    for seg in d.split('(') {
        let ident: String = seg.trim().chars().take_while(|c| c.is_ascii_alphanumeric() || *c == '_').collect();
        if ident.is_empty() {
            break;
        }
        parts.push(ident);
        if parts.len() == 4 {
            break;
        }
    }
    parts.join("/")
}

/// Execute one operation through the *typed* public API (which goes through the `_raw` one).
pub async fn exec_op(session: &mut Session<'_>, op: Op) -> Ret {
    let fut = async {
        match op {
            Op::SInsert(k, v) => match session.insert(KEYS[k as usize], enc(v)).await {
                Ok(old) => val_of(old),
                Err(e) => Ret::Err(error_shape(&e)),
            },
            Op::SRemove(k) => match session.remove::<Option<u64>>(KEYS[k as usize]).await {
                Ok(old) => Ret::Val(old.map(dec)),
                Err(e) => Ret::Err(error_shape(&e)),
            },
            Op::SClear => match session.clear().await {
                Ok(()) => Ret::Unit,
                Err(e) => Ret::Err(error_shape(&e)),
            },
            Op::SDelete => {
                session.delete();
                Ret::Unit
            }
            Op::SGet(k) => match session.get::<Option<u64>>(KEYS[k as usize]).await {
                Ok(v) => Ret::Val(v.map(dec)),
                Err(e) => Ret::Err(error_shape(&e)),
            },
            Op::ForceLoad => match session.force_load().await {
                Ok(()) => Ret::Unit,
                Err(e) => Ret::Err(error_shape(&e)),
            },
            Op::Sync => match session.sync().await {
                Ok(()) => Ret::Unit,
                Err(e) => Ret::Err(error_shape(&e)),
            },
            Op::CycleId => {
                session.cycle_id();
                Ret::Unit
            }
            Op::Invalidate => {
                session.invalidate();
                Ret::Unit
            }
            Op::CInsert(k, v) => match session.client_mut().insert(KEYS[k as usize], enc(v)) {
                Ok(old) => val_of(old),
                Err(e) => Ret::Err(error_shape(&e)),
            },
            Op::CRemove(k) => match session.client_mut().remove::<Option<u64>>(KEYS[k as usize]) {
                Ok(old) => Ret::Val(old.map(dec)),
                Err(e) => Ret::Err(error_shape(&e)),
            },
            Op::CClear => {
                session.client_mut().clear();
                Ret::Unit
            }
            Op::CGet(k) => match session.client().get::<Option<u64>>(KEYS[k as usize]) {
                Ok(v) => Ret::Val(v.map(dec)),
                Err(e) => Ret::Err(error_shape(&e)),
            },
        }
    };
    match AssertUnwindSafe(fut).catch_unwind().await {
        Ok(r) => r,
        Err(p) => Ret::Panic(panic_message(p)),
    }
}

/// Side-effect-free client-side observations: `([get(a), get(b)], is_empty, is_invalidated)`.
pub fn client_view(session: &Session<'_>) -> ([Option<u8>; 2], bool, bool) {
    let c = session.client();
    let g = |k: usize| c.get::<Option<u64>>(KEYS[k]).ok().flatten().map(dec);
    ([g(0), g(1)], c.is_empty(), session.is_invalidated())
}

// ---------------------------------------------------------------------------------------------
// Debug output of the real session: used (a) by C12's leak oracle and (b) to read the dirty
// markers (state kinds) without perturbing the object, for dedup keys and abstract violation keys.

#[derive(Clone, Debug, PartialEq, Eq, Default)]
pub struct DebugView {
    /// notloaded | unchanged | changed | absent | deleted | ?
    pub server_kind: String,
    /// wrapper/variant identifiers of the server-state cell, e.g. `OnceCell(Unchanged`
    pub server_head: String,
    pub server_map: Map,
    pub client_head: String,
    pub client_map: Map,
    pub invalidated: bool,
    /// set when the output could not be parsed: the whole (UUID-scrubbed) string
    pub raw: Option<String>,
}

/// Permutation of keys (index 0,1) and values (index 1,2; index 0 unused).
pub type Perm = ([u8; 2], [u8; 3]);
pub const IDENTITY: Perm = ([0, 1], [0, 1, 2]);
pub const PERMS: [Perm; 4] = [([0, 1], [0, 1, 2]), ([1, 0], [0, 1, 2]), ([0, 1], [0, 2, 1]), ([1, 0], [0, 2, 1])];

pub fn pmap(m: &Map, p: &Perm) -> Map {
    m.iter().map(|(k, v)| (p.0[*k as usize], p.1[*v as usize])).collect()
}

pub fn pview(v: &[Option<u8>; 2], p: &Perm) -> [Option<u8>; 2] {
    let mut o = [None, None];
    for k in 0..2 {
        o[p.0[k] as usize] = v[k].map(|x| p.1[x as usize]);
    }
    o
}

impl DebugView {
    pub fn render(&self, p: &Perm) -> String {
        match &self.raw {
            Some(r) => format!("RAW[{r}]"),
            None => format!(
                "S[{} {}] C[{} {}] {}",
                self.server_head,
                map_str(&pmap(&self.server_map, p)),
                self.client_head,
                map_str(&pmap(&self.client_map, p)),
                if self.invalidated { "inv" } else { "valid" }
            ),
        }
    }
}

const ENTRY_PATTERNS: [(&str, u8, u8); 4] = [
    ("\"a\": Number(1)", 0, 1),
    ("\"a\": Null", 0, 2),
    ("\"b\": Number(1)", 1, 1),
    ("\"b\": Null", 1, 2),
];

fn map_segment(seg: &str) -> (String, Map) {
    // variant / wrapper identifiers, in order
    let head_end = seg.find('{').unwrap_or(seg.len());
    let mut m = Map::new();
    if seg.len() > head_end + 12 {
        for (pat, k, v) in ENTRY_PATTERNS {
            if seg.contains(pat) {
                m.insert(k, v);
            }
        }
    }
    (seg[..head_end].trim().to_string(), m)
}

pub fn debug_view(debug: &str) -> DebugView {
    // one forward pass over the field markers
    let parts = (|| {
        let i0 = debug.find("server_state: ")? + "server_state: ".len();
        let i1 = debug[i0..].find(", client_state: ")? + i0;
        let j0 = i1 + ", client_state: ".len();
        let j1 = debug[j0..].find(", invalidated: ")? + j0;
        let k0 = j1 + ", invalidated: ".len();
        let k1 = debug[k0..].find(", store: ")? + k0;
        Some((&debug[i0..i1], &debug[j0..j1], &debug[k0..k1]))
    })();
    match parts {
        Some((s, c, i)) => {
            let kind = if s.starts_with("OnceCell(<uninit>") {
                "notloaded"
            } else if s.starts_with("OnceCell(Unchanged") {
                "unchanged"
            } else if s.starts_with("OnceCell(Changed") {
                "changed"
            } else if s.starts_with("OnceCell(DoesNotExist") {
                "absent"
            } else if s.starts_with("OnceCell(MarkedForDeletion") {
                "deleted"
            } else {
                "?"
            };
            let (server_head, server_map) = map_segment(s);
            let (client_head, client_map) = map_segment(c);
            DebugView {
                server_kind: kind.to_string(),
                server_head,
                server_map,
                client_head,
                client_map,
                invalidated: i.contains("true"),
                raw: None,
            }
        }
        None => DebugView { server_kind: "?".into(), raw: Some(scrub_uuids(debug)), ..Default::default() },
    }
}

fn is_hex(b: u8) -> bool {
    b.is_ascii_hexdigit()
}

/// Positions of UUID-shaped tokens (8-4-4-4-12 hex, or 32 contiguous hex digits).
pub fn find_uuid_like(s: &str) -> Option<String> {
    let b = s.as_bytes();
    let n = b.len();
    let mut i = 0;
    while i < n {
        if is_hex(b[i]) && (i == 0 || !is_hex(b[i - 1])) {
            // hyphenated
            let groups = [8usize, 4, 4, 4, 12];
            let mut j = i;
            let mut ok = true;
            for (gi, g) in groups.iter().enumerate() {
                if j + g > n || !b[j..j + g].iter().all(|c| is_hex(*c)) {
                    ok = false;
                    break;
                }
                j += g;
                if gi < 4 {
                    if j >= n || b[j] != b'-' {
                        ok = false;
                        break;
                    }
                    j += 1;
                }
            }
            if ok && (j >= n || !is_hex(b[j])) {
                return Some(s[i..j].to_string());
            }
            // simple
            let mut k = i;
            while k < n && is_hex(b[k]) {
                k += 1;
            }
            if k - i == 32 {
                return Some(s[i..k].to_string());
            }
            i = k.max(i + 1);
        } else {
            i += 1;
        }
    }
    None
}

fn scrub_uuids(s: &str) -> String {
    let mut out = s.to_string();
    while let Some(u) = find_uuid_like(&out) {
        out = out.replace(&u, "<uuid>");
    }
    out
}

/// Does `debug` contain the id in any of its usual renderings?
pub fn leaks_id(debug: &str, id_hyphenated_lower: &str) -> bool {
    let lower = debug.to_ascii_lowercase();
    let simple: String = id_hyphenated_lower.chars().filter(|c| *c != '-').collect();
    lower.contains(id_hyphenated_lower) || lower.contains(&simple)
}

// ---------------------------------------------------------------------------------------------
// Cookies.

#[derive(Clone, Debug, PartialEq, Eq)]
pub enum RawCookie {
    None,
    Removal,
    Set { id: String, client: Map },
    /// a cookie whose value is not the documented wire format
    Garbled(String),
}

impl RawCookie {
    pub fn kind(&self) -> &'static str {
        match self {
            RawCookie::None => "none",
            RawCookie::Removal => "removal",
            RawCookie::Set { .. } => "set",
            RawCookie::Garbled(_) => "garbled",
        }
    }
}

pub fn is_removal(c: &ResponseCookie<'_>) -> bool {
    let epoch = pavex::time::Timestamp::UNIX_EPOCH;
    c.value().is_empty() && c.expires_datetime().map(|z| z.timestamp() == epoch).unwrap_or(false)
}

/// Decode the value of a session cookie as produced by `Session::finalize` (before the processor).
pub fn classify_cookie(c: Option<&ResponseCookie<'_>>) -> RawCookie {
    let Some(c) = c else { return RawCookie::None };
    if is_removal(c) {
        return RawCookie::Removal;
    }
    let Ok(v) = serde_json::from_str::<serde_json::Value>(c.value()) else {
        return RawCookie::Garbled(c.value().to_string());
    };
    let Some(id) = v.get("0").and_then(|x| x.as_str()) else {
        return RawCookie::Garbled(c.value().to_string());
    };
    let mut client = Map::new();
    if let Some(obj) = v.get("1") {
        let Some(obj) = obj.as_object() else { return RawCookie::Garbled(c.value().to_string()) };
        for (k, val) in obj {
            let (Some(ki), Some(vi)) = (KEYS.iter().position(|x| x == k), dec_json(val)) else {
                return RawCookie::Garbled(c.value().to_string());
            };
            client.insert(ki as u8, vi);
        }
    }
    RawCookie::Set { id: id.to_ascii_lowercase(), client }
}

/// `Set-Cookie` header value for one cookie, through the real `ResponseCookies` + `Processor`.
pub fn set_cookie_header(cookie: ResponseCookie<'static>, processor: &Processor) -> Result<String, String> {
    let mut rc = ResponseCookies::new();
    rc.insert(cookie);
    let v: Vec<String> = rc.header_values(processor).collect();
    if v.len() != 1 {
        return Err(format!("expected one Set-Cookie header, got {}", v.len()));
    }
    Ok(v.into_iter().next().unwrap())
}

/// What a browser sends back: the `name=value` pair of a `Set-Cookie` header.
pub fn name_value_of(header: &str) -> String {
    header.split(';').next().unwrap_or("").trim().to_string()
}

/// Real request path: `Cookie` header -> `RequestCookies` (processor) -> `IncomingSession::extract`.
pub fn incoming_from_wire(wire: &str, processor: &Processor, config: &SessionConfig) -> Result<Option<IncomingSession>, String> {
    let cookies = RequestCookies::parse_header(wire, processor).map_err(|e| format!("{e:?}"))?;
    Ok(IncomingSession::extract(&cookies, &config.cookie))
}
