//! A state of the search is an event history. This module rebuilds it by replaying the history
//! on fresh real objects (in-memory store, `SessionStore`, `Session`, cookie `Processor`), runs
//! the reference model alongside, evaluates the oracles on the *last* event and renders the
//! canonical observable state used for deduplication.
use crate::model::{MCookie, MRet, MServer, Mid, Model, PersistExpect, ProbeObs};
use crate::real::*;
use crate::real::{IDENTITY, PERMS, Perm, pmap, pview};
use crate::types::*;
use futures_util::FutureExt;
use pavex::Response;
use pavex::cookie::{Processor, ResponseCookie, ResponseCookies};
use pavex_session::{IncomingSession, Session, SessionConfig, SessionId, SessionStore, finalize_session};
use pavex_session_memory_store::InMemorySessionStore;
use std::collections::BTreeMap;
use std::panic::AssertUnwindSafe;
use std::sync::{Arc, Mutex};

pub struct Ctx {
    pub keys: Keys,
    /// wire processors (encrypting) per cookie name, used to carry cookies between requests
    pub wire: BTreeMap<&'static str, Processor>,
}

impl Ctx {
    pub fn new() -> Ctx {
        let keys = Keys::generate();
        let mut wire = BTreeMap::new();
        for n in COOKIE_NAMES {
            wire.insert(n, processor(Crypto::EncryptOnly, n, &keys));
        }
        Ctx { keys, wire }
    }
}

#[derive(Clone)]
pub struct JarCookie {
    /// the cookie as produced by `Session::finalize`; what the browser sends back (`name=value`,
    /// value encrypted by the wire processor) is computed from it when a request presents it
    pub raw: ResponseCookie<'static>,
    pub sid: SessionId,
    pub mid: Mid,
    pub client: Map,
}

#[derive(Clone, Default)]
pub struct Jar {
    pub current: Option<JarCookie>,
    pub stale: Option<JarCookie>,
}

#[derive(Clone, Debug)]
pub struct Viol {
    pub key: String,
    pub what: String,
}

#[derive(Clone, Debug, Default)]
pub struct NodeInfo {
    /// dirty marker of the real server-state cell at the end of the history (open requests)
    pub server_kind: String,
    /// see `MReq::unmarked`
    pub unmarked: Vec<&'static str>,
    pub open: bool,
    pub has_current: bool,
    pub has_stale: bool,
    pub req_idx: usize,
    pub ops_used: usize,
}

pub enum FinalMode<'a> {
    /// `Session::finalize()` (C11 and the twin run of C12)
    Direct,
    /// the real `finalize_session` middleware with this processor (C12); last event only
    Middleware(&'a Processor),
}

pub struct ReplayOpts<'a> {
    pub cookie: &'a CookieCfg,
    /// evaluate and report the C11 oracles on the last event
    pub oracles: bool,
    pub narrative: bool,
    pub final_mode: FinalMode<'a>,
    /// C12: check `format!("{:?}", session)` for id leaks
    pub leak_check: bool,
    /// Search only: what the parent node's replay observed at its end (server-state kind, unmarked
    /// mutations). With it the Debug output of the real object is only rendered for the event under
    /// test instead of after every event of the open request; `--replay` runs without it.
    pub hint: Option<&'a NodeInfo>,
    /// dedup modulo permutations of the keys {a,b} and of the values {1,2}
    pub symmetry: bool,
    /// C12 configuration-source dimension: use this (deserialised) configuration instead of the
    /// one built from `Cfg` + `CookieCfg`
    pub config_override: Option<&'a SessionConfig>,
}

/// Observation of a `finalize_session` call.
#[derive(Clone, Debug)]
pub struct MwObs {
    /// "ok", "err:<shape>", "panic:<msg>"
    pub result: String,
    pub attached: Vec<ResponseCookie<'static>>,
    pub headers: Vec<String>,
}

/// Observation of a direct `Session::finalize` call.
#[derive(Clone, Debug)]
pub enum RawFinal {
    Ok(Option<ResponseCookie<'static>>),
    #[allow(dead_code)]
    Err(String),
    #[allow(dead_code)]
    Panic(String),
}

#[derive(Default)]
pub struct Outcome {
    pub violations: Vec<Viol>,
    pub terminal: bool,
    pub state_key: String,
    pub label: String,
    pub tolerated: Vec<&'static str>,
    pub info: NodeInfo,
    pub narrative: Vec<String>,
    pub mw: Option<MwObs>,
    pub raw_final: Option<RawFinal>,
}

struct Binding {
    list: Vec<(Mid, String, SessionId)>,
}

impl Binding {
    fn real_of(&self, mid: Mid) -> Option<&(Mid, String, SessionId)> {
        self.list.iter().find(|b| b.0 == mid)
    }
    fn mid_of(&self, real: &str) -> Option<Mid> {
        self.list.iter().find(|b| b.1 == real).map(|b| b.0)
    }
}

fn wire_of(c: &JarCookie, wire_proc: &Processor) -> Result<String, String> {
    Ok(name_value_of(&set_cookie_header(c.raw.clone(), wire_proc)?))
}

fn state_of(m: &Map) -> std::collections::HashMap<std::borrow::Cow<'static, str>, serde_json::Value> {
    m.iter().map(|(k, v)| (std::borrow::Cow::Borrowed(KEYS[*k as usize]), serde_json::json!(crate::real::enc(*v)))).collect()
}

fn parse_sid(s: &str) -> Option<SessionId> {
    serde_json::from_value(serde_json::Value::String(s.to_string())).ok()
}

#[derive(Debug, Clone)]
struct Diff {
    what: &'static str, // missing | leftover | content-differs
    mid: Option<Mid>,
    empty_only: bool,
    detail: String,
}

struct RealStore {
    bound: BTreeMap<Mid, Option<Map>>,
    unbound: Vec<Map>,
}

async fn snapshot_real(mem: &InMemorySessionStore, log: &SharedLog, bind: &Binding) -> Result<RealStore, String> {
    let mut ids: Vec<SessionId> = lock(log).ids.clone();
    for b in &bind.list {
        if !ids.contains(&b.2) {
            ids.push(b.2);
        }
    }
    let mut rs = RealStore { bound: BTreeMap::new(), unbound: Vec::new() };
    for id in ids {
        let rec = peek(mem, &id).await?;
        match bind.mid_of(&id_string(&id)) {
            Some(mid) => {
                rs.bound.insert(mid, rec);
            }
            None => {
                if let Some(r) = rec {
                    rs.unbound.push(r);
                }
            }
        }
    }
    rs.unbound.sort();
    Ok(rs)
}

fn diff_stores(model: &Model, bind: &Binding, real: &RealStore) -> Vec<Diff> {
    let mut out = Vec::new();
    let mut mids: Vec<Mid> = real.bound.keys().copied().collect();
    for m in model.store.keys() {
        if bind.real_of(*m).is_some() && !mids.contains(m) {
            mids.push(*m);
        }
    }
    mids.sort();
    for mid in mids {
        let m = model.store.get(&mid);
        let r = real.bound.get(&mid).cloned().flatten();
        match (m, r) {
            (None, None) => {}
            (Some(m), Some(r)) => {
                if *m != r {
                    out.push(Diff {
                        what: "content-differs",
                        mid: Some(mid),
                        empty_only: false,
                        detail: format!("expected {} found {}", map_str(m), map_str(&r)),
                    });
                }
            }
            (Some(m), None) => out.push(Diff {
                what: "missing",
                mid: Some(mid),
                empty_only: m.is_empty(),
                detail: format!("expected a record {} found none", map_str(m)),
            }),
            (None, Some(r)) => out.push(Diff {
                what: "leftover",
                mid: Some(mid),
                empty_only: r.is_empty(),
                detail: format!("expected no record, found {}", map_str(&r)),
            }),
        }
    }
    let mut model_unbound: Vec<Map> =
        model.store.iter().filter(|(m, _)| bind.real_of(**m).is_none()).map(|(_, v)| v.clone()).collect();
    model_unbound.sort();
    let mut real_unbound = real.unbound.clone();
    // remove the common part of the two multisets
    let mut i = 0;
    while i < model_unbound.len() {
        if let Some(j) = real_unbound.iter().position(|r| *r == model_unbound[i]) {
            real_unbound.remove(j);
            model_unbound.remove(i);
        } else {
            i += 1;
        }
    }
    for m in model_unbound {
        out.push(Diff {
            what: "missing",
            mid: None,
            empty_only: m.is_empty(),
            detail: format!("expected a record {} under the not-yet-disclosed id, found none", map_str(&m)),
        });
    }
    for r in real_unbound {
        out.push(Diff {
            what: "leftover",
            mid: None,
            empty_only: r.is_empty(),
            detail: format!("found a record {} under an id no cookie refers to", map_str(&r)),
        });
    }
    out
}

/// Make the model agree with the real store on the *existence of empty records* (never on contents).
fn adopt_empty_deviations(model: &mut Model, diffs: &[Diff], bind: &Binding) {
    for d in diffs.iter().filter(|d| d.empty_only) {
        match (d.what, d.mid) {
            ("missing", Some(mid)) => {
                model.store.remove(&mid);
            }
            ("leftover", Some(mid)) => {
                model.store.insert(mid, Map::new());
            }
            ("missing", None) => {
                let victim = model.store.iter().find(|(m, v)| bind.real_of(**m).is_none() && v.is_empty()).map(|(m, _)| *m);
                if let Some(m) = victim {
                    model.store.remove(&m);
                }
            }
            ("leftover", None) => {
                let mid = model.fresh_mid();
                model.store.insert(mid, Map::new());
            }
            _ => {}
        }
    }
}

async fn probe(
    store: &SessionStore,
    config: &SessionConfig,
    wire_proc: &Processor,
    wire: &str,
    log: &SharedLog,
) -> Result<ProbeObs, String> {
    lock(log).recording = false;
    let r = async {
        let incoming = incoming_from_wire(wire, wire_proc, config)?.ok_or_else(|| "cookie-not-accepted".to_string())?;
        let mut s = Session::new(store, config, Some(incoming));
        let c0 = client_view(&s).0;
        let mut sv = [None, None];
        for k in 0..2u8 {
            match exec_op(&mut s, Op::SGet(k)).await {
                Ret::Val(v) => sv[k as usize] = v,
                other => return Err(format!("server-get-{}", other.show())),
            }
        }
        let c1 = client_view(&s).0;
        Ok(ProbeObs { client_before_load: c0, server: sv, client_after_load: c1 })
    }
    .await;
    lock(log).recording = true;
    r
}

fn idk(model: &Model) -> &'static str {
    match &model.req {
        Some(r) if r.came_with.is_none() => "new",
        Some(r) if r.cycled => "renamed",
        Some(_) => "existing",
        None => "-",
    }
}

/// Abstract description of the request the violating step ran in: server-state kind (dirty
/// marker) before the step, id kind, whether an explicit sync already ran, unmarked mutations.
struct Desc {
    sk: String,
    idk: &'static str,
    synced: bool,
    unmarked: Vec<&'static str>,
}

impl Desc {
    /// Abstract violation key. Manifestations of one mechanism collapse:
    ///  * a server mutation the real object did not mark as a change => one key per symptom class;
    ///  * anything that goes wrong after an explicit `sync()` on a session whose id is new or
    ///    renamed (the region where the object's notion of "current id" and the store disagree)
    ///    => one key per (id kind, symptom class);
    ///  * everything else: symptom class + detail + state kind + id kind.
    fn key(&self, symptom: &str, detail: &str) -> String {
        if !self.unmarked.is_empty() && matches!(symptom, "store-diverged" | "probe-diverged" | "return-value" | "client-view") {
            format!("server-mutation-not-marked-as-changed[{}]:{symptom}", self.unmarked.join(","))
        } else if self.synced && self.idk != "existing" {
            format!("after-explicit-sync:id={}:{symptom}", self.idk)
        } else if detail.starts_with("client.") {
            // client-side operations do not depend on the server-state cell or the id kind
            format!("{symptom}:{detail}")
        } else {
            format!("{symptom}:{detail}:state={}:id={}", self.sk, self.idk)
        }
    }
}

fn req_desc(model: &Model, sk: &str) -> Desc {
    let r = model.req.as_ref();
    Desc {
        sk: sk.to_string(),
        idk: idk(model),
        synced: r.map(|r| r.synced).unwrap_or(false),
        unmarked: r.map(|r| r.unmarked.iter().copied().collect()).unwrap_or_default(),
    }
}

/// `SyncErr/CreateError/DuplicateId/DuplicateIdError` -> `CreateError/DuplicateId`
fn short_shape(shape: &str) -> String {
    let parts: Vec<&str> = shape.split('/').filter(|p| *p != "SyncErr").take(2).collect();
    parts.join("/")
}

fn oracle_tag(model: &Model) -> &'static str {
    match &model.req {
        Some(r) if r.invalidated => "(c)invalidate",
        Some(r) if r.cycled => "(d)cycle_id",
        _ => "(b)carry-over",
    }
}

fn mserver_str(s: &MServer) -> String {
    match s {
        MServer::NotLoaded => "notloaded".into(),
        MServer::Absent => "absent".into(),
        MServer::Deleted => "deleted".into(),
        MServer::Present(m) => format!("present{}", map_str(m)),
    }
}

fn obs_str(o: &[Option<u8>; 2]) -> String {
    let f = |x: &Option<u8>| x.map(|v| v.to_string()).unwrap_or("-".into());
    format!("a={} b={}", f(&o[0]), f(&o[1]))
}

fn probe_str(p: &ProbeObs) -> String {
    format!(
        "client[{}] server[{}] client-after-load[{}]",
        obs_str(&p.client_before_load),
        obs_str(&p.server),
        obs_str(&p.client_after_load)
    )
}

pub async fn replay(ctx: &Ctx, cfg: &Cfg, hist: &[Event], opts: &ReplayOpts<'_>) -> Result<Outcome, String> {
    let mem = InMemorySessionStore::new();
    let log: SharedLog = Arc::new(Mutex::new(StoreLog { recording: true, ..Default::default() }));
    let store = SessionStore::new(LogBackend { inner: mem.clone(), log: log.clone() });
    let config = opts.config_override.cloned().unwrap_or_else(|| session_config(cfg, opts.cookie));
    let wire_proc = ctx.wire.get(config.cookie.name.as_str()).ok_or("no wire processor for this cookie name")?;
    let mut model = Model::default();
    let mut bind = Binding { list: Vec::new() };
    let mut jar = Jar::default();
    let mut session: Option<Session<'_>> = None;
    let mut req_idx = 0usize;
    let mut ops_used = 0usize;
    let mut out = Outcome::default();
    let mut snaps: Vec<String> = Vec::new();
    let mut last_dv: Option<DebugView> = None;
    let mut presented: Option<JarCookie> = None;
    let mut last_client_view: ([Option<u8>; 2], bool, bool) = Default::default();

    macro_rules! viol {
        ($check:expr, $key:expr, $what:expr) => {
            if $check {
                out.violations.push(Viol { key: $key, what: $what });
            }
        };
    }

    // Debug output / client view of the real object are only needed for the request under test.
    let last_begin = hist.iter().rposition(|e| matches!(e, Event::Begin(_))).unwrap_or(0);
    for (i, ev) in hist.iter().enumerate() {
        let last = i + 1 == hist.len();
        let cur = i >= last_begin;
        let need_dbg = opts.narrative || cur && (opts.hint.is_none() || last || (opts.leak_check && hist.last() == Some(&Event::Finalize)));
        if last
            && let (Some(h), Some(r)) = (opts.hint, model.req.as_mut())
        {
            r.unmarked = h.unmarked.iter().copied().collect();
            last_dv = Some(DebugView { server_kind: h.server_kind.clone(), ..Default::default() });
        }
        let check = opts.oracles && last;
        if out.terminal {
            return Err(format!("history continues after a terminal event at index {i}"));
        }
        match *ev {
            Event::Begin(p) => {
                if session.is_some() {
                    return Err("begin inside an open request".into());
                }
                let cookie = match p {
                    Present::Current => Some(jar.current.clone().ok_or("begin[current-cookie] but the jar is empty")?),
                    Present::Stale => Some(jar.stale.clone().ok_or("begin[stale-cookie] but there is no stale cookie")?),
                    Present::NoCookie => None,
                };
                let incoming = match &cookie {
                    None => None,
                    // Prefix requests were already checked through the real wire path when they were
                    // the last event of a shorter history; here they are rebuilt from parts.
                    Some(c) if !last && !opts.narrative => Some(IncomingSession::from_parts(c.sid, state_of(&c.client))),
                    Some(c) => match wire_of(c, wire_proc).and_then(|w| incoming_from_wire(&w, wire_proc, &config)) {
                        Ok(Some(inc)) => Some(inc),
                        other => {
                            if !last {
                                return Err(format!("prefix: cookie not accepted: {:?}", other.err()));
                            }
                            viol!(
                                check,
                                "wire-roundtrip:cookie-not-accepted".to_string(),
                                "a session cookie emitted by finalize() was not accepted by IncomingSession::extract".to_string()
                            );
                            out.terminal = true;
                            None
                        }
                    },
                };
                model.begin(cookie.as_ref().map(|c| (c.mid, c.client.clone())));
                presented = cookie.clone();
                let s = Session::new(&store, &config, incoming);
                lock(&log).ops.clear();
                req_idx += 1;
                ops_used = 0;
                snaps.clear();
                let d = if need_dbg { format!("{s:?}") } else { String::new() };
                let rv = client_view(&s);
                let mv = model.client_view();
                if rv != mv && !out.terminal {
                    viol!(
                        check,
                        format!("begin:client-view:{:?}", p).to_lowercase(),
                        format!("client-side state at request start: observed {rv:?}, expected {mv:?}")
                    );
                }
                if opts.narrative {
                    out.narrative.push(format!("{} -> client view {:?} (expected {:?})", ev.to_string(), rv, mv));
                }
                out.label = format!("begin:{:?}:client-keys={}", p, rv.0.iter().flatten().count());
                last_client_view = rv;
                last_dv = if need_dbg { Some(debug_view(&d)) } else { None };
                if opts.leak_check {
                    snaps.push(d);
                }
                session = Some(s);
            }
            Event::Op(op) => {
                let s = session.as_mut().ok_or("operation outside a request")?;
                let before_kind = last_dv.as_ref().map(|d| d.server_kind.clone()).unwrap_or("?".into());
                let desc = req_desc(&model, &before_kind);
                let server_before = model.req.as_ref().unwrap().server.clone();
                let (expected, persist_expect) = if op == Op::Sync {
                    let pe = model.persist(cfg);
                    (MRet::Unit, Some(pe))
                } else {
                    (model.apply(op, cfg), None)
                };
                lock(&log).ops.clear();
                let real = exec_op(s, op).await;
                let d = if need_dbg { format!("{s:?}") } else { String::new() };
                let dv = if need_dbg { debug_view(&d) } else { DebugView { server_kind: "?".into(), ..Default::default() } };
                let matches = match (&expected, &real) {
                    (MRet::Unit, Ret::Unit) => true,
                    (MRet::Val(a), Ret::Val(b)) => a == b,
                    _ => false,
                };
                if opts.narrative {
                    out.narrative.push(format!(
                        "{} -> observed {} (expected {:?}); server state kind {} -> {}; model server {}",
                        op.to_string(),
                        real.show(),
                        expected,
                        before_kind,
                        dv.server_kind,
                        mserver_str(&model.req.as_ref().unwrap().server)
                    ));
                }
                if last {
                    out.label = format!("{}:{}->{}:{}:store[{}]", op.name(), before_kind, dv.server_kind, real.shape(), lock(&log).ops.join(","));
                }
                if !matches {
                    let tolerated = matches!(persist_expect, Some(PersistExpect::MayFailUnknownId))
                        && matches!(&real, Ret::Err(e) if e.contains("ChangeIdError/UnknownId"));
                    if tolerated {
                        if last {
                            out.tolerated.push("sync-fails-for-cycle_id-on-unloaded-session-without-record(upstream-tested)");
                        }
                    } else if !last {
                        return Err(format!("prefix diverged at {}: {}", op.to_string(), real.show()));
                    } else {
                        let key = match &real {
                            Ret::Err(e) if op == Op::Sync => desc.key("persist-error", &short_shape(e)),
                            Ret::Err(e) => desc.key("op-error", &format!("{}:{}", op.name(), short_shape(e))),
                            Ret::Panic(_) if op == Op::Sync => desc.key("persist-panic", "sync"),
                            Ret::Panic(_) => desc.key("op-panic", op.name()),
                            _ => desc.key("return-value", op.name()),
                        };
                        viol!(
                            check,
                            key,
                            format!("{} returned {}, the reference model expects {:?}", op.to_string(), real.show(), expected)
                        );
                    }
                    out.terminal = true;
                } else {
                    // bookkeeping for abstract keys: server mutators that changed the map while the
                    // real object still calls its state `Unchanged`
                    let r = model.req.as_mut().unwrap();
                    if matches!(op, Op::SInsert(..) | Op::SRemove(..) | Op::SClear)
                        && r.server != server_before
                        && server_before != MServer::NotLoaded
                        && dv.server_kind == "unchanged"
                        && before_kind == "unchanged"
                    {
                        r.unmarked.insert(op.name());
                    }
                    if matches!(op, Op::SInsert(..) | Op::SRemove(..) | Op::SClear)
                        && server_before == MServer::NotLoaded
                        && dv.server_kind == "unchanged"
                    {
                        // loaded and mutated in one step: compare the loaded map with the current one
                        let loaded = r.record_at.and_then(|m| model.store.get(&m)).cloned();
                        if let (Some(l), MServer::Present(now)) = (loaded, &r.server)
                            && l != *now
                        {
                            r.unmarked.insert(op.name());
                        }
                    }
                    if op == Op::Sync {
                        r.synced = true;
                        r.cycled_since_sync = false;
                        r.unmarked.clear();
                        let rs = snapshot_real(&mem, &log, &bind).await?;
                        let diffs = diff_stores(&model, &bind, &rs);
                        if let Some(dv0) = diffs.iter().find(|d| !d.empty_only) {
                            if !last {
                                return Err(format!("prefix diverged (store after sync): {}", dv0.detail));
                            }
                            viol!(
                                check,
                                desc.key("store-diverged", &format!("{}:{}", oracle_tag(&model), dv0.what)),
                                format!("store contents after sync(): {}", dv0.detail)
                            );
                            out.terminal = true;
                        } else if !diffs.is_empty() {
                            if last {
                                out.tolerated.push("empty-record-existence-differs-from-documented-policy(after-sync)");
                            }
                            adopt_empty_deviations(&mut model, &diffs, &bind);
                        }
                    }
                    let rv = if last { client_view(s) } else { Default::default() };
                    let mv = if last { model.client_view() } else { Default::default() };
                    if rv != mv && !out.terminal {
                        viol!(
                            check,
                            desc.key("client-view", op.name()),
                            format!("after {}: client-side observations {rv:?}, expected {mv:?}", op.to_string())
                        );
                        out.terminal = true;
                    }
                    last_client_view = rv;
                }
                ops_used += 1;
                if opts.leak_check {
                    snaps.push(d);
                }
                last_dv = Some(dv);
            }
            Event::Finalize => {
                let mut s = session.take().ok_or("finalize outside a request")?;
                let before_kind = last_dv.as_ref().map(|d| d.server_kind.clone()).unwrap_or("?".into());
                let desc = req_desc(&model, &before_kind);
                let tag = oracle_tag(&model);
                if let FinalMode::Middleware(p) = &opts.final_mode
                    && last
                {
                    let mut rc = ResponseCookies::new();
                    let res = AssertUnwindSafe(finalize_session(Response::ok(), &mut rc, p, s)).catch_unwind().await;
                    let result = match res {
                        Ok(Ok(_)) => "ok".to_string(),
                        Ok(Err(e)) => format!("err:{}", error_shape(&e)),
                        Err(pn) => format!("panic:{}", panic_message(pn)),
                    };
                    let attached: Vec<ResponseCookie<'static>> = rc.iter().cloned().collect();
                    let headers: Vec<String> = rc.header_values(p).collect();
                    out.mw = Some(MwObs { result, attached, headers });
                    out.terminal = true;
                    continue;
                }
                let persist_expect = model.persist(cfg);
                let (exp_cookie, tolerant) = model.expected_cookie();
                lock(&log).ops.clear();
                let fin = AssertUnwindSafe(s.finalize()).catch_unwind().await;
                let store_ops = lock(&log).ops.join(",");
                let cookie = match fin {
                    Err(pn) => {
                        let msg = panic_message(pn);
                        out.raw_final = Some(RawFinal::Panic(msg.clone()));
                        if !last {
                            return Err(format!("prefix panicked in finalize: {msg}"));
                        }
                        viol!(check, desc.key("persist-panic", "finalize"), format!("finalize() panicked: {msg}"));
                        out.label = format!("finalize:{before_kind}:PANIC");
                        out.terminal = true;
                        if opts.narrative {
                            out.narrative.push(format!("finalize -> PANIC {msg} (expected Ok)"));
                        }
                        continue;
                    }
                    Ok(Err(e)) => {
                        let shape = error_shape(&e);
                        out.raw_final = Some(RawFinal::Err(shape.clone()));
                        let tolerated = persist_expect == PersistExpect::MayFailUnknownId && shape.contains("ChangeIdError/UnknownId");
                        if tolerated {
                            if last {
                                out.tolerated.push("sync-fails-for-cycle_id-on-unloaded-session-without-record(upstream-tested)");
                            }
                        } else {
                            if !last {
                                return Err(format!("prefix failed in finalize: {shape}"));
                            }
                            viol!(
                                check,
                                desc.key("persist-error", &short_shape(&shape)),
                                format!("finalize() failed with {shape} (store calls: [{store_ops}]); the reference model expects Ok")
                            );
                        }
                        out.label = format!("finalize:{before_kind}:Err({shape}):store[{store_ops}]");
                        out.terminal = true;
                        if opts.narrative {
                            out.narrative.push(format!("finalize -> Err({shape}), store calls [{store_ops}] (expected Ok)"));
                        }
                        continue;
                    }
                    Ok(Ok(c)) => c,
                };
                out.raw_final = Some(RawFinal::Ok(cookie.clone()));
                if opts.leak_check && last {
                    snaps.push(format!("{s:?}"));
                }
                drop(s);
                let raw = classify_cookie(cookie.as_ref());
                out.label = format!("finalize:{before_kind}:{}:cookie={}:store[{store_ops}]", idk(&model), raw.kind());
                if opts.narrative {
                    out.narrative.push(format!(
                        "finalize -> cookie {:?} (expected {:?}{}), store calls [{store_ops}]",
                        raw,
                        exp_cookie,
                        if tolerant { ", or none/empty: nothing to carry" } else { "" }
                    ));
                }
                // ---- cookie oracle
                let r = model.req.as_ref().unwrap().clone();
                let mut set_cookie: Option<(Mid, String, Map)> = None;
                match &raw {
                    RawCookie::None if exp_cookie == MCookie::None => {}
                    RawCookie::Removal if exp_cookie == MCookie::Removal => {}
                    RawCookie::Garbled(v) => {
                        if !last {
                            return Err("prefix: garbled cookie".into());
                        }
                        viol!(check, desc.key("cookie", "garbled"), format!("session cookie value is not the wire format: {v}"));
                        out.terminal = true;
                    }
                    RawCookie::Set { id, client: rc_client }
                        if matches!(exp_cookie, MCookie::Set { .. }) || (exp_cookie == MCookie::None && tolerant) =>
                    {
                        let expected_client = match &exp_cookie {
                            MCookie::Set { client, .. } => client.clone(),
                            _ => Map::new(),
                        };
                        if !matches!(exp_cookie, MCookie::Set { .. }) && last {
                            out.tolerated.push("cookie-emitted-for-a-session-with-nothing-to-carry");
                        }
                        if *rc_client != expected_client {
                            if !last {
                                return Err("prefix: cookie client state diverged".into());
                            }
                            viol!(
                                check,
                                desc.key("cookie", &format!("client-state:{tag}")),
                                format!("cookie carries client state {}, expected {}", map_str(rc_client), map_str(&expected_client))
                            );
                            out.terminal = true;
                        }
                        // id relation
                        let expect_same_as_presented = r.came_with.is_some() && !r.cycled;
                        let presented_real = r.came_with.and_then(|m| bind.real_of(m)).map(|b| b.1.clone());
                        let already_bound = bind.mid_of(id);
                        let id_ok = if expect_same_as_presented {
                            presented_real.as_deref() == Some(id.as_str())
                        } else {
                            already_bound.is_none()
                        };
                        if !id_ok && !out.terminal {
                            if !last {
                                return Err("prefix: cookie id diverged".into());
                            }
                            viol!(
                                check,
                                desc.key("cookie", &format!("id:{tag}")),
                                if expect_same_as_presented {
                                    "cookie carries a different id although cycle_id() was not called".to_string()
                                } else {
                                    "cookie carries an id that was already in use although a fresh one was due".to_string()
                                }
                            );
                            out.terminal = true;
                        }
                        if !out.terminal {
                            if already_bound.is_none() {
                                let sid = parse_sid(id).ok_or("cookie id is not a session id")?;
                                bind.list.push((r.id_new, id.clone(), sid));
                            }
                            set_cookie = Some((r.id_new, id.clone(), rc_client.clone()));
                        }
                    }
                    RawCookie::None if tolerant && matches!(&exp_cookie, MCookie::Set { client, .. } if client.is_empty()) => {
                        if last {
                            out.tolerated.push("no-cookie-for-a-session-with-nothing-to-carry");
                        }
                    }
                    a => {
                        let e = &exp_cookie;
                        if !last {
                            return Err("prefix: cookie kind diverged".into());
                        }
                        let ek = match e {
                            MCookie::None => "none",
                            MCookie::Removal => "removal",
                            MCookie::Set { .. } => "set",
                        };
                        viol!(
                            check,
                            desc.key("cookie", &format!("expected-{ek}-got-{}:{tag}", a.kind())),
                            format!(
                                "finalize() produced cookie {:?}; expected {:?} (came with a session: {}, invalidated: {})",
                                a,
                                e,
                                r.came_with.is_some(),
                                r.invalidated
                            )
                        );
                        out.terminal = true;
                    }
                }
                // ---- jar update
                if !out.terminal {
                    match (&raw, cookie) {
                        (RawCookie::Set { .. }, Some(c)) => {
                            let (mid, id, client) = set_cookie.clone().ok_or("internal: set cookie without binding")?;
                            let sid = parse_sid(&id).ok_or("cookie id is not a session id")?;
                            let newc = JarCookie { raw: c, sid, mid, client };
                            let same = jar.current.as_ref().map(|c| c.mid == newc.mid && c.client == newc.client).unwrap_or(false);
                            if !same && let Some(old) = jar.current.take() {
                                jar.stale = Some(old);
                            }
                            jar.current = Some(newc);
                        }
                        (RawCookie::Removal, Some(c)) => {
                            // the header must be well-formed too
                            if last {
                                let _ = set_cookie_header(c, wire_proc)?;
                            }
                            if let Some(old) = jar.current.take() {
                                jar.stale = Some(old);
                            }
                        }
                        _ => {}
                    }
                }
                // ---- store oracle + probes
                if !out.terminal {
                    let rs = snapshot_real(&mem, &log, &bind).await?;
                    let diffs = diff_stores(&model, &bind, &rs);
                    if let Some(d0) = diffs.iter().find(|d| !d.empty_only) {
                        if !last {
                            return Err(format!("prefix diverged (store after finalize): {}", d0.detail));
                        }
                        let which = match d0.mid {
                            None => "undisclosed-id",
                            Some(m) if m == r.id_new => "current-id",
                            Some(m) if Some(m) == r.came_with => "old-id",
                            Some(_) => "other-id",
                        };
                        viol!(
                            check,
                            desc.key("store-diverged", &format!("{tag}:{}:{which}", d0.what)),
                            format!("store contents after finalize() (store calls: [{store_ops}]): under the {which}: {}", d0.detail)
                        );
                        out.terminal = true;
                    }
                    if check && !out.terminal {
                        // the cookie this request came with, if the jar no longer holds it
                        let came_with = presented.clone().filter(|p| {
                            let same = |c: &Option<JarCookie>| c.as_ref().map(|c| c.mid == p.mid && c.client == p.client).unwrap_or(false);
                            !same(&jar.current) && !same(&jar.stale)
                        });
                        for (which, c) in [("current-cookie", jar.current.clone()), ("stale-cookie", jar.stale.clone()), ("presented-cookie", came_with)] {
                            let Some(c) = c else { continue };
                            let expected = model.expect_probe(cfg, c.mid, &c.client);
                            let got = match wire_of(&c, wire_proc) {
                                Ok(w) => probe(&store, &config, wire_proc, &w, &log).await,
                                Err(e) => Err(e),
                            };
                            if opts.narrative {
                                out.narrative.push(format!(
                                    "  probe with the {which}: observed {}, expected {}",
                                    got.as_ref().map(probe_str).unwrap_or_else(|e| e.clone()),
                                    probe_str(&expected)
                                ));
                            }
                            match got {
                                Ok(g) if g == expected => {}
                                Ok(g) => {
                                    let part = if g.client_before_load != expected.client_before_load {
                                        "client-state"
                                    } else if g.server != expected.server {
                                        "server-state"
                                    } else {
                                        "client-state-after-load"
                                    };
                                    let empties: Vec<&str> = diffs.iter().filter(|d| d.empty_only).map(|d| d.what).collect();
                                    viol!(
                                        true,
                                        desc.key(
                                            "probe-diverged",
                                            &format!(
                                                "{tag}:{which}:{part}{}",
                                                if empties.is_empty() { String::new() } else { format!(":empty-record-{}", empties.join("+")) }
                                            )
                                        ),
                                        format!(
                                            "a request presenting the {which} observes {}; the request that ended with client {} / server {} requires {}",
                                            probe_str(&g),
                                            map_str(&c.client),
                                            model.store.get(&c.mid).map(map_str).unwrap_or("no record".into()),
                                            probe_str(&expected)
                                        )
                                    );
                                    out.terminal = true;
                                    break;
                                }
                                Err(e) => {
                                    viol!(
                                        true,
                                        desc.key("probe-diverged", &format!("{tag}:{which}:{e}")),
                                        format!("a request presenting the {which} failed: {e}")
                                    );
                                    out.terminal = true;
                                    break;
                                }
                            }
                        }
                    }
                    if !out.terminal && diffs.iter().any(|d| d.empty_only) {
                        if last {
                            out.tolerated.push("empty-record-existence-differs-from-documented-policy(no-observable-effect)");
                        }
                        adopt_empty_deviations(&mut model, &diffs, &bind);
                    }
                }
                // ---- C12: the id revealed by the cookie must not have appeared in any Debug output
                if opts.leak_check && last {
                    let mut ids: Vec<(String, &'static str)> = Vec::new();
                    for b in &bind.list {
                        let which = if b.0 == r.id_new {
                            "current-id"
                        } else if Some(b.0) == r.came_with {
                            "old-id"
                        } else {
                            "earlier-id"
                        };
                        ids.push((b.1.clone(), which));
                    }
                    for id in lock(&log).ids.iter() {
                        let s = id_string(id);
                        if !ids.iter().any(|x| x.0 == s) {
                            ids.push((s, "store-id"));
                        }
                    }
                    'outer: for d in &snaps {
                        for (id, which) in &ids {
                            if leaks_id(d, id) {
                                out.violations.push(Viol {
                                    key: format!("debug-leak:{which}"),
                                    what: format!("Debug output of the session contains the {which} {id}: {}", truncate(d, 300)),
                                });
                                break 'outer;
                            }
                        }
                        if let Some(u) = find_uuid_like(d) {
                            out.violations.push(Viol {
                                key: "debug-leak:uuid-shaped-token".into(),
                                what: format!("Debug output of the session contains a UUID-shaped token {u}: {}", truncate(d, 300)),
                            });
                            break;
                        }
                    }
                }
                model.req = None;
                last_dv = None;
                last_client_view = Default::default();
            }
        }
        // C12: ids known so far must not be in the Debug output of any visited state
        if opts.leak_check && last && !matches!(ev, Event::Finalize) {
            if let Some(d) = snaps.last() {
                let mut ids: Vec<String> = bind.list.iter().map(|b| b.1.clone()).collect();
                for id in lock(&log).ids.iter() {
                    ids.push(id_string(id));
                }
                if let Some(id) = ids.iter().find(|id| leaks_id(d, id)) {
                    out.violations.push(Viol {
                        key: "debug-leak:known-id".into(),
                        what: format!("Debug output of the session contains the session id {id}: {}", truncate(d, 300)),
                    });
                } else if let Some(u) = find_uuid_like(d) {
                    out.violations.push(Viol {
                        key: "debug-leak:uuid-shaped-token".into(),
                        what: format!("Debug output of the session contains a UUID-shaped token {u}: {}", truncate(d, 300)),
                    });
                }
            }
        }
    }

    // ---- canonical observable state (see the soundness argument in main.rs)
    out.info = NodeInfo {
        server_kind: last_dv.as_ref().map(|d| d.server_kind.clone()).unwrap_or_default(),
        unmarked: model.req.as_ref().map(|r| r.unmarked.iter().copied().collect()).unwrap_or_default(),
        open: session.is_some(),
        has_current: jar.current.is_some(),
        has_stale: jar.stale.is_some(),
        req_idx,
        ops_used,
    };
    if !out.terminal {
        let mut order: Vec<Mid> = Vec::new();
        let push = |m: Option<Mid>, order: &mut Vec<Mid>| {
            if let Some(m) = m
                && !order.contains(&m)
            {
                order.push(m);
            }
        };
        push(jar.current.as_ref().map(|c| c.mid), &mut order);
        push(jar.stale.as_ref().map(|c| c.mid), &mut order);
        push(model.req.as_ref().and_then(|r| r.came_with), &mut order);
        let id_new = model.req.as_ref().map(|r| r.id_new);
        let name = |m: Mid| -> String {
            if let Some(p) = order.iter().position(|x| *x == m) {
                format!("i{p}")
            } else if Some(m) == id_new {
                "new".into()
            } else {
                "u".into()
            }
        };
        let rs = snapshot_real(&mem, &log, &bind).await?;
        let render = |p: &Perm| -> String {
            let mut real_part: Vec<String> = Vec::new();
            for (mid, rec) in &rs.bound {
                if let Some(rec) = rec {
                    real_part.push(format!("{}:{}", name(*mid), map_str(&pmap(rec, p))));
                }
            }
            for rec in &rs.unbound {
                real_part.push(format!("x:{}", map_str(&pmap(rec, p))));
            }
            real_part.sort();
            let mut model_part: Vec<String> = model.store.iter().map(|(m, v)| format!("{}:{}", name(*m), map_str(&pmap(v, p)))).collect();
            model_part.sort();
            let jar_part = format!(
                "cur={} stale={}",
                jar.current.as_ref().map(|c| format!("{}{}", name(c.mid), map_str(&pmap(&c.client, p)))).unwrap_or("-".into()),
                jar.stale.as_ref().map(|c| format!("{}{}", name(c.mid), map_str(&pmap(&c.client, p)))).unwrap_or("-".into())
            );
            let req_part = match &model.req {
                None => "closed".to_string(),
                Some(r) => format!(
                    "open came={} idnew={} at={} idk={} real[{}] view[{:?} {} {}] model[client{} dirty={} server={} inv={} synced={} css={} unmarked={:?}]",
                    r.came_with.map(&name).unwrap_or("-".into()),
                    name(r.id_new),
                    r.record_at.map(&name).unwrap_or("-".into()),
                    idk(&model),
                    last_dv.as_ref().map(|d| d.render(p)).unwrap_or_default(),
                    pview(&last_client_view.0, p),
                    last_client_view.1,
                    last_client_view.2,
                    map_str(&pmap(&r.client, p)),
                    r.client_dirty,
                    match &r.server {
                        MServer::Present(m) => format!("present{}", map_str(&pmap(m, p))),
                        other => mserver_str(other),
                    },
                    r.invalidated,
                    r.synced,
                    r.cycled_since_sync,
                    r.unmarked
                ),
            };
            format!("store[{}] mstore[{}] jar[{}] {}", real_part.join(";"), model_part.join(";"), jar_part, req_part)
        };
        // Data symmetry: keys {a,b} and values {1,2} are opaque to the session code (hashed and
        // compared for equality only), so a state and its image under a permutation of keys and/or
        // values have isomorphic futures; the canonical key is the least of the four renderings.
        out.state_key = if opts.symmetry {
            PERMS.iter().map(&render).min().unwrap()
        } else {
            render(&IDENTITY)
        };
    }
    Ok(out)
}

fn truncate(s: &str, n: usize) -> String {
    if s.len() <= n { s.to_string() } else { format!("{}…", &s[..n]) }
}
