//! The boring reference model.
//!
//! A session is `(id, client map, server map)`; the store is `id -> map`; a cookie is
//! `(id, client map)`. There is no dirty marker and no (id kind x state kind) matrix: every
//! operation acts on the maps directly and `persist` writes what the maps say. The only
//! implementation-shaped pieces are the documented ones: lazy loading (needed because
//! `MissingServerState::Reject` invalidates *when the missing record is noticed*), the
//! "marked for deletion" state after `delete()`/`invalidate()` in which server mutations are
//! documented no-ops, and the record-creation policy (`ServerStateCreation`).
use crate::types::{Cfg, Map, Op};
use std::collections::{BTreeMap, BTreeSet};

/// Model-level session id. Bound 1:1 to real (random) ids when a cookie reveals them.
pub type Mid = u32;

#[derive(Clone, PartialEq, Eq, Debug)]
pub enum MServer {
    NotLoaded,
    /// Known to have no record.
    Absent,
    Present(Map),
    /// `delete()` or `invalidate()` was called (or the record was missing under `Reject`).
    Deleted,
}

#[derive(Clone, Debug)]
pub struct MReq {
    pub came_with: Option<Mid>,
    pub id_new: Mid,
    /// Where this session's record lives in the store right now (if it has one).
    pub record_at: Option<Mid>,
    pub client: Map,
    /// An effective client-side mutation happened in this request (creation policy input).
    pub client_dirty: bool,
    pub server: MServer,
    pub invalidated: bool,
    /// `cycle_id()` was called on a session that came with a cookie.
    pub cycled: bool,
    /// An explicit `sync()` already ran in this request.
    pub synced: bool,
    /// `cycle_id()` ran after the last explicit `sync()` (or with none so far): the id the store
    /// was last told about is not the current one. Dedup-key material only: an implementation may
    /// keep hidden "which id does the store know" state that the redacted Debug output cannot show.
    pub cycled_since_sync: bool,
    /// Maintained by the driver: server mutators that changed the map while the real object
    /// kept reporting its state as `Unchanged` (feeds abstract violation keys only).
    pub unmarked: BTreeSet<&'static str>,
}

#[derive(Clone, Debug, Default)]
pub struct Model {
    pub store: BTreeMap<Mid, Map>,
    pub next_mid: Mid,
    pub req: Option<MReq>,
}

#[derive(Clone, Copy, PartialEq, Eq, Debug)]
pub enum MRet {
    Val(Option<u8>),
    Unit,
}

#[derive(Clone, Copy, PartialEq, Eq, Debug)]
pub enum PersistExpect {
    Ok,
    /// `cycle_id()` on a session whose record was never loaded and does not exist: upstream's own
    /// test `id_cycling_fails_if_the_old_state_record_is_gone_and_it_had_not_been_loaded_previously`
    /// documents a sync error here, so either outcome is accepted.
    MayFailUnknownId,
}

#[derive(Clone, PartialEq, Eq, Debug)]
pub enum MCookie {
    None,
    Removal,
    Set { mid: Mid, client: Map },
}

/// What a fresh request that presents `(mid, client)` and runs
/// `client.get(a,b); get(a,b); client.get(a,b)` must observe.
#[derive(Clone, PartialEq, Eq, Debug)]
pub struct ProbeObs {
    pub client_before_load: [Option<u8>; 2],
    pub server: [Option<u8>; 2],
    pub client_after_load: [Option<u8>; 2],
}

impl Model {
    pub fn fresh_mid(&mut self) -> Mid {
        let m = self.next_mid;
        self.next_mid += 1;
        m
    }

    pub fn begin(&mut self, cookie: Option<(Mid, Map)>) {
        let req = match cookie {
            Some((mid, client)) => MReq {
                came_with: Some(mid),
                id_new: mid,
                record_at: Some(mid),
                client,
                client_dirty: false,
                server: MServer::NotLoaded,
                invalidated: false,
                cycled: false,
                synced: false,
                    cycled_since_sync: false,
                unmarked: BTreeSet::new(),
            },
            None => {
                let mid = self.fresh_mid();
                MReq {
                    came_with: None,
                    id_new: mid,
                    record_at: None,
                    client: Map::new(),
                    client_dirty: false,
                    server: MServer::Absent,
                    invalidated: false,
                    cycled: false,
                    synced: false,
                    cycled_since_sync: false,
                    unmarked: BTreeSet::new(),
                }
            }
        };
        self.req = Some(req);
    }

    fn load(&mut self, cfg: &Cfg) {
        let store = &self.store;
        let r = self.req.as_mut().expect("open request");
        if r.server != MServer::NotLoaded {
            return;
        }
        match r.record_at.and_then(|m| store.get(&m)) {
            Some(m) => r.server = MServer::Present(m.clone()),
            None => {
                if cfg.reject {
                    r.server = MServer::Deleted;
                    r.invalidated = true;
                } else {
                    r.server = MServer::Absent;
                }
            }
        }
    }

    /// Apply one operation; returns the value the real call must return.
    /// (`Sync` is handled by the caller through `persist`.)
    pub fn apply(&mut self, op: Op, cfg: &Cfg) -> MRet {
        match op {
            Op::SInsert(k, v) => {
                self.load(cfg);
                let r = self.req.as_mut().unwrap();
                match &mut r.server {
                    MServer::Deleted => MRet::Val(None),
                    MServer::Absent => {
                        let mut m = Map::new();
                        m.insert(k, v);
                        r.server = MServer::Present(m);
                        MRet::Val(None)
                    }
                    MServer::Present(m) => MRet::Val(m.insert(k, v)),
                    MServer::NotLoaded => unreachable!(),
                }
            }
            Op::SRemove(k) => {
                self.load(cfg);
                match &mut self.req.as_mut().unwrap().server {
                    MServer::Present(m) => MRet::Val(m.remove(&k)),
                    _ => MRet::Val(None),
                }
            }
            Op::SClear => {
                self.load(cfg);
                if let MServer::Present(m) = &mut self.req.as_mut().unwrap().server {
                    m.clear();
                }
                MRet::Unit
            }
            Op::SGet(k) => {
                self.load(cfg);
                match &self.req.as_ref().unwrap().server {
                    MServer::Present(m) => MRet::Val(m.get(&k).copied()),
                    _ => MRet::Val(None),
                }
            }
            Op::SDelete => {
                self.req.as_mut().unwrap().server = MServer::Deleted;
                MRet::Unit
            }
            Op::ForceLoad => {
                self.load(cfg);
                MRet::Unit
            }
            Op::Sync => MRet::Unit,
            Op::CycleId => {
                let mid = self.fresh_mid();
                let r = self.req.as_mut().unwrap();
                r.id_new = mid;
                r.cycled_since_sync = true;
                if r.came_with.is_some() {
                    r.cycled = true;
                }
                MRet::Unit
            }
            Op::Invalidate => {
                let r = self.req.as_mut().unwrap();
                r.invalidated = true;
                r.server = MServer::Deleted;
                MRet::Unit
            }
            Op::CInsert(k, v) => {
                let r = self.req.as_mut().unwrap();
                if r.invalidated {
                    return MRet::Val(None);
                }
                r.client_dirty = true;
                MRet::Val(r.client.insert(k, v))
            }
            Op::CRemove(k) => {
                let r = self.req.as_mut().unwrap();
                if r.invalidated {
                    return MRet::Val(None);
                }
                let old = r.client.remove(&k);
                if old.is_some() {
                    r.client_dirty = true;
                }
                MRet::Val(old)
            }
            Op::CClear => {
                let r = self.req.as_mut().unwrap();
                if !r.invalidated && !r.client.is_empty() {
                    r.client.clear();
                    r.client_dirty = true;
                }
                MRet::Unit
            }
            Op::CGet(k) => {
                let r = self.req.as_ref().unwrap();
                if r.invalidated { MRet::Val(None) } else { MRet::Val(r.client.get(&k).copied()) }
            }
        }
    }

    /// Side-effect-free client observations.
    pub fn client_view(&self) -> ([Option<u8>; 2], bool, bool) {
        let r = self.req.as_ref().unwrap();
        if r.invalidated {
            ([None, None], true, true)
        } else {
            ([r.client.get(&0).copied(), r.client.get(&1).copied()], r.client.is_empty(), false)
        }
    }

    /// What `sync()` (explicit, or the one inside `finalize()`) must leave in the store.
    pub fn persist(&mut self, cfg: &Cfg) -> PersistExpect {
        let store = &mut self.store;
        let r = self.req.as_mut().expect("open request");
        let mut expect = PersistExpect::Ok;
        match r.server.clone() {
            MServer::Deleted => {
                if let Some(at) = r.record_at {
                    store.remove(&at);
                }
                store.remove(&r.id_new);
                r.record_at = None;
                if !r.invalidated {
                    r.server = MServer::Absent;
                }
            }
            MServer::Present(m) => {
                if let Some(at) = r.record_at
                    && at != r.id_new
                {
                    store.remove(&at);
                }
                store.insert(r.id_new, m);
                r.record_at = Some(r.id_new);
            }
            MServer::Absent => {
                // Documented policy: NeverSkip => "always create a server-side record if a
                // client-side session state is present"; SkipIfEmpty => never for an empty state.
                let has_client_side = r.came_with.is_some() || r.client_dirty;
                if cfg.never_skip && has_client_side {
                    store.insert(r.id_new, Map::new());
                    r.record_at = Some(r.id_new);
                    r.server = MServer::Present(Map::new());
                }
            }
            MServer::NotLoaded => {
                if let Some(at) = r.record_at
                    && at != r.id_new
                {
                    match store.remove(&at) {
                        Some(m) => {
                            store.insert(r.id_new, m);
                            r.record_at = Some(r.id_new);
                        }
                        None => expect = PersistExpect::MayFailUnknownId,
                    }
                }
            }
        }
        expect
    }

    /// The cookie `finalize()` must produce (after `persist`). `tolerant` = the session has
    /// nothing to carry (new, empty client state, empty server state), so both "no cookie" and
    /// "a cookie for an empty session" are acceptable.
    pub fn expected_cookie(&self) -> (MCookie, bool) {
        let r = self.req.as_ref().unwrap();
        if r.invalidated {
            return (if r.came_with.is_some() { MCookie::Removal } else { MCookie::None }, false);
        }
        let server_empty = match &r.server {
            MServer::Present(m) => m.is_empty(),
            _ => true,
        };
        let has_record = self.store.contains_key(&r.id_new);
        let nothing_to_carry = r.came_with.is_none() && r.client.is_empty() && server_empty;
        if r.came_with.is_none() && r.client.is_empty() && !has_record {
            (MCookie::None, nothing_to_carry)
        } else {
            (MCookie::Set { mid: r.id_new, client: r.client.clone() }, nothing_to_carry)
        }
    }

    pub fn expect_probe(&self, cfg: &Cfg, mid: Mid, client: &Map) -> ProbeObs {
        let c = [client.get(&0).copied(), client.get(&1).copied()];
        match self.store.get(&mid) {
            Some(m) => ProbeObs {
                client_before_load: c,
                server: [m.get(&0).copied(), m.get(&1).copied()],
                client_after_load: c,
            },
            None => ProbeObs {
                client_before_load: c,
                server: [None, None],
                client_after_load: if cfg.reject { [None, None] } else { c },
            },
        }
    }
}
