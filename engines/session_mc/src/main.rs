//! session_mc — explicit-state search on the real `pavex_session` implementation (C11, C12).
//!
//! A *state* is an event history. It is rebuilt by replaying the history on fresh real objects
//! (`InMemorySessionStore`, `SessionStore`, `Session`, cookie `Processor`); the successor relation
//! is "append one event". BFS with deduplication on a canonical observable state.
//!
//! # Why merging two histories with the same canonical state is sound
//!
//! The future behaviour of the real objects depends on (1) the store contents, (2) the cookies the
//! client can present, (3) the fields of the open `Session` (id kind, server-state cell incl. its
//! dirty marker, client-state cell incl. its dirty marker, invalidation flag) and (4) the
//! configuration (fixed per search). The key contains:
//!   * the contents of every store record, read from the real store, with ids renamed by their role
//!     (current cookie, stale cookie, id the request came with, not-yet-disclosed id, unreferenced) —
//!     session ids are opaque random UUIDs that the code only ever compares for equality, so any
//!     bijective renaming preserves behaviour; records under ids that no cookie refers to can only
//!     matter through a UUID collision, they are kept in the key as a multiset of contents;
//!   * both cookies of the jar (renamed id + client map);
//!   * for the open request: the server/client cells and the invalidation flag *as printed by the
//!     real object's Debug impl* (variant names = dirty markers, maps in canonical order; the TTL is
//!     dropped, see assumption below), the id kind (new / existing / renamed, a function of the
//!     history), the side-effect-free client observations, and the complete reference-model state
//!     (so everything the oracles depend on is in the key as well);
//!   * the budget (request index, operations used in this request) — so equal keys have equal
//!     remaining exploration depth. Self-loops (an operation that leaves the key unchanged, e.g. a
//!     `get` on a loaded state) are executed and checked but not enqueued: their futures are a
//!     subset of the parent's.
//! If the Debug output cannot be parsed the whole (UUID-scrubbed) string goes into the key, which
//! only makes it finer. What is *not* in the key: record deadlines. Within a run (seconds to minutes,
//! TTL = 2 h) no record expires and `remaining_ttl < 0.8 * ttl` is never true, so no
//! deadline-dependent branch can flip; this is stated as an assumption in the evidence.
//!
//! Order independence of the counts is *checked*: the search runs twice, the second time with the
//! successor order reversed; states, transitions, the outcome histogram and the violation keys must
//! be identical (a too-coarse key would make them depend on which history represents a state).
mod cfgsrc;
mod model;
mod real;
mod replay;
mod types;

use replay::{Ctx, FinalMode, MwObs, NodeInfo, Outcome, RawFinal, ReplayOpts, Viol, replay};
use serde_json::{Value, json};
use std::collections::{BTreeMap, HashSet, VecDeque};
use std::panic::AssertUnwindSafe;
use std::sync::Mutex;
use std::time::{Duration, Instant};
use types::*;
use verif_common::{machinery_error, Tier};

static SYMMETRY: std::sync::atomic::AtomicBool = std::sync::atomic::AtomicBool::new(true);

thread_local! {
    static RT: tokio::runtime::Runtime = tokio::runtime::Builder::new_current_thread().build().expect("tokio runtime");
}

fn run(ctx: &Ctx, cfg: &Cfg, hist: &[Event], opts: &ReplayOpts<'_>) -> Result<Outcome, String> {
    let r = std::panic::catch_unwind(AssertUnwindSafe(|| RT.with(|rt| rt.block_on(replay(ctx, cfg, hist, opts)))));
    match r {
        Ok(r) => r,
        Err(p) => Err(format!("panic escaped the replay: {}", real::panic_message(p))),
    }
}

fn h128(s: &str) -> u128 {
    use std::hash::Hasher;
    // two independent 64-bit SipHash-2-4 passes (fixed keys): a 128-bit fingerprint
    #[allow(deprecated)]
    let mut a = std::hash::SipHasher::new_with_keys(0x736d_635f_6b65_7931, 0x0123_4567_89ab_cdef);
    #[allow(deprecated)]
    let mut b = std::hash::SipHasher::new_with_keys(0xfeed_face_cafe_beef, 0x7365_7373_696f_6e32);
    a.write(s.as_bytes());
    b.write(s.as_bytes());
    ((a.finish() as u128) << 64) | b.finish() as u128
}

fn with_budget(nb: u128, info: &NodeInfo) -> u128 {
    nb ^ ((info.req_idx as u128) << 120) ^ ((info.ops_used as u128) << 112) ^ 0x5a5a
}

#[derive(Clone, Copy, PartialEq, Eq, Debug)]
enum Mode {
    C11,
    C12,
}

struct Node {
    hist: Vec<Event>,
    info: NodeInfo,
    nb: u128,
}

#[derive(Default, Clone)]
struct Found {
    viol: Option<Viol>,
    case: Value,
    len: usize,
    count: u64,
    configs: u64,
}

#[derive(Default, Clone)]
struct Stats {
    states: u64,
    transitions: u64,
    self_loops: u64,
    violating_transitions: u64,
    terminal_transitions: u64,
    finalize_points: u64,
    client_get_in_place: u64,
    /// configurations whose search completed the box
    configs_done: u64,
    labels: BTreeMap<String, u64>,
    tolerated: BTreeMap<String, u64>,
    found: BTreeMap<String, Found>,
    capped: bool,
    /// all histories shorter than this were expanded
    completed_len: usize,
    max_len_seen: usize,
    // C12
    mw_calls: u64,
    mw_hist: BTreeMap<String, u64>,
    debug_checks: u64,
    samples: Vec<Value>,
}

impl Stats {
    fn merge(&mut self, o: &Stats) {
        self.states += o.states;
        self.transitions += o.transitions;
        self.self_loops += o.self_loops;
        self.violating_transitions += o.violating_transitions;
        self.terminal_transitions += o.terminal_transitions;
        self.finalize_points += o.finalize_points;
        self.client_get_in_place += o.client_get_in_place;
        self.configs_done += o.configs_done;
        self.mw_calls += o.mw_calls;
        self.debug_checks += o.debug_checks;
        for (k, v) in &o.labels {
            *self.labels.entry(k.clone()).or_default() += v;
        }
        for (k, v) in &o.tolerated {
            *self.tolerated.entry(k.clone()).or_default() += v;
        }
        for (k, v) in &o.mw_hist {
            *self.mw_hist.entry(k.clone()).or_default() += v;
        }
        for (k, f) in &o.found {
            let e = self.found.entry(k.clone()).or_default();
            e.count += f.count;
            e.configs += 1;
            let better = e.viol.is_none()
                || f.len < e.len
                || (f.len == e.len && f.case.to_string() < e.case.to_string());
            if better {
                e.viol = f.viol.clone();
                e.case = f.case.clone();
                e.len = f.len;
            }
        }
        self.capped |= o.capped;
        self.max_len_seen = self.max_len_seen.max(o.max_len_seen);
        if self.samples.len() < 6 {
            self.samples.extend(o.samples.iter().take(1).cloned());
        }
    }

    fn fingerprint(&self) -> String {
        let keys: Vec<&String> = self.found.keys().collect();
        format!(
            "states={} transitions={} self_loops={} violating={} labels={:x} keys={:?} mw={} mwh={:x}",
            self.states,
            self.transitions,
            self.self_loops,
            self.violating_transitions,
            h128(&format!("{:?}", self.labels)),
            keys,
            self.mw_calls,
            h128(&format!("{:?}", self.mw_hist)),
        )
    }
}

fn case_json(mode: Mode, cfg: &Cfg, hist: &[Event]) -> Value {
    json!({ "property": if mode == Mode::C11 { "C11" } else { "C12" }, "config": cfg.to_json(), "history": history_json(hist) })
}

fn children(info: &NodeInfo, bounds: (usize, usize), rev: bool) -> Vec<Event> {
    let mut v = Vec::new();
    if info.open {
        if info.ops_used < bounds.1 {
            // `client.get(k)` is evaluated in place: the side-effect-free client view (get(a), get(b),
            // is_empty, is_invalidated) of every state is compared with the model when the state is
            // produced, so a separate replay for these two self-loops would repeat the same calls.
            v.extend(Op::all().into_iter().filter(|o| !matches!(o, Op::CGet(_))).map(Event::Op));
        }
        v.push(Event::Finalize);
    } else if info.req_idx < bounds.0 {
        if info.has_current {
            v.push(Event::Begin(Present::Current));
        }
        if info.has_stale {
            v.push(Event::Begin(Present::Stale));
        }
        v.push(Event::Begin(Present::NoCookie));
    }
    if rev {
        v.reverse();
    }
    v
}

struct Processors {
    map: BTreeMap<(Crypto, &'static str), pavex::cookie::Processor>,
}

impl Processors {
    fn new(ctx: &Ctx) -> Processors {
        let mut map = BTreeMap::new();
        for c in Crypto::all() {
            for n in COOKIE_NAMES {
                map.insert((c, n), real::processor(c, n, &ctx.keys));
            }
        }
        Processors { map }
    }
}

fn crypto_class(will_e: bool, will_s: bool) -> &'static str {
    if will_e {
        "encrypts"
    } else if will_s {
        "signs"
    } else {
        "unprotected"
    }
}

/// C12 oracle for one (cookie configuration, crypto configuration) at one finalize point.
/// Returns (histogram label, violation).
fn check_middleware(
    cfg: &Cfg,
    cc: &CookieCfg,
    crypto: Crypto,
    p: &pavex::cookie::Processor,
    twin: &RawFinal,
    mw: &MwObs,
    ttl_secs: u64,
) -> (String, Option<Viol>) {
    use real::{RawCookie, classify_cookie, name_value_of};
    let will_e = p.will_encrypt(cc.name);
    let will_s = p.will_sign(cc.name);
    let built = match crypto {
        Crypto::NoRules | Crypto::OtherNameOnly => (false, false),
        Crypto::SignOnly | Crypto::EncryptThenSign => (false, true),
        Crypto::EncryptOnly | Crypto::SignThenEncrypt => (true, false),
    };
    if (will_e, will_s) != built {
        machinery_error(&format!("processor for {} reports will_encrypt={will_e} will_sign={will_s}, built as {built:?}", crypto.name()));
    }
    let class = crypto_class(will_e, will_s);
    let v = |key: String, what: String| Some(Viol { key, what });
    let session_cookies: Vec<_> = mw.attached.iter().filter(|c| c.name() == cc.name).collect();
    let (kind, client_nonempty) = match twin {
        RawFinal::Ok(c) => match classify_cookie(c.as_ref()) {
            RawCookie::None => ("none", false),
            RawCookie::Removal => ("removal", false),
            RawCookie::Set { client, .. } => ("set", !client.is_empty()),
            RawCookie::Garbled(_) => ("garbled", true),
        },
        RawFinal::Err(_) => ("finalize-error", false),
        RawFinal::Panic(_) => ("finalize-panic", false),
    };
    let state = format!("cookie={kind}:client-{}:processor-{class}", if client_nonempty { "nonempty" } else { "empty" });
    // what the property demands
    let expected: &str = match kind {
        "finalize-error" => "err:SyncErr-or-other",
        "finalize-panic" => "panic",
        "none" => "ok-without-cookie",
        _ => {
            if client_nonempty && !will_e {
                "err:EncryptionRequired"
            } else if !(will_e || will_s) {
                "err:CryptoRequired"
            } else {
                "ok-with-cookie"
            }
        }
    };
    let label = format!("{state}=>{expected}");
    let observed = format!("{} with {} session cookie(s) attached", mw.result, session_cookies.len());
    match expected {
        "panic" | "err:SyncErr-or-other" => {
            if !session_cookies.is_empty() {
                return (label, v(format!("mw:cookie-attached-although-finalize-failed:{state}"), format!("finalize_session: {observed}")));
            }
            if mw.result == "ok" {
                return (label, v(format!("mw:ok-although-finalize-failed:{state}"), format!("finalize_session: {observed}")));
            }
        }
        "ok-without-cookie" => {
            if mw.result != "ok" || !mw.attached.is_empty() {
                return (label, v(format!("mw:expected-ok-without-cookie:{state}"), format!("finalize_session: {observed}")));
            }
        }
        "err:EncryptionRequired" | "err:CryptoRequired" => {
            if !session_cookies.is_empty() {
                return (
                    label,
                    v(
                        format!("mw:unprotected-cookie-attached:{state}"),
                        format!("finalize_session attached the session cookie although the processor {class} it: {observed}"),
                    ),
                );
            }
            if !mw.result.starts_with("err:") {
                return (label, v(format!("mw:no-error-and-no-cookie:{state}"), format!("expected {expected}; finalize_session: {observed}")));
            }
            if !mw.result.contains(&expected[4..]) {
                return (label, v(format!("mw:wrong-error:{state}"), format!("expected {expected}; finalize_session: {observed}")));
            }
        }
        _ => {
            // ok-with-cookie
            if mw.result != "ok" || session_cookies.len() != 1 || mw.attached.len() != 1 || mw.headers.len() != 1 {
                return (
                    label,
                    v(format!("mw:expected-ok-with-cookie:{state}"), format!("finalize_session: {observed}, {} header(s)", mw.headers.len())),
                );
            }
            let c = session_cookies[0];
            let got = classify_cookie(Some(c));
            let twin_c = match twin {
                RawFinal::Ok(Some(t)) => classify_cookie(Some(t)),
                _ => RawCookie::None,
            };
            let same_payload = match (&got, &twin_c) {
                (RawCookie::Removal, RawCookie::Removal) => true,
                (RawCookie::Set { client: a, .. }, RawCookie::Set { client: b, .. }) => a == b,
                _ => false,
            };
            if !same_payload {
                return (label, v(format!("mw:cookie-payload-differs:{state}"), format!("attached {got:?}, Session::finalize gives {twin_c:?}")));
            }
            let attr = |name: &str, ok: bool, detail: String| -> Option<Viol> {
                if ok { None } else { Some(Viol { key: format!("attr:{name}:cookie={kind}"), what: detail }) }
            };
            let h = &mw.headers[0];
            let mut checks: Vec<Option<Viol>> = vec![
                attr("name", c.name() == cc.name, format!("name {:?}, configured {:?}", c.name(), cc.name)),
                attr("domain", c.domain() == cc.domain, format!("domain {:?}, configured {:?}", c.domain(), cc.domain)),
                attr("path", c.path() == cc.path, format!("path {:?}, configured {:?}", c.path(), cc.path)),
                attr("wire-name", h.starts_with(&format!("{}=", cc.name)), format!("Set-Cookie header {h:?} does not start with the configured name")),
                attr(
                    "wire-domain",
                    h.contains("; Domain=") == cc.domain.is_some() && cc.domain.map(|d| h.contains(&format!("; Domain={d}"))).unwrap_or(true),
                    format!("Set-Cookie header {h:?}, configured domain {:?}", cc.domain),
                ),
                attr(
                    "wire-path",
                    h.contains("; Path=") == cc.path.is_some() && cc.path.map(|d| h.contains(&format!("; Path={d}"))).unwrap_or(true),
                    format!("Set-Cookie header {h:?}, configured path {:?}", cc.path),
                ),
            ];
            if kind == "set" {
                let ss = real::same_site_of(cc.same_site);
                let want_max_age = if cfg.persistent { Some(ttl_secs as i64) } else { None };
                checks.extend([
                    attr("same_site", c.same_site() == ss, format!("SameSite {:?}, configured {:?}", c.same_site(), ss)),
                    attr("secure", c.secure().unwrap_or(false) == cc.secure, format!("Secure {:?}, configured {}", c.secure(), cc.secure)),
                    attr("http_only", c.http_only().unwrap_or(false) == cc.http_only, format!("HttpOnly {:?}, configured {}", c.http_only(), cc.http_only)),
                    attr(
                        "max_age",
                        c.max_age().map(|d| d.as_secs()) == want_max_age,
                        format!("Max-Age {:?}, expected {:?} (kind {}, ttl {}s)", c.max_age(), want_max_age, if cfg.persistent { "persistent" } else { "session" }, ttl_secs),
                    ),
                    attr("expires", c.expires_datetime().is_none(), format!("Expires {:?} on a non-removal cookie", c.expires_datetime())),
                    attr("wire-http_only", h.contains("; HttpOnly") == cc.http_only, format!("Set-Cookie header {h:?}, configured http_only {}", cc.http_only)),
                    attr(
                        "wire-secure",
                        h.contains("; Secure") == (cc.secure || cc.same_site == 1),
                        format!("Set-Cookie header {h:?}, configured secure {} same_site code {}", cc.secure, cc.same_site),
                    ),
                    attr(
                        "wire-max_age",
                        h.contains("; Max-Age=") == cfg.persistent && (!cfg.persistent || h.contains(&format!("; Max-Age={}", ttl_secs))),
                        format!("Set-Cookie header {h:?}, persistent {}", cfg.persistent),
                    ),
                    attr(
                        "wire-same_site",
                        match ss {
                            None => !h.contains("; SameSite="),
                            Some(s) => h.contains(&format!("; SameSite={s}")),
                        },
                        format!("Set-Cookie header {h:?}, configured SameSite {ss:?}"),
                    ),
                ]);
                // the protection is real: plaintext id absent when encrypted, round trip works,
                // a tampered value is rejected
                if let RawCookie::Set { id, .. } = &got {
                    if will_e {
                        checks.push(attr("wire-plaintext-id", !h.to_ascii_lowercase().contains(id.as_str()), "encrypted Set-Cookie header contains the session id in clear".to_string()));
                    }
                    let nv = name_value_of(h);
                    let back = pavex::cookie::RequestCookies::parse_header(&nv, p).ok().and_then(|rc| rc.get(cc.name).map(|c| c.value().to_string()));
                    checks.push(attr("wire-roundtrip", back.as_deref() == Some(c.value()), format!("processed cookie does not decode back to its value: {back:?}")));
                    if let Some((n, val)) = nv.split_once('=')
                        && val.len() > 8
                    {
                        let mid = val.len() / 2;
                        let mut bytes = val.as_bytes().to_vec();
                        bytes[mid] = if bytes[mid] == b'A' { b'B' } else { b'A' };
                        let tampered = format!("{n}={}", String::from_utf8_lossy(&bytes));
                        let accepted = pavex::cookie::RequestCookies::parse_header(&tampered, p).ok().and_then(|rc| rc.get(cc.name).map(|c| c.value().to_string()));
                        checks.push(attr("wire-tamper", accepted.is_none(), format!("a tampered cookie value was accepted as {accepted:?}")));
                    }
                }
            } else {
                checks.push(attr("removal-shape", real::is_removal(c), "removal cookie is not an expired empty cookie".to_string()));
            }
            if let Some(bad) = checks.into_iter().flatten().next() {
                return (label, Some(bad));
            }
        }
    }
    (label, None)
}

fn product_at_finalize_point(ctx: &Ctx, procs: &Processors, cfg: &Cfg, hist: &[Event], stats: &mut Stats, cookie_cfgs: &[CookieCfg]) {
    let no_debug = NodeInfo::default();
    for cc in cookie_cfgs {
        let twin = run(
            ctx,
            cfg,
            hist,
            &ReplayOpts { cookie: cc, oracles: false, narrative: false, final_mode: FinalMode::Direct, leak_check: false, hint: Some(&no_debug), symmetry: SYMMETRY.load(std::sync::atomic::Ordering::Relaxed), config_override: None },
        )
        .unwrap_or_else(|e| machinery_error(&format!("C12 twin replay failed: {e} ({:?})", history_json(hist))));
        let Some(raw) = twin.raw_final else { machinery_error("C12 twin replay produced no finalize observation") };
        for crypto in Crypto::all() {
            let p = &procs.map[&(crypto, cc.name)];
            let out = run(
                ctx,
                cfg,
                hist,
                &ReplayOpts { cookie: cc, oracles: false, narrative: false, final_mode: FinalMode::Middleware(p), leak_check: false, hint: Some(&no_debug), symmetry: SYMMETRY.load(std::sync::atomic::Ordering::Relaxed), config_override: None },
            )
            .unwrap_or_else(|e| machinery_error(&format!("C12 middleware replay failed: {e}")));
            let Some(mw) = out.mw else { machinery_error("C12 middleware replay produced no observation") };
            stats.mw_calls += 1;
            let (label, viol) = check_middleware(cfg, cc, crypto, p, &raw, &mw, real::TTL_SECS);
            *stats.mw_hist.entry(label).or_default() += 1;
            if let Some(vl) = viol {
                let f = stats.found.entry(vl.key.clone()).or_default();
                f.count += 1;
                if f.viol.is_none() || hist.len() < f.len {
                    let mut case = case_json(Mode::C12, cfg, hist);
                    case["cookie_cfg"] = cc.to_json();
                    case["crypto"] = json!(crypto.name());
                    f.viol = Some(vl);
                    f.case = case;
                    f.len = hist.len();
                }
            }
        }
    }
}

#[allow(clippy::too_many_arguments)]
fn bfs(ctx: &Ctx, procs: &Processors, cfg: &Cfg, bounds: (usize, usize), mode: Mode, deadline: Instant, rev: bool, cookie_cfgs: &[CookieCfg]) -> Stats {
    let default_cookie = CookieCfg::default_cfg();
    let opts = ReplayOpts { cookie: &default_cookie, oracles: mode == Mode::C11, narrative: false, final_mode: FinalMode::Direct, leak_check: mode == Mode::C12, hint: None, symmetry: SYMMETRY.load(std::sync::atomic::Ordering::Relaxed), config_override: None };
    let mut stats = Stats::default();
    let mut visited: HashSet<u128> = HashSet::new();
    let mut finalized: HashSet<u128> = HashSet::new();
    let mut queue: VecDeque<Node> = VecDeque::new();
    let root = run(ctx, cfg, &[], &opts).unwrap_or_else(|e| machinery_error(&format!("root replay failed: {e}")));
    visited.insert(with_budget(h128(&root.state_key), &root.info));
    stats.states = 1;
    queue.push_back(Node { hist: vec![], info: root.info.clone(), nb: h128(&root.state_key) });
    let mut n_expanded = 0u64;
    while let Some(node) = queue.pop_front() {
        if n_expanded % 64 == 0 && Instant::now() > deadline {
            stats.capped = true;
            stats.completed_len = node.hist.len();
            return stats;
        }
        n_expanded += 1;
        stats.completed_len = node.hist.len();
        if node.info.open && node.info.ops_used < bounds.1 {
            stats.client_get_in_place += 2;
        }
        let opts = ReplayOpts { cookie: &default_cookie, oracles: mode == Mode::C11, narrative: false, final_mode: FinalMode::Direct, leak_check: mode == Mode::C12, hint: Some(&node.info), symmetry: SYMMETRY.load(std::sync::atomic::Ordering::Relaxed), config_override: None };
        for ev in children(&node.info, bounds, rev) {
            let mut h = node.hist.clone();
            h.push(ev);
            let out = run(ctx, cfg, &h, &opts).unwrap_or_else(|e| {
                machinery_error(&format!("replay failed: {e}; config {}; history {}", cfg.short(), history_json(&h)))
            });
            stats.transitions += 1;
            stats.max_len_seen = stats.max_len_seen.max(h.len());
            *stats.labels.entry(out.label.clone()).or_default() += 1;
            for t in &out.tolerated {
                let n = stats.tolerated.entry(t.to_string()).or_default();
                *n += 1;
                if *n <= 3 && std::env::var_os("SESSION_MC_TRACE_TOLERATED").is_some() {
                    eprintln!("TOLERATED {t} under {}: {}", cfg.short(), history_json(&h));
                }
            }
            if mode == Mode::C12 {
                stats.debug_checks += 1;
            }
            if stats.samples.is_empty() && h.len() >= 6 && out.violations.is_empty() {
                stats.samples.push(json!({"config": cfg.short(), "history": history_json(&h), "last_outcome": out.label, "canonical_state_modulo_key_value_renaming": out.state_key}));
            }
            if ev == Event::Finalize {
                stats.finalize_points += 1;
                if mode == Mode::C12 && finalized.insert(node.nb) {
                    product_at_finalize_point(ctx, procs, cfg, &h, &mut stats, cookie_cfgs);
                }
            }
            if !out.violations.is_empty() {
                stats.violating_transitions += 1;
                for vl in out.violations {
                    let f = stats.found.entry(vl.key.clone()).or_default();
                    f.count += 1;
                    if f.viol.is_none() || h.len() < f.len || (h.len() == f.len && history_json(&h).to_string() < f.case["history"].to_string()) {
                        f.viol = Some(vl);
                        f.case = case_json(mode, cfg, &h);
                        f.len = h.len();
                    }
                }
                continue;
            }
            if out.terminal {
                stats.terminal_transitions += 1;
                continue;
            }
            let nb = h128(&out.state_key);
            if nb == node.nb {
                stats.self_loops += 1;
                continue;
            }
            let key = with_budget(nb, &out.info);
            if visited.insert(key) {
                stats.states += 1;
                queue.push_back(Node { hist: h, info: out.info, nb });
            }
        }
    }
    stats.completed_len = bounds.0 * (bounds.1 + 2) + 1;
    stats.configs_done = 1;
    stats
}

fn run_all(ctx: &Ctx, procs: &Processors, bounds: (usize, usize), mode: Mode, deadline: Instant, rev: bool, seed: i64, cookie_cfgs: &[CookieCfg]) -> Stats {
    let mut cfgs = Cfg::all();
    verif_common::rotate_by_seed(&mut cfgs, seed);
    let queue = Mutex::new(cfgs);
    let results: Mutex<Vec<(Cfg, Stats)>> = Mutex::new(Vec::new());
    let threads = std::thread::available_parallelism().map(|n| n.get()).unwrap_or(4).min(32);
    std::thread::scope(|sc| {
        for _ in 0..threads {
            sc.spawn(|| {
                loop {
                    let Some(cfg) = queue.lock().unwrap().pop() else { break };
                    let st = bfs(ctx, procs, &cfg, bounds, mode, deadline, rev, cookie_cfgs);
                    results.lock().unwrap().push((cfg, st));
                }
            });
        }
    });
    let mut results = results.into_inner().unwrap();
    results.sort_by_key(|r| r.0);
    let mut total = Stats::default();
    for (_, st) in &results {
        total.merge(st);
    }
    total.completed_len = results.iter().map(|r| r.1.completed_len).min().unwrap_or(0);
    total
}

fn do_replay(ctx: &Ctx, procs: &Processors, mode: Mode, path: &std::path::Path) -> i32 {
    let case = verif_common::load_replay(path);
    if case.get("config_document").is_some() {
        println!("configuration-source case: {case}");
        let docs = cfgsrc::documented();
        let doc = &case["config_document"];
        if let Ok(exp) = cfgsrc::expected_fields(doc, &docs) {
            let fmt = if case["config_format"] == "yaml" { cfgsrc::Format::Yaml } else { cfgsrc::Format::Json };
            match cfgsrc::deserialize(doc, fmt) {
                Ok(c) => {
                    let got = cfgsrc::fields(&c);
                    for (path, (want, present)) in &exp {
                        println!("  {path}: observed {} expected {want} ({})", got[path], if *present { "given in the document" } else { "key absent: documented default" });
                    }
                }
                Err(e) => println!("  deserialisation failed: {e}"),
            }
        }
        let v = cfgsrc::recheck(ctx, procs, &case).unwrap_or_else(|e| machinery_error(&format!("replay: {e}")));
        if v.is_empty() {
            println!("no violation");
            return 0;
        }
        for x in &v {
            println!("STILL VIOLATES [{}]: {}", x.key, x.what);
        }
        return 1;
    }
    let cfg = case.get("config").and_then(Cfg::from_json).unwrap_or_else(|| machinery_error("replay: bad config"));
    let hist = case.get("history").and_then(history_from_json).unwrap_or_else(|| machinery_error("replay: bad history"));
    println!("replaying {} under {}", history_json(&hist), cfg.short());
    if let (Some(cc), Some(cr)) = (case.get("cookie_cfg").and_then(CookieCfg::from_json), case.get("crypto").and_then(|c| c.as_str()).and_then(Crypto::parse)) {
        let twin = run(ctx, &cfg, &hist, &ReplayOpts { cookie: &cc, oracles: false, narrative: false, final_mode: FinalMode::Direct, leak_check: false, hint: None, symmetry: SYMMETRY.load(std::sync::atomic::Ordering::Relaxed), config_override: None })
            .unwrap_or_else(|e| machinery_error(&e));
        let p = real::processor(cr, cc.name, &ctx.keys);
        let out = run(ctx, &cfg, &hist, &ReplayOpts { cookie: &cc, oracles: false, narrative: false, final_mode: FinalMode::Middleware(&p), leak_check: false, hint: None, symmetry: SYMMETRY.load(std::sync::atomic::Ordering::Relaxed), config_override: None })
            .unwrap_or_else(|e| machinery_error(&e));
        let mw = out.mw.unwrap_or_else(|| machinery_error("no middleware observation"));
        let raw = twin.raw_final.unwrap_or_else(|| machinery_error("no finalize observation"));
        let (label, viol) = check_middleware(&cfg, &cc, cr, &p, &raw, &mw, real::TTL_SECS);
        println!("cookie config {}, crypto {}", cc.to_json(), cr.name());
        println!("Session::finalize gives {:?}", real::classify_cookie(match &raw { RawFinal::Ok(c) => c.as_ref(), _ => None }));
        println!("finalize_session: {} ; headers {:?}", mw.result, mw.headers);
        println!("expectation class: {label}");
        return match viol {
            Some(v) => {
                println!("STILL VIOLATES [{}]: {}", v.key, v.what);
                1
            }
            None => {
                println!("no violation");
                0
            }
        };
    }
    let _ = procs;
    let dc = CookieCfg::default_cfg();
    let out = run(ctx, &cfg, &hist, &ReplayOpts { cookie: &dc, oracles: mode == Mode::C11, narrative: true, final_mode: FinalMode::Direct, leak_check: mode == Mode::C12, hint: None, symmetry: SYMMETRY.load(std::sync::atomic::Ordering::Relaxed), config_override: None })
        .unwrap_or_else(|e| machinery_error(&format!("replay: {e}")));
    for l in &out.narrative {
        println!("  {l}");
    }
    if out.violations.is_empty() {
        println!("no violation (last outcome: {})", out.label);
        0
    } else {
        for v in &out.violations {
            println!("STILL VIOLATES [{}]: {}", v.key, v.what);
        }
        1
    }
}

fn main() {
    let args = verif_common::Args::parse();
    let mode = match args.property.as_str() {
        "C11" => Mode::C11,
        "C12" => Mode::C12,
        other => machinery_error(&format!("session_mc serves C11 and C12, not {other:?}")),
    };
    std::panic::set_hook(Box::new(|_| {}));
    if args.extra("symmetry") == Some("off") {
        SYMMETRY.store(false, std::sync::atomic::Ordering::Relaxed);
    }
    let ctx = Ctx::new();
    let procs = Processors::new(&ctx);
    if let Some(p) = &args.replay {
        std::process::exit(do_replay(&ctx, &procs, mode, p));
    }
    let mut rep = verif_common::Reporter::from_args(&args);
    let started = Instant::now();
    let all_cookie_cfgs = CookieCfg::all();
    let num = |k: &str| args.extra(k).and_then(|v| v.parse::<usize>().ok());
    // bounds: (requests, operations per request)
    let boxes: Vec<(usize, usize)> = match (num("requests"), num("ops")) {
        (Some(r), Some(o)) => vec![(r, o)],
        _ => match (mode, args.tier) {
            // the first box is searched twice (order-independence check), the others once
            (Mode::C11, Tier::Quick) => vec![(2, 2), (2, 3)],
            (Mode::C11, Tier::Thorough) => vec![(2, 3), (3, 2), (2, 4), (3, 3), (3, 4)],
            (Mode::C12, Tier::Quick) => vec![(2, 1), (2, 2), (1, 2)],
            (Mode::C12, Tier::Thorough) => vec![(2, 1), (1, 3), (2, 2), (3, 2), (2, 3)],
        },
    };
    // C12 boxes that only run the search with the Debug-leak oracle (no middleware product)
    let leak_only: Vec<(usize, usize)> = match (mode, args.tier, num("requests")) {
        (Mode::C12, Tier::Quick, None) => vec![(2, 2)],
        (Mode::C12, Tier::Thorough, None) => vec![(3, 2)],
        _ => vec![],
    };
    let budget = Duration::from_secs(num("budget-s").map(|s| s as u64).unwrap_or(if args.tier == Tier::Quick { 50 } else { 17 * 60 }));
    let deadline = started + budget;

    // 0. C12: configuration-source dimension (documents x formats x finalize points)
    let cs = if mode == Mode::C12 { Some(cfgsrc::run_all(&ctx, &procs)) } else { None };
    if let Some(cs) = &cs {
        println!(
            "config-source: documents={} deserialisations={} finalize_runs={} violation_keys={} wall={:.1}s",
            cs.documents, cs.deserialisations, cs.finalize_runs, cs.found.len(), started.elapsed().as_secs_f64()
        );
    }
    // 1. determinism / order independence on the first box: natural order vs reversed order
    let first = boxes[0];
    let t0 = Instant::now();
    let a = run_all(&ctx, &procs, first, mode, deadline, false, args.seed, &all_cookie_cfgs);
    let t_first = t0.elapsed().as_secs_f64();
    let mut determinism = json!("skipped: first box hit the time cap");
    if !a.capped {
        // the second run only needs the search itself; the C12 product is deterministic per
        // finalize point and is included as well unless time is short
        let light: Vec<CookieCfg> = if mode == Mode::C12 && t_first * 2.2 > budget.as_secs_f64() { vec![CookieCfg::default_cfg()] } else { all_cookie_cfgs.clone() };
        let b = run_all(&ctx, &procs, first, mode, started + budget * 3, true, args.seed + 7, &light);
        let cmp = |s: &Stats| {
            if light.len() == all_cookie_cfgs.len() {
                s.fingerprint()
            } else {
                format!("states={} transitions={} labels={:x}", s.states, s.transitions, h128(&format!("{:?}", s.labels)))
            }
        };
        // The search stops expanding below a violating transition and gives up a configuration after enough violations, so
        // with violations present the counts depend on the order of successors: the cross-check is about the machinery on a
        // conforming subject. (Every violation is still confirmed by replaying its own history before it is reported.)
        let conforming = a.violating_transitions == 0 && b.violating_transitions == 0;
        if !conforming {
            determinism = json!({"runs": 2, "second_run": "reversed successor order, rotated configuration order", "identical": null,
                                 "note": "not compared: violating transitions were found; each is confirmed by replay"});
        } else if cmp(&a) != cmp(&b) {
            let mut shown = 0;
            for (k, v) in &a.labels {
                let w = b.labels.get(k).copied().unwrap_or(0);
                if *v != w && shown < 12 {
                    eprintln!("label count differs: {k}: {v} vs {w}");
                    shown += 1;
                }
            }
            for (k, w) in &b.labels {
                if !a.labels.contains_key(k) && shown < 16 {
                    eprintln!("label only in run 2: {k}: {w}");
                    shown += 1;
                }
            }
            machinery_error(&format!("nondeterministic search: run 1 [{}] vs run 2 (reversed successor order) [{}]", cmp(&a), cmp(&b)));
        }
        if conforming {
            determinism = json!({"runs": 2, "second_run": "reversed successor order, rotated configuration order", "identical": true, "compared": cmp(&a)});
        }
    }
    println!(
        "box {:?}: states={} transitions={} finalize_points={} violating_transitions={} mw_calls={} capped={} wall={:.1}s",
        first, a.states, a.transitions, a.finalize_points, a.violating_transitions, a.mw_calls, a.capped, t_first
    );
    // 2. larger boxes (thorough), one after the other while time remains
    let mut best = a.clone();
    let mut best_box = first;
    let (mut agg_mw_calls, mut agg_debug, mut agg_mw_hist) = (a.mw_calls, a.debug_checks, a.mw_hist.clone());
    let (mut best_search, mut best_search_box) = (a.clone(), first);
    let mut completed_boxes = if a.capped { vec![] } else { vec![json!({"requests": first.0, "ops_per_request": first.1, "states": a.states, "transitions": a.transitions, "wall_s": t_first})] };
    let mut partial: Option<Value> = None;
    let mut all_found = a.found.clone();
    if let Some(cs) = &cs {
        for (k, (v, case, n)) in &cs.found {
            all_found.insert(k.clone(), Found { viol: Some(v.clone()), case: case.clone(), len: 0, count: *n, configs: 0 });
        }
    }
    for bx in boxes.iter().skip(1) {
        if Instant::now() + Duration::from_secs(if args.tier == Tier::Quick { 6 } else { 20 }) > deadline {
            break;
        }
        let t = Instant::now();
        let product_cfgs: &[CookieCfg] = if leak_only.contains(bx) { &[] } else { &all_cookie_cfgs };
        let s = run_all(&ctx, &procs, *bx, mode, deadline, false, args.seed, product_cfgs);
        let w = t.elapsed().as_secs_f64();
        println!(
            "box {:?}: states={} transitions={} finalize_points={} violating_transitions={} mw_calls={} capped={} wall={:.1}s",
            bx, s.states, s.transitions, s.finalize_points, s.violating_transitions, s.mw_calls, s.capped, w
        );
        for (k, f) in &s.found {
            all_found.entry(k.clone()).or_insert_with(|| f.clone());
        }
        if s.capped {
            partial = Some(json!({"requests": bx.0, "ops_per_request": bx.1, "states_so_far": s.states, "transitions_so_far": s.transitions,
                "all_histories_shorter_than_this_many_events_expanded_in_every_configuration": s.completed_len,
                "configurations_fully_explored": s.configs_done, "wall_s": w}));
            if s.transitions > best.transitions {
                // keep the complete box as the headline, report the partial one separately
            }
            break;
        }
        completed_boxes.push(json!({"requests": bx.0, "ops_per_request": bx.1, "states": s.states, "transitions": s.transitions, "wall_s": w,
            "middleware_calls": s.mw_calls, "debug_outputs_checked": s.debug_checks}));
        agg_mw_calls += s.mw_calls;
        agg_debug += s.debug_checks;
        for (k, v) in &s.mw_hist {
            *agg_mw_hist.entry(k.clone()).or_default() += v;
        }
        if s.transitions > best_search.transitions {
            best_search = s.clone();
            best_search_box = *bx;
        }
        if s.transitions + s.mw_calls > best.transitions + best.mw_calls {
            best = s;
            best_box = *bx;
        }
    }

    // 3. report violations (re-executed once each; must reproduce with the same key)
    let dc = CookieCfg::default_cfg();
    for (key, f) in &all_found {
        let Some(v) = &f.viol else { continue };
        if f.case.get("config_document").is_some() {
            let again = cfgsrc::recheck(&ctx, &procs, &f.case).unwrap_or_else(|e| machinery_error(&format!("re-execution failed: {e}")));
            if !again.iter().any(|x| x.key == *key) {
                machinery_error(&format!("nondeterministic verdict: {key} did not reproduce on re-execution of {}", f.case));
            }
            let what = format!("{} | smallest witness document: {} | {} occurrence(s) over the enumerated documents/formats/finalize points", v.what, f.case["config_document"], f.count);
            rep.violation(key, &what, f.case.clone());
            continue;
        }
        let cfg = Cfg::from_json(&f.case["config"]).unwrap();
        let hist = history_from_json(&f.case["history"]).unwrap();
        let reproduced = if let (Some(cc), Some(cr)) = (f.case.get("cookie_cfg").and_then(CookieCfg::from_json), f.case.get("crypto").and_then(|c| c.as_str()).and_then(Crypto::parse)) {
            let twin = run(&ctx, &cfg, &hist, &ReplayOpts { cookie: &cc, oracles: false, narrative: false, final_mode: FinalMode::Direct, leak_check: false, hint: None, symmetry: SYMMETRY.load(std::sync::atomic::Ordering::Relaxed), config_override: None }).unwrap_or_else(|e| machinery_error(&e));
            let p = &procs.map[&(cr, cc.name)];
            let out = run(&ctx, &cfg, &hist, &ReplayOpts { cookie: &cc, oracles: false, narrative: false, final_mode: FinalMode::Middleware(p), leak_check: false, hint: None, symmetry: SYMMETRY.load(std::sync::atomic::Ordering::Relaxed), config_override: None }).unwrap_or_else(|e| machinery_error(&e));
            let (_, viol) = check_middleware(&cfg, &cc, cr, p, &twin.raw_final.unwrap(), &out.mw.unwrap(), real::TTL_SECS);
            viol.map(|x| x.key == *key).unwrap_or(false)
        } else {
            let out = run(&ctx, &cfg, &hist, &ReplayOpts { cookie: &dc, oracles: mode == Mode::C11, narrative: false, final_mode: FinalMode::Direct, leak_check: mode == Mode::C12, hint: None, symmetry: SYMMETRY.load(std::sync::atomic::Ordering::Relaxed), config_override: None })
                .unwrap_or_else(|e| machinery_error(&format!("re-execution failed: {e}")));
            out.violations.iter().any(|x| x.key == *key)
        };
        if !reproduced {
            machinery_error(&format!("nondeterministic verdict: {key} did not reproduce on re-execution of {}", f.case));
        }
        let what = format!(
            "{} | minimal history ({} events) under {}: {} | {} violating transition(s) in the box where it was first seen",
            v.what,
            hist.len(),
            cfg.short(),
            hist.iter().map(|e| e.to_string()).collect::<Vec<_>>().join(" ; "),
            f.count
        );
        rep.violation(key, &what, f.case.clone());
    }

    // 4. evidence
    if mode == Mode::C12 {
        // headline search counts come from the largest completed search; middleware counts are totals
        best = best_search.clone();
        best_box = best_search_box;
        best.mw_calls = agg_mw_calls;
        best.debug_checks = agg_debug;
        best.mw_hist = agg_mw_hist.clone();
    }
    let distinct_outcomes = best.labels.len();
    let top_labels: BTreeMap<&String, &u64> = best.labels.iter().collect();
    let alphabet = "events: begin[{current,stale,no} cookie] | 23 session operations (server insert(k,v)/remove(k)/get(k) for k in {a,b}, v in {1,2}; clear; delete; force_load; sync; cycle_id; invalidate; client insert/remove/get/clear) | finalize";
    let rule = match mode {
        Mode::C11 => format!(
            "{alphabet}. Bound: every history with <= {} requests x <= {} operations per request, for all 32 configurations (ServerStateCreation x MissingServerState x TtlExtensionTrigger x threshold{{None,0.8}} x cookie kind). BFS over histories replayed on fresh real objects, dedup on the canonical observable state (store, cookie jar, open-session cells as printed by Debug, model state, budget; least rendering under the 4 permutations of keys/values). client.get(k) is evaluated in place on every state (side-effect-free client view) instead of as a separate replay. Oracle per transition: (a) reference model predicts every return value and the side-effect-free client view; at finalize: Ok expected, cookie kind/id/client map, store contents vs model (content differences are violations, existence of *empty* records is adopted unless a probe shows an effect), and probe requests presenting the current and the stale cookie must observe exactly the model's client/server key-values ((b) carry-over, (c) invalidate, (d) cycle_id). A transition is non-trivial when its outcome label (operation, server-state kind before/after, return value / cookie kind / store calls) is distinct; distinct_nontrivial counts distinct labels.",
            best_box.0, best_box.1
        ),
        Mode::C12 => format!(
            "{alphabet}. Same search as C11 (largest completed: <= {} requests x <= {} ops; see completed_boxes for which bounds include the middleware product), 32 configurations. At every distinct finalize point the history is replayed for each of {} cookie configurations (name x domain x path x SameSite{{unset,None,Lax,Strict}} x secure x http_only; kind comes from the 32) x 6 crypto configurations (none, sign, encrypt, sign+encrypt, encrypt+sign, rules for other names) and the real finalize_session is called; a twin replay with Session::finalize gives the cookie kind and client-state emptiness. Oracle: cookie attached only if processor signs or encrypts, and encrypts when client state is non-empty; otherwise Err and no session cookie; attributes (struct and Set-Cookie header) equal the configuration, max-age = TTL iff persistent; encrypted header has no plaintext id, decodes back, tampered value rejected. In every visited state format!(\"{{:?}}\", session) contains no current/earlier session id (ids revealed later by the cookie are checked against all earlier Debug outputs of that request) and no UUID-shaped token. distinct_nontrivial counts distinct (cookie kind, client emptiness, processor class => expected outcome) classes hit plus distinct search outcome labels.",
            best_box.0, best_box.1, all_cookie_cfgs.len()
        ),
    };
    let evaluations = if mode == Mode::C11 { best.transitions } else { best.mw_calls + best.debug_checks };
    let distinct = if mode == Mode::C11 { distinct_outcomes } else { best.mw_hist.len() + distinct_outcomes };
    let mut samples = best.samples.clone();
    for f in all_found.values().take(3) {
        samples.push(json!({"violating_case": f.case, "key": f.viol.as_ref().map(|v| v.key.clone())}));
    }
    let coverage = json!({
        "states": best.states,
        "transitions": best.transitions,
        "traces_validated_against_impl": best.transitions + best.mw_calls * 1,
        "samples": samples,
        "evaluations": evaluations,
        "distinct_nontrivial": distinct,
        "rule": rule,
        "exhaustive": !best.capped && completed_boxes.iter().any(|b| b["requests"] == json!(best_box.0) && b["ops_per_request"] == json!(best_box.1)),
        "bound_completed": {"requests": best_box.0, "ops_per_request": best_box.1, "configurations": 32},
        "completed_boxes": completed_boxes,
        "partial_box_capped_by_time": partial,
        "self_loop_transitions": best.self_loops,
        "client_get_transitions_evaluated_in_place": best.client_get_in_place,
        "violating_transitions_pruned": best.violating_transitions,
        "terminal_tolerated_transitions": best.terminal_transitions,
        "finalize_points": best.finalize_points,
        "distinct_observable_outcomes": distinct_outcomes,
        "outcome_histogram": top_labels,
        "tolerated": best.tolerated,
        "middleware_calls": best.mw_calls,
        "middleware_outcome_histogram": best.mw_hist,
        "debug_outputs_checked": best.debug_checks,
        "config_source": cs.as_ref().map(|cs| json!({
            "rule": "every document {cookie:{..},state:{..}} where each documented key is absent / given a non-default value / (optional fields) null, tables also absent as a whole; deserialised with serde_json and with figment's YAML provider; every field must equal the documented default (absent key) or the given value; {} == {cookie:{}} == {state:{}} == default() == new(); 4 finalize points per document run through finalize_session with the deserialised configuration, cookie attributes checked against documented/given values",
            "documents": cs.documents,
            "deserialisations": cs.deserialisations,
            "field_checks": cs.field_checks,
            "finalize_runs": cs.finalize_runs,
            "outcome_histogram": cs.hist,
        })),
        "determinism_check": determinism,
        "violation_counts_first_box": all_found.iter().map(|(k, f)| (k.clone(), json!({"violating_transitions": f.count, "configurations": f.configs}))).collect::<BTreeMap<_, _>>(),
    });
    let code = rep.finish(
        "model_checking",
        coverage,
        &[
            "the in-memory store stands for the SessionStorageBackend contract (create fails on duplicates, update/update_ttl/delete/change_id fail on unknown ids)",
            "no record expires and remaining_ttl < 0.8*ttl never holds during a run (TTL 2h, run < 20 min): deadlines are not part of the dedup key",
            "session ids are only compared for equality (renaming by role is behaviour preserving); UUID collisions are ignored",
            "the client presents the cookie it holds, the one it held before, or none (older cookies are not replayed)",
            "state keys are compacted to 128-bit fingerprints (two SipHash-2-4 passes with fixed keys)",
            "data symmetry: keys {a,b} and values {1,2} are opaque to the session code, states are deduplicated modulo permutations of keys and of values (--symmetry off disables it); every history within the bound is covered up to that renaming",
            "one request at a time (no concurrent requests on one session; that is C13's subject)",
        ],
    );
    std::process::exit(code);
}
