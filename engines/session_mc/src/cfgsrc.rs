//! C12, configuration-source dimension.
//!
//! Pavex loads `SessionConfig` through serde (figment: YAML/JSON files + environment), so the
//! defaults that matter are the ones serde applies to *absent keys*, not only `Default::default()`.
//! This module enumerates every document
//!
//!     { "cookie": { <any choice per key> }, "state": { <any choice per key> } }
//!
//! where each documented key is absent, present with a non-default value, or (for optional
//! fields) present as `null`, plus the forms where a whole table is absent; deserialises
//! `SessionConfig` from it (serde_json, and figment's YAML provider) and checks
//!   * every field: absent key => documented default, present key => the given value;
//!   * the law `{}` == `{"cookie":{}}` == `{"state":{}}` == `SessionConfig::default()` == `new()`;
//!   * a set of finalize points run with the deserialised configuration through the real
//!     `finalize_session`: the cookie (struct + Set-Cookie header) must carry the documented
//!     default for absent keys and the given value for present keys.
//!
//! The reference is the table below, transcribed from the rustdoc of the fields of
//! `SessionCookieConfig` / `SessionStateConfig`; `Default::default()` is cross-checked against it.
use crate::replay::{Ctx, FinalMode, ReplayOpts, Viol};
use crate::types::*;
use pavex_session::SessionConfig;
use serde_json::{Map as JsonMap, Value, json};
use std::collections::BTreeMap;

/// (table, key, documented default as `{:?}` of the field, quote from the rustdoc,
///  [(document value, expected `{:?}` of the field)])
pub struct KeyDoc {
    pub table: &'static str,
    pub key: &'static str,
    pub default_dbg: &'static str,
    pub doc: &'static str,
    pub choices: Vec<(Value, &'static str)>,
}

pub fn documented() -> Vec<KeyDoc> {
    vec![
        KeyDoc { table: "cookie", key: "name", default_dbg: "\"id\"", doc: "By default, the name is set to `id`.", choices: vec![(json!("sess"), "\"sess\"")] },
        KeyDoc { table: "cookie", key: "domain", default_dbg: "None", doc: "By default, the attribute is not set.", choices: vec![(json!("example.com"), "Some(\"example.com\")"), (Value::Null, "None")] },
        KeyDoc { table: "cookie", key: "path", default_dbg: "Some(\"/\")", doc: "By default, the attribute is set to `/`.", choices: vec![(json!("/app"), "Some(\"/app\")"), (Value::Null, "None")] },
        KeyDoc { table: "cookie", key: "secure", default_dbg: "true", doc: "Default is `true`.", choices: vec![(json!(false), "false")] },
        KeyDoc { table: "cookie", key: "http_only", default_dbg: "true", doc: "Default is `true`.", choices: vec![(json!(false), "false")] },
        KeyDoc { table: "cookie", key: "same_site", default_dbg: "Some(Lax)", doc: "By default, the attribute is set to [`SameSite::Lax`].", choices: vec![(json!("Strict"), "Some(Strict)"), (Value::Null, "None")] },
        KeyDoc { table: "cookie", key: "kind", default_dbg: "Persistent", doc: "By default, it is set to [`SessionCookieKind::Persistent`].", choices: vec![(json!("session"), "Session")] },
        KeyDoc { table: "state", key: "ttl", default_dbg: "86400s", doc: "The default value is 24 hours.", choices: vec![(json!("PT1H"), "3600s")] },
        KeyDoc { table: "state", key: "extend_ttl", default_dbg: "OnStateLoadsAndChanges", doc: "OnStateLoadsAndChanges: This is the default.", choices: vec![(json!("on_state_changes"), "OnStateChanges")] },
        KeyDoc { table: "state", key: "ttl_extension_threshold", default_dbg: "Some(TtlExtensionThreshold(0.8))", doc: "By default, the threshold is set to 0.8", choices: vec![(json!(0.5), "Some(TtlExtensionThreshold(0.5))"), (Value::Null, "None")] },
        KeyDoc { table: "state", key: "server_state_creation", default_dbg: "NeverSkip", doc: "NeverSkip: This is the default policy.", choices: vec![(json!("skip_if_empty"), "SkipIfEmpty")] },
        KeyDoc { table: "state", key: "missing_server_state", default_dbg: "Reject", doc: "Reject is marked #[default].", choices: vec![(json!("allow"), "Allow")] },
    ]
}

/// Every public field of the configuration, rendered with `{:?}`.
pub fn fields(c: &SessionConfig) -> BTreeMap<String, String> {
    let mut m = BTreeMap::new();
    m.insert("cookie.name".into(), format!("{:?}", c.cookie.name));
    m.insert("cookie.domain".into(), format!("{:?}", c.cookie.domain));
    m.insert("cookie.path".into(), format!("{:?}", c.cookie.path));
    m.insert("cookie.secure".into(), format!("{:?}", c.cookie.secure));
    m.insert("cookie.http_only".into(), format!("{:?}", c.cookie.http_only));
    m.insert("cookie.same_site".into(), format!("{:?}", c.cookie.same_site));
    m.insert("cookie.kind".into(), format!("{:?}", c.cookie.kind));
    m.insert("state.ttl".into(), format!("{:?}", c.state.ttl));
    m.insert("state.extend_ttl".into(), format!("{:?}", c.state.extend_ttl));
    m.insert("state.ttl_extension_threshold".into(), format!("{:?}", c.state.ttl_extension_threshold));
    m.insert("state.server_state_creation".into(), format!("{:?}", c.state.server_state_creation));
    m.insert("state.missing_server_state".into(), format!("{:?}", c.state.missing_server_state));
    m
}

/// Expected `{:?}` of every field for a document, plus whether the key was present.
pub fn expected_fields(doc: &Value, docs: &[KeyDoc]) -> Result<BTreeMap<String, (String, bool)>, String> {
    let mut m = BTreeMap::new();
    for d in docs {
        let path = format!("{}.{}", d.table, d.key);
        match doc.get(d.table).and_then(|t| t.get(d.key)) {
            None => {
                m.insert(path, (d.default_dbg.to_string(), false));
            }
            Some(v) => {
                let (_, dbg) = d.choices.iter().find(|(cv, _)| cv == v).ok_or_else(|| format!("document value {v} for {path} is not in the table"))?;
                m.insert(path, (dbg.to_string(), true));
            }
        }
    }
    Ok(m)
}

/// Typed expectation used for the cookie oracle: (cookie attributes, state configuration, ttl).
pub fn expected_typed(exp: &BTreeMap<String, (String, bool)>) -> (CookieCfg, Cfg, u64) {
    let g = |k: &str| exp[k].0.as_str();
    let opt_str = |s: &str| -> Option<&'static str> {
        match s {
            "None" => None,
            "Some(\"/\")" => Some("/"),
            "Some(\"/app\")" => Some("/app"),
            "Some(\"example.com\")" => Some("example.com"),
            other => Some(Box::leak(other.to_string().into_boxed_str())),
        }
    };
    let cc = CookieCfg {
        name: if g("cookie.name") == "\"id\"" { "id" } else { "sess" },
        domain: opt_str(g("cookie.domain")),
        path: opt_str(g("cookie.path")),
        same_site: match g("cookie.same_site") {
            "None" => 0,
            "Some(None)" => 1,
            "Some(Lax)" => 2,
            _ => 3,
        },
        secure: g("cookie.secure") == "true",
        http_only: g("cookie.http_only") == "true",
    };
    let cfg = Cfg {
        never_skip: g("state.server_state_creation") == "NeverSkip",
        reject: g("state.missing_server_state") == "Reject",
        extend_on_loads: g("state.extend_ttl") == "OnStateLoadsAndChanges",
        threshold: g("state.ttl_extension_threshold") != "None",
        persistent: g("cookie.kind") == "Persistent",
    };
    let ttl = if g("state.ttl") == "86400s" { 86400 } else { 3600 };
    (cc, cfg, ttl)
}

#[derive(Clone, Copy, PartialEq, Eq, Debug)]
pub enum Format {
    Json,
    Yaml,
}

impl Format {
    pub fn name(&self) -> &'static str {
        match self {
            Format::Json => "json",
            Format::Yaml => "yaml",
        }
    }
}

pub fn deserialize(doc: &Value, format: Format) -> Result<SessionConfig, String> {
    match format {
        Format::Json => serde_json::from_value::<SessionConfig>(doc.clone()).map_err(|e| e.to_string()),
        Format::Yaml => {
            // the way Pavex reads configuration files: figment's YAML provider
            use figment::providers::Format as _;
            let text = serde_yaml::to_string(doc).map_err(|e| format!("cannot render YAML: {e}"))?;
            figment::Figment::new().merge(figment::providers::Yaml::string(&text)).extract::<SessionConfig>().map_err(|e| e.to_string())
        }
    }
}

/// Finalize points run with every deserialised configuration: a fresh session with server state,
/// a fresh one with client state, a continued session, an invalidated pre-existing session.
pub fn finalize_points() -> Vec<Vec<Event>> {
    use Event::*;
    let b = Begin(Present::NoCookie);
    let c = Begin(Present::Current);
    vec![
        vec![b, Op(crate::types::Op::SInsert(0, 1)), Finalize],
        vec![b, Op(crate::types::Op::CInsert(0, 1)), Finalize],
        vec![b, Op(crate::types::Op::SInsert(0, 1)), Finalize, c, Finalize],
        vec![b, Op(crate::types::Op::SInsert(0, 1)), Finalize, c, Op(crate::types::Op::Invalidate), Finalize],
    ]
}

/// All documents: per key absent / each listed value; a table with no present key is generated
/// both as `{}` and as an absent table.
pub fn documents(docs: &[KeyDoc]) -> Vec<Value> {
    fn tables(docs: &[KeyDoc], table: &str) -> Vec<Option<Value>> {
        let keys: Vec<&KeyDoc> = docs.iter().filter(|d| d.table == table).collect();
        let mut acc: Vec<JsonMap<String, Value>> = vec![JsonMap::new()];
        for k in keys {
            let mut next = Vec::new();
            for m in &acc {
                next.push(m.clone());
                for (v, _) in &k.choices {
                    let mut m2 = m.clone();
                    m2.insert(k.key.to_string(), v.clone());
                    next.push(m2);
                }
            }
            acc = next;
        }
        let mut out: Vec<Option<Value>> = vec![None];
        out.extend(acc.into_iter().map(|m| Some(Value::Object(m))));
        out
    }
    let cookies = tables(docs, "cookie");
    let states = tables(docs, "state");
    let mut out = Vec::new();
    for c in &cookies {
        for s in &states {
            let mut m = JsonMap::new();
            if let Some(c) = c {
                m.insert("cookie".into(), c.clone());
            }
            if let Some(s) = s {
                m.insert("state".into(), s.clone());
            }
            out.push(Value::Object(m));
        }
    }
    out
}

#[derive(Default)]
pub struct CsStats {
    pub documents: u64,
    pub deserialisations: u64,
    pub field_checks: u64,
    pub finalize_runs: u64,
    pub hist: BTreeMap<String, u64>,
    /// key -> (violation, case, count)
    pub found: BTreeMap<String, (Viol, Value, u64)>,
}

impl CsStats {
    fn record(&mut self, v: Viol, case: Value) {
        let e = self.found.entry(v.key.clone()).or_insert_with(|| (v, case.clone(), 0));
        // keep the smallest document as the witness
        if case.to_string().len() < e.1.to_string().len() {
            e.1 = case;
        }
        e.2 += 1;
    }
}

/// Struct-level check of one document in one format.
pub fn check_fields(doc: &Value, format: Format, docs: &[KeyDoc], default_fields: &BTreeMap<String, String>) -> Result<(Option<SessionConfig>, Vec<Viol>), String> {
    let exp = expected_fields(doc, docs)?;
    let mut viols = Vec::new();
    let suffix = if format == Format::Yaml { ":yaml" } else { "" };
    let cfg = match deserialize(doc, format) {
        Ok(c) => c,
        Err(e) => {
            viols.push(Viol {
                key: format!("config-deser-error{suffix}"),
                what: format!("a document that only uses documented keys and values is rejected ({}): {e}; document {doc}", format.name()),
            });
            return Ok((None, viols));
        }
    };
    let got = fields(&cfg);
    for (path, (want, present)) in &exp {
        let g = &got[path];
        if g != want {
            let key = if *present {
                format!("config-given:{path}")
            } else if default_fields.get(path) == Some(want) {
                format!("config-default:{path}:serde-vs-Default")
            } else {
                format!("config-default:{path}:serde-vs-doc")
            };
            viols.push(Viol {
                key,
                what: format!(
                    "SessionConfig deserialised ({}) from {doc} has {path} = {g}; {} {want}",
                    format.name(),
                    if *present { "the document says" } else { "the key is absent, the documented default (and `Default::default()`) is" }
                ),
            });
        }
    }
    Ok((Some(cfg), viols))
}

/// Run one finalize point with a deserialised configuration and check the cookie against the
/// *expected* values (documented defaults / given values), not against the struct.
pub fn check_cookie(ctx: &Ctx, procs: &crate::Processors, doc: &Value, config: &SessionConfig, docs: &[KeyDoc], hist: &[Event]) -> Result<(String, Option<Viol>), String> {
    let exp = expected_fields(doc, docs)?;
    let (cc, cfg, ttl) = expected_typed(&exp);
    if config.cookie.name != cc.name {
        // reported by the field check; no processor is configured for an unexpected name
        return Ok(("skipped:unexpected-name".into(), None));
    }
    let no_debug = crate::replay::NodeInfo::default();
    let p = &procs.map[&(Crypto::EncryptOnly, cc.name)];
    let mk = |fm| ReplayOpts { cookie: &cc, oracles: false, narrative: false, final_mode: fm, leak_check: false, hint: Some(&no_debug), symmetry: false, config_override: Some(config) };
    let twin = crate::run(ctx, &cfg, hist, &mk(FinalMode::Direct))?;
    let raw = twin.raw_final.ok_or("no finalize observation")?;
    let out = crate::run(ctx, &cfg, hist, &mk(FinalMode::Middleware(p)))?;
    let mw = out.mw.ok_or("no middleware observation")?;
    let (label, viol) = crate::check_middleware(&cfg, &cc, Crypto::EncryptOnly, p, &raw, &mw, ttl);
    Ok((
        label,
        viol.map(|v| {
            let suffix = if v.key.starts_with("attr:") {
                let attr = v.key.split(':').nth(1).unwrap_or("").trim_start_matches("wire-").to_string();
                let present = match attr.as_str() {
                    "max_age" => exp["cookie.kind"].1 || exp["state.ttl"].1,
                    a => exp.get(&format!("cookie.{a}")).map(|e| e.1).unwrap_or(false),
                };
                if present { ":key-present" } else { ":key-absent" }
            } else {
                ""
            };
            Viol {
                key: format!("config-source:{}{suffix}", v.key),
                what: format!("with the configuration deserialised from {doc}: {}", v.what),
            }
        }),
    ))
}

pub fn case_json(doc: &Value, format: Format, hist: Option<&[Event]>) -> Value {
    let mut c = json!({"property": "C12", "config_document": doc, "config_format": format.name()});
    if let Some(h) = hist {
        c["history"] = history_json(h);
    }
    c
}

/// Re-execute one recorded case; returns the violations it still produces.
pub fn recheck(ctx: &Ctx, procs: &crate::Processors, case: &Value) -> Result<Vec<Viol>, String> {
    let docs = documented();
    let doc = case.get("config_document").ok_or("no config_document")?;
    let format = if case.get("config_format").and_then(|f| f.as_str()) == Some("yaml") { Format::Yaml } else { Format::Json };
    let default_fields = fields(&SessionConfig::default());
    let mut all = law_violations(&docs);
    let (cfg, mut v) = check_fields(doc, format, &docs, &default_fields)?;
    all.append(&mut v);
    if let (Some(cfg), Some(h)) = (cfg, case.get("history").and_then(history_from_json)) {
        if let (_, Some(v)) = check_cookie(ctx, procs, doc, &cfg, &docs, &h)? {
            all.push(v);
        }
    }
    Ok(all)
}

/// `{}` == `{"cookie":{}}` == `{"state":{}}` == `{"cookie":{},"state":{}}` == `default()` == `new()`,
/// and `default()` equals the documented table.
pub fn law_violations(docs: &[KeyDoc]) -> Vec<Viol> {
    let mut out = Vec::new();
    let d = fields(&SessionConfig::default());
    for kd in docs {
        let path = format!("{}.{}", kd.table, kd.key);
        if d[&path] != kd.default_dbg {
            out.push(Viol {
                key: format!("config-default:{path}:Default-vs-doc"),
                what: format!("SessionConfig::default() has {path} = {}, the rustdoc says: {:?} (i.e. {})", d[&path], kd.doc, kd.default_dbg),
            });
        }
    }
    let mut sources: Vec<(String, BTreeMap<String, String>)> = vec![("SessionConfig::new()".into(), fields(&SessionConfig::new()))];
    for doc in [json!({}), json!({"cookie": {}}), json!({"state": {}}), json!({"cookie": {}, "state": {}})] {
        for f in [Format::Json, Format::Yaml] {
            match deserialize(&doc, f) {
                Ok(c) => sources.push((format!("{} {doc}", f.name()), fields(&c))),
                Err(e) => out.push(Viol { key: format!("config-deser-error{}", if f == Format::Yaml { ":yaml" } else { "" }), what: format!("{doc} ({}) is rejected: {e}", f.name()) }),
            }
        }
    }
    for (name, m) in &sources {
        for (path, v) in m {
            if d[path] != *v {
                out.push(Viol {
                    key: format!("config-default:{path}:serde-vs-Default"),
                    what: format!("{name} gives {path} = {v}, SessionConfig::default() gives {}", d[path]),
                });
            }
        }
    }
    out
}

pub fn run_all(ctx: &Ctx, procs: &crate::Processors) -> CsStats {
    let docs = documented();
    let mut st = CsStats::default();
    let default_fields = fields(&SessionConfig::default());
    for v in law_violations(&docs) {
        st.record(v, case_json(&json!({"cookie": {}}), Format::Json, None));
    }
    let all = documents(&docs);
    let points = finalize_points();
    // spread over threads: the documents are independent
    let threads = std::thread::available_parallelism().map(|n| n.get()).unwrap_or(4).min(16);
    let chunks: Vec<&[Value]> = all.chunks(all.len().div_ceil(threads)).collect();
    let results: Vec<CsStats> = std::thread::scope(|sc| {
        let handles: Vec<_> = chunks
            .iter()
            .map(|chunk| {
                let (docs, default_fields, points) = (&docs, &default_fields, &points);
                sc.spawn(move || {
                    let mut st = CsStats::default();
                    for doc in chunk.iter() {
                        st.documents += 1;
                        let mut json_cfg = None;
                        for f in [Format::Json, Format::Yaml] {
                            st.deserialisations += 1;
                            let (cfg, viols) = check_fields(doc, f, docs, default_fields).unwrap_or_else(|e| crate::machinery_error(&format!("config-source: {e}")));
                            st.field_checks += 12;
                            *st.hist.entry(format!("fields:{}:{}", f.name(), if viols.is_empty() { "as-documented" } else { "deviates" })).or_default() += 1;
                            for v in viols {
                                st.record(v, case_json(doc, f, None));
                            }
                            if f == Format::Json {
                                json_cfg = cfg;
                            }
                        }
                        if let Some(cfg) = json_cfg {
                            for h in points {
                                st.finalize_runs += 1;
                                let (label, viol) = check_cookie(ctx, procs, doc, &cfg, docs, h).unwrap_or_else(|e| crate::machinery_error(&format!("config-source finalize run: {e}; document {doc}")));
                                *st.hist.entry(format!("finalize:{label}")).or_default() += 1;
                                if let Some(v) = viol {
                                    st.record(v, case_json(doc, Format::Json, Some(h)));
                                }
                            }
                        }
                    }
                    st
                })
            })
            .collect();
        handles.into_iter().map(|h| h.join().unwrap_or_else(|_| crate::machinery_error("config-source worker panicked"))).collect()
    });
    for r in results {
        st.documents += r.documents;
        st.deserialisations += r.deserialisations;
        st.field_checks += r.field_checks;
        st.finalize_runs += r.finalize_runs;
        for (k, v) in r.hist {
            *st.hist.entry(k).or_default() += v;
        }
        for (k, (v, case, n)) in r.found {
            let e = st.found.entry(k).or_insert_with(|| (v, case.clone(), 0));
            if case.to_string().len() < e.1.to_string().len() {
                e.1 = case;
            }
            e.2 += n;
        }
    }
    st
}
