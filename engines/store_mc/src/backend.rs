//! Glue to the real stores: fixtures (ids, states, TTLs), one function that executes a model
//! operation against any `SessionStorageBackend`, a minimal `block_on`, and the SQLite plumbing
//! (pool, reset, clock modes, snapshot / restore).
use crate::model::{NSTATES, Op, Out};
use pavex_session::SessionId;
use pavex_session::store::errors::{ChangeIdError, CreateError, DeleteError, UpdateError, UpdateTtlError};
use pavex_session::store::{SessionRecordRef, SessionStorageBackend};
use pavex_session_sqlx::SqliteSessionStore;
use serde_json::{Value, json};
use std::borrow::Cow;
use std::collections::HashMap;
use std::future::Future;
use std::num::NonZeroUsize;
use std::pin::Pin;
use std::task::{Context, Poll, Waker};
use std::time::Duration;
use verif_common::machinery_error;

pub type StateMap = HashMap<Cow<'static, str>, Value>;

pub struct Fixtures {
    pub ids: [SessionId; 2],
    pub states: [StateMap; NSTATES],
}

pub const HOUR: Duration = Duration::from_secs(3600);

impl Fixtures {
    pub fn new() -> Fixtures {
        let id = |s: &str| -> SessionId {
            serde_json::from_value(json!(s)).unwrap_or_else(|e| machinery_error(&format!("cannot build SessionId: {e}")))
        };
        let s0: StateMap = HashMap::new();
        let mut s1: StateMap = HashMap::new();
        s1.insert(Cow::Borrowed("k"), json!(1));
        let mut s2: StateMap = HashMap::new();
        s2.insert(Cow::Borrowed("ü\""), json!([null, {"a": "é"}]));
        Fixtures {
            ids: [
                id("00000000-0000-4000-8000-00000000000a"),
                id("00000000-0000-4000-8000-00000000000b"),
            ],
            states: [s0, s1, s2],
        }
    }
    pub fn ttl(t: u8) -> Duration {
        if t == 0 { Duration::ZERO } else { HOUR }
    }
    pub fn states_json(&self) -> Value {
        json!({
            "s0": serde_json::to_value(&self.states[0]).unwrap(),
            "s1": serde_json::to_value(&self.states[1]).unwrap(),
            "s2": serde_json::to_value(&self.states[2]).unwrap(),
        })
    }
    fn classify(&self, st: &StateMap, ttl: Duration) -> Out {
        for (i, s) in self.states.iter().enumerate() {
            if s == st {
                // every live record in the alphabet was written with a TTL of one hour
                if ttl > HOUR || ttl + Duration::from_secs(120) <= HOUR {
                    return Out::Loaded(Some(254));
                }
                return Out::Loaded(Some(i as u8));
            }
        }
        Out::Loaded(Some(255))
    }
}

/// Execute one model operation against the real backend and abstract the result.
pub async fn exec_op(b: &dyn SessionStorageBackend, fx: &Fixtures, op: Op) -> Out {
    match op {
        Op::Create { id, st, ttl } => {
            let rec = SessionRecordRef { state: Cow::Borrowed(&fx.states[st as usize]), ttl: Fixtures::ttl(ttl) };
            match b.create(&fx.ids[id as usize], rec).await {
                Ok(()) => Out::Ok,
                Err(CreateError::DuplicateId(_)) => Out::DuplicateId,
                Err(e) => Out::Error(format!("{e:?}")),
            }
        }
        Op::Update { id, st, ttl } => {
            let rec = SessionRecordRef { state: Cow::Borrowed(&fx.states[st as usize]), ttl: Fixtures::ttl(ttl) };
            match b.update(&fx.ids[id as usize], rec).await {
                Ok(()) => Out::Ok,
                Err(UpdateError::UnknownIdError(_)) => Out::UnknownId,
                Err(e) => Out::Error(format!("{e:?}")),
            }
        }
        Op::UpdateTtl { id, ttl } => match b.update_ttl(&fx.ids[id as usize], Fixtures::ttl(ttl)).await {
            Ok(()) => Out::Ok,
            Err(UpdateTtlError::UnknownId(_)) => Out::UnknownId,
            Err(e) => Out::Error(format!("{e:?}")),
        },
        Op::Load { id } => match b.load(&fx.ids[id as usize]).await {
            Ok(None) => Out::Loaded(None),
            Ok(Some(r)) => fx.classify(&r.state, r.ttl),
            Err(e) => Out::Error(format!("{e:?}")),
        },
        Op::Delete { id } => match b.delete(&fx.ids[id as usize]).await {
            Ok(()) => Out::Ok,
            Err(DeleteError::UnknownId(_)) => Out::UnknownId,
            Err(e) => Out::Error(format!("{e:?}")),
        },
        Op::ChangeId { old, new } => match b.change_id(&fx.ids[old as usize], &fx.ids[new as usize]).await {
            Ok(()) => Out::Ok,
            Err(ChangeIdError::UnknownId(_)) => Out::UnknownId,
            Err(ChangeIdError::DuplicateId(_)) => Out::DuplicateId,
            Err(e) => Out::Error(format!("{e:?}")),
        },
        Op::DeleteExpired { batch } => {
            let b_ = if batch == 0 { None } else { NonZeroUsize::new(1) };
            match b.delete_expired(b_).await {
                Ok(n) => Out::Count(n),
                Err(e) => Out::Error(format!("{e:?}")),
            }
        }
    }
}

/// Like `exec_op` but a panic of the subject becomes `Out::Panic` instead of unwinding through the
/// harness (a store operation that panics neither failed with an error nor took effect).
pub async fn exec_op_caught(b: &dyn SessionStorageBackend, fx: &Fixtures, op: Op) -> Out {
    struct Caught<'a>(Pin<Box<dyn Future<Output = Out> + 'a>>);
    impl<'a> Future for Caught<'a> {
        type Output = Out;
        fn poll(mut self: Pin<&mut Self>, cx: &mut Context<'_>) -> Poll<Out> {
            let inner = &mut self.0;
            match std::panic::catch_unwind(std::panic::AssertUnwindSafe(|| inner.as_mut().poll(cx))) {
                Ok(p) => p,
                Err(p) => Poll::Ready(Out::Panic(crate::seq::panic_msg(&p))),
            }
        }
    }
    Caught(Box::pin(exec_op(b, fx, op))).await
}

/// Poll a future to completion on the current thread with a no-op waker. Only for futures that
/// never wait on anything external (the in-memory store: its only `Pending` is the H3 yield).
pub fn block_on<F: Future>(f: F) -> F::Output {
    let mut f = std::pin::pin!(f);
    let mut cx = Context::from_waker(Waker::noop());
    for _ in 0..10_000 {
        if let Poll::Ready(v) = Pin::as_mut(&mut f).poll(&mut cx) {
            return v;
        }
    }
    machinery_error("block_on: future still pending after 10000 polls (in-memory store blocked with no contender?)")
}

pub fn now_sec() -> u64 {
    std::time::SystemTime::now()
        .duration_since(std::time::UNIX_EPOCH)
        .map(|d| d.as_secs())
        .unwrap_or_else(|_| machinery_error("system clock before the epoch"))
}

// ---------------------------------------------------------------------------------------------
// SQLite
// ---------------------------------------------------------------------------------------------

/// How "TTL 0" relates to SQLite's 1-second clock (`unixepoch()`), both made deterministic.
/// In both modes every step (and every from-scratch history) runs within ONE wall-clock second
/// (verified, otherwise it is re-executed), so all deadlines written are exact and reproducible.
/// * `Gap`: nothing else; a TTL-0 record therefore has `deadline == unixepoch()`;
/// * `Past`: after every operation that may have written a TTL-0 deadline the harness moves the
///   deadlines of already-expired rows 100 s into the past (`deadline <= unixepoch()` rows only),
///   i.e. it simulates that more than a second elapses before the next operation.
#[derive(Clone, Copy, PartialEq, Eq, Debug)]
pub enum Mode {
    Gap,
    Past,
}
impl Mode {
    pub fn name(&self) -> &'static str {
        match self {
            Mode::Gap => "gap",
            Mode::Past => "past",
        }
    }
    pub fn from_name(s: &str) -> Option<Mode> {
        match s {
            "gap" => Some(Mode::Gap),
            "past" => Some(Mode::Past),
            _ => None,
        }
    }
}

#[derive(Clone, Debug, PartialEq, Eq)]
pub struct SnapRow {
    pub id: String,
    /// deadline - unixepoch() at snapshot time: ~3600 = live, 0 = "gap", < 0 = strictly expired
    pub delta: i64,
    pub hex: String,
    pub is_text: bool,
}
pub type Snap = Vec<SnapRow>;

pub struct Sq {
    pub pool: sqlx::SqlitePool,
    pub store: SqliteSessionStore,
    pub stmts: u64,
}

fn sq_err<T, E: std::fmt::Debug>(r: Result<T, E>, what: &str) -> T {
    r.unwrap_or_else(|e| machinery_error(&format!("sqlite harness statement failed ({what}): {e:?}")))
}

impl Sq {
    pub async fn new(max_conn: u32) -> Sq {
        // `sqlite::memory:` is turned by sqlx into a uniquely named shared-cache in-memory database,
        // so every pool gets its own database and all connections of one pool share it.
        let opts: sqlx::sqlite::SqliteConnectOptions = sq_err("sqlite::memory:".parse(), "parse url");
        let pool = sq_err(
            sqlx::sqlite::SqlitePoolOptions::new()
                .max_connections(max_conn)
                .min_connections(1)
                .idle_timeout(None)
                .max_lifetime(None)
                .connect_with(opts)
                .await,
            "connect",
        );
        let store = SqliteSessionStore::new(pool.clone());
        sq_err(store.migrate().await, "migrate");
        Sq { pool, store, stmts: 0 }
    }
    pub async fn reset(&mut self) {
        self.stmts += 1;
        sq_err(sqlx::raw_sql("DELETE FROM sessions").execute(&self.pool).await, "reset");
    }
    /// Clock simulation for `Mode::Past`: already-expired rows move further into the past.
    pub async fn tick(&mut self) {
        self.stmts += 1;
        sq_err(
            sqlx::raw_sql("UPDATE sessions SET deadline = deadline - 100 WHERE deadline <= unixepoch()")
                .execute(&self.pool)
                .await,
            "tick",
        );
    }
    pub async fn exec(&mut self, fx: &Fixtures, mode: Mode, op: Op) -> Out {
        self.stmts += 1;
        let out = exec_op_caught(&self.store, fx, op).await;
        if mode == Mode::Past && op.writes_ttl0() {
            self.tick().await;
        }
        out
    }
    pub async fn probes(&mut self, fx: &Fixtures) -> [Out; 2] {
        self.stmts += 2;
        [
            exec_op_caught(&self.store, fx, Op::Load { id: 0 }).await,
            exec_op_caught(&self.store, fx, Op::Load { id: 1 }).await,
        ]
    }
    /// Table contents in physical (rowid) order, every deadline relative to SQLite's clock.
    /// `Err(())` = a row is in a state that the mode excludes within one second (the wall-clock
    /// second changed under our feet): the caller re-executes the step.
    pub async fn snapshot(&mut self, mode: Mode) -> Result<Snap, ()> {
        use sqlx::Row as _;
        self.stmts += 1;
        let rows = sq_err(
            sqlx::query("SELECT id, deadline - unixepoch(), hex(state), typeof(state) FROM sessions ORDER BY rowid")
                .fetch_all(&self.pool)
                .await,
            "snapshot",
        );
        let mut snap = Vec::with_capacity(rows.len());
        for r in rows {
            let id: String = sq_err(r.try_get(0), "snapshot id");
            let delta: i64 = sq_err(r.try_get(1), "snapshot deadline");
            let hex: String = sq_err(r.try_get(2), "snapshot state");
            let ty: String = sq_err(r.try_get(3), "snapshot typeof");
            if delta > 0 && delta < 3000 {
                // a live record is always written with exactly one hour
                return Err(());
            }
            match mode {
                Mode::Gap if delta < 0 => return Err(()),
                Mode::Past if delta == 0 => return Err(()),
                _ => {}
            }
            let is_text = match ty.as_str() {
                "text" => true,
                "blob" => false,
                other => machinery_error(&format!("snapshot: unexpected storage class {other} for state")),
            };
            snap.push(SnapRow { id, delta, hex, is_text });
        }
        Ok(snap)
    }
    /// Replace the table contents by `snap`: same physical row order, every deadline shifted by the
    /// time elapsed since the snapshot (exact time-shift of the table; cross-checked against
    /// from-scratch executions).
    pub async fn restore(&mut self, snap: &Snap) {
        self.stmts += 1;
        let mut sql = String::from("DELETE FROM sessions;");
        for r in snap {
            if !r.id.chars().all(|c| c.is_ascii_hexdigit() || c == '-') || !r.hex.chars().all(|c| c.is_ascii_hexdigit()) {
                machinery_error("restore: unexpected characters in snapshot");
            }
            let st = if r.is_text { format!("CAST(x'{}' AS TEXT)", r.hex) } else { format!("x'{}'", r.hex) };
            sql.push_str(&format!("INSERT INTO sessions (id, deadline, state) VALUES ('{}', unixepoch()+({}), {});", r.id, r.delta, st));
        }
        sq_err(sqlx::raw_sql(&sql).execute(&self.pool).await, "restore");
    }
}

pub fn current_thread_rt() -> tokio::runtime::Runtime {
    // no I/O driver: the SQLite driver talks to its worker thread over channels only, and parking on
    // a plain thread-park is cheaper than on epoll
    tokio::runtime::Builder::new_current_thread()
        .enable_time()
        .build()
        .unwrap_or_else(|e| machinery_error(&format!("cannot build tokio runtime: {e}")))
}
