//! store_mc — engine for property C13 ("session stores behave like a map with expiry, under
//! concurrency too"). See /verif/DESIGN.md §C13.
//!
//! Part 1: sequential conformance of the in-memory and the SQLite store against a reference map,
//!         over ALL operation histories up to a depth.
//! Part 2: every schedule of small concurrent harnesses on the REAL in-memory store under a
//!         harness-owned deterministic executor (hook H3), checked for linearizability.
//! Part 3: SQLite at operation granularity (all merges), plus a sampled free-running smoke run.
mod backend;
mod conc;
mod lin;
mod model;
mod sched;
mod seq;
mod stmt;

use backend::{Fixtures, Mode, Sq, current_thread_rt};
use model::{Table, VInfo, ops_from_json};
use seq::{SeqResult, VSink};
use serde_json::{Value, json};
use std::time::{Duration, Instant};
use verif_common::machinery_error;

fn replay(tbl: &Table, case: &Value) -> i32 {
    let part = case.get("part").and_then(|p| p.as_str()).unwrap_or("");
    let still = match part {
        "seq" => {
            let hist = ops_from_json(case.get("history").unwrap_or(&Value::Null)).unwrap_or_else(|| machinery_error("replay: malformed history"));
            let backend = case.get("backend").and_then(|b| b.as_str()).unwrap_or("");
            let fx = Fixtures::new();
            if let Some(o) = case.get("origin") {
                println!("origin: {o}");
            }
            let viols = match backend {
                "mem" => {
                    println!("backend: in-memory store; every prefix is executed from scratch on a fresh store, then x and y are probed with load");
                    seq::mem_check_history(&fx, tbl, &hist, true)
                }
                "sqlite" => {
                    let mode = case.get("mode").and_then(|m| m.as_str()).and_then(Mode::from_name).unwrap_or_else(|| machinery_error("replay: malformed mode"));
                    println!(
                        "backend: SQLite (in-memory pool), clock mode '{}' ({})",
                        mode.name(),
                        match mode {
                            Mode::Gap => "all operations within one wall-clock second: a TTL-0 record has deadline == unixepoch()",
                            Mode::Past => "expired rows are aged by 100 s after every TTL-0 write: a TTL-0 record has deadline < unixepoch()",
                        }
                    );
                    let rt = current_thread_rt();
                    let trace = rt.block_on(async {
                        let mut sq = Sq::new(1).await;
                        let mut r = 0;
                        let t = seq::sq_exec_scratch(&mut sq, &fx, mode, &hist, &mut r).await;
                        sq.pool.close().await;
                        t
                    });
                    seq::sq_check_trace(tbl, &hist, &trace, true)
                }
                _ => machinery_error("replay: unknown backend"),
            };
            for v in &viols {
                println!("VIOLATES: {} [key={}]", v.what, v.key);
            }
            if viols.is_empty() {
                println!("observed outcomes all conform to the reference map");
            }
            !viols.is_empty()
        }
        "conc" => conc::replay_conc(tbl, case),
        "stmt" => stmt::replay_stmt(&Table::new_sqlite_stmt(), case),
        _ => machinery_error("replay: unknown case kind"),
    };
    if still { 1 } else { 0 }
}

/// Re-execute the stored case of a sequential violation through the standalone path and demand the
/// same key again (determinism + independence from the snapshot/restore DFS machinery).
fn confirm(tbl: &Table, fx: &Fixtures, key: &str, case: &Value) {
    let hist = ops_from_json(case.get("history").unwrap_or(&Value::Null)).unwrap_or_else(|| machinery_error("confirm: malformed history"));
    let viols: Vec<VInfo> = match case.get("backend").and_then(|b| b.as_str()) {
        Some("mem") => seq::mem_check_history(fx, tbl, &hist, false),
        Some("sqlite") => {
            let mode = case.get("mode").and_then(|m| m.as_str()).and_then(Mode::from_name).unwrap_or_else(|| machinery_error("confirm: malformed mode"));
            let rt = current_thread_rt();
            let trace = rt.block_on(async {
                let mut sq = Sq::new(1).await;
                let mut r = 0;
                let t = seq::sq_exec_scratch(&mut sq, fx, mode, &hist, &mut r).await;
                sq.pool.close().await;
                t
            });
            seq::sq_check_trace(tbl, &hist, &trace, false)
        }
        _ => machinery_error("confirm: unknown backend"),
    };
    if !viols.iter().any(|v| v.key == key) {
        machinery_error(&format!(
            "nondeterministic: violation [{key}] did not reproduce on re-execution of {}",
            serde_json::to_string(case).unwrap_or_default()
        ));
    }
}

/// Run `run(depth)` for growing depths while the estimated time of the next depth fits the budget.
fn deepen(
    name: &str,
    start: usize,
    max: usize,
    t0: Instant,
    soft_mark_s: f64,
    hard_slack_s: f64,
    estimate_next: &dyn Fn(&SeqResult) -> f64,
    run: &dyn Fn(usize, Instant) -> SeqResult,
    log: &mut Vec<Value>,
    extra_sink: &mut VSink,
) -> SeqResult {
    let far = Instant::now() + Duration::from_secs(86_400);
    let mut best = run(start, far);
    println!("[{name}] depth {} complete: {} histories in {:.1}s", best.depth, best.stats.histories, best.wall_s);
    log.push(json!({"engine_part": name, "depth": best.depth, "completed": true, "wall_s": best.wall_s, "histories": best.stats.histories}));
    while best.depth < max {
        let est = estimate_next(&best);
        let elapsed = t0.elapsed().as_secs_f64();
        if elapsed + est > soft_mark_s {
            println!("[{name}] depth {} not attempted: estimated {:.0}s does not fit the time budget (elapsed {:.0}s, mark {:.0}s)", best.depth + 1, est, elapsed, soft_mark_s);
            log.push(json!({"engine_part": name, "depth": best.depth + 1, "completed": false, "reason": format!("time cap: estimated {:.0}s", est)}));
            break;
        }
        let hard = t0 + Duration::from_secs_f64(soft_mark_s + hard_slack_s);
        let r = run(best.depth + 1, hard);
        if r.completed {
            println!("[{name}] depth {} complete: {} histories in {:.1}s", r.depth, r.stats.histories, r.wall_s);
            log.push(json!({"engine_part": name, "depth": r.depth, "completed": true, "wall_s": r.wall_s, "histories": r.stats.histories}));
            // violations of the shallower run are a subset; keep the deeper run
            best = r;
        } else {
            println!("[{name}] depth {} ABORTED by the time cap after {} histories", r.depth, r.stats.histories);
            log.push(json!({"engine_part": name, "depth": r.depth, "completed": false, "reason": "hard time cap hit", "histories_before_abort": r.stats.histories}));
            extra_sink.merge(r.sink);
            break;
        }
    }
    best
}

fn main() {
    let args = verif_common::Args::parse();
    if args.property != "C13" {
        machinery_error(&format!("store_mc serves C13 only, got '{}'", args.property));
    }
    let tbl = Table::new();
    if let Some(p) = &args.replay {
        let case = verif_common::load_replay(p);
        std::process::exit(replay(&tbl, &case));
    }
    let mut rep = verif_common::Reporter::from_args(&args);
    rep.max_replay_files = 40;
    let thorough = args.tier.is_thorough();
    let t0 = Instant::now();
    let fx = Fixtures::new();
    let mut depth_log: Vec<Value> = Vec::new();
    let mut all = VSink::default();

    // ---- Part 2 first (it owns the global YIELD_BEFORE_LOCK switch) --------------------------
    pavex_session_memory_store::verif::YIELD_BEFORE_LOCK.store(true, std::sync::atomic::Ordering::SeqCst);
    let st = sched::selftest();
    println!(
        "[executor self-test] AB/BA lock toy: {} schedules, {} deadlocks detected, {} completed, {} with a blocked poll; contended-lock toy: {} runs where a blocked task was woken by the unlock and finished",
        st.schedules, st.deadlocks, st.completed, st.runs_with_blocked_polls, st.woken_after_block
    );
    let mut hs = conc::harnesses(thorough);
    let n_hw = hs.iter().filter(|h| h.name.starts_with("hw")).count();
    // the seed only rotates the order of the systematic harnesses
    let mut tail = hs.split_off(n_hw);
    verif_common::rotate_by_seed(&mut tail, args.seed);
    hs.extend(tail);
    let only: Option<Vec<String>> = args.extra("only").map(|s| s.split(',').map(|x| x.to_string()).collect());
    let on = |part: &str| only.as_ref().map(|o| o.iter().any(|x| x == part)).unwrap_or(true);
    if only.is_some() {
        println!("NOTE: --only given: this is a partial (diagnostic) run, the evidence file is not a full C13 check");
    }
    conc::RUN_CAP.store(if thorough { 3_000_000 } else { 200_000 }, std::sync::atomic::Ordering::SeqCst);
    let cr = conc::run_conc_mem(&tbl, if on("conc") { &hs } else { &[] });
    println!(
        "[part 2: in-memory, all schedules] {} harnesses, {} schedules, {} distinct histories, {} harnesses with >1 outcome, LOCK_CALLS={}, {:.1}s, violations={}",
        cr.harnesses,
        cr.schedules,
        cr.distinct_histories,
        cr.harnesses_with_multiple_outcomes,
        cr.lock_calls,
        cr.wall_s,
        cr.violations.len()
    );

    // ---- Part 1: sequential conformance -------------------------------------------------------
    // time estimates for the next depth (38x more histories)
    let est_mem = |r: &SeqResult| r.wall_s.max(0.05) * 38.0 * ((r.depth + 4) as f64 / (r.depth + 3) as f64) * 1.1;
    let est_sq = |r: &SeqResult| {
        let per_stmt = r.wall_s.max(0.05) / (r.stats.stmts.max(1) as f64);
        per_stmt * 38f64.powi(r.depth as i32 + 1) * 4.6 * 1.1
    };
    let slack = if thorough { 90.0 } else { 8.0 };
    let (mem_start, mem_max) = if thorough { (4, 6) } else { (4, 4) };
    let mem = if !on("mem") { SeqResult::skipped("mem") } else { deepen(
        "part 1: in-memory sequential",
        mem_start,
        mem_max,
        t0,
        if thorough { 200.0 } else { 20.0 },
        slack,
        &est_mem,
        &|d, hard| seq::run_mem_seq(&tbl, d, args.seed, hard),
        &mut depth_log,
        &mut all,
    ) };
    let (gap_start, gap_max) = if thorough { (3, 4) } else { (3, 3) };
    let gap = if !on("gap") { SeqResult::skipped("sqlite/gap") } else { deepen(
        "part 1: sqlite sequential (gap)",
        gap_start,
        gap_max,
        t0,
        if thorough { 320.0 } else { 46.0 },
        slack,
        &est_sq,
        &|d, hard| seq::run_sqlite_seq(&tbl, Mode::Gap, d, 3, args.seed, hard),
        &mut depth_log,
        &mut all,
    ) };

    let (past_start, past_max) = if thorough { (3, 5) } else { (3, 4) };
    let past = if !on("past") { SeqResult::skipped("sqlite/past") } else { deepen(
        "part 1: sqlite sequential (past)",
        past_start,
        past_max,
        t0,
        if thorough { 1150.0 } else { 46.0 },
        slack,
        &est_sq,
        &|d, hard| seq::run_sqlite_seq(&tbl, Mode::Past, d, 3, args.seed, hard),
        &mut depth_log,
        &mut all,
    ) };
    // ---- Part 3 -------------------------------------------------------------------------------
    let mr = conc::run_sqlite_merges(&tbl, if on("merge") { &hs } else { &[] });
    println!(
        "[part 3: sqlite op-granular merges] {} harnesses, {} merged executions (2 clock modes), {:.1}s, violating steps={}",
        mr.harnesses, mr.merges, mr.wall_s, mr.stats.violating_steps
    );
    // ---- Part 3b: SQLite at statement granularity ---------------------------------------------
    let tbl_sq = Table::new_sqlite_stmt();
    let sr = stmt::run_sqlite_stmt(&tbl_sq, if on("stmt") { &hs } else { &[] });
    println!(
        "[part 3b: sqlite statement-granular schedules] {} harnesses, {} schedules, {} statement steps, {} distinct histories, longest schedule {} steps, {} harnesses with a multi-statement operation, {:.1}s, violations={}",
        sr.harnesses, sr.schedules, sr.steps, sr.distinct_histories, sr.max_steps_in_a_schedule, sr.harnesses_with_a_multi_statement_op, sr.wall_s, sr.violations.len()
    );
    let smoke = conc::sqlite_smoke(&tbl, if on("smoke") { &hs } else { &[] }, if thorough { 3000 } else { 300 });
    println!("[part 3: sqlite free-running smoke — SAMPLED, not part of the verdict] {smoke}");

    // ---- collect violations -------------------------------------------------------------------
    let seq_samples: Vec<Value> = mem.samples.iter().chain(past.samples.iter()).chain(gap.samples.iter()).cloned().collect();
    let (mem_j, past_j, gap_j) = (mem.to_json(), past.to_json(), gap.to_json());
    let seq_histories = mem.stats.histories + past.stats.histories + gap.stats.histories;
    let seq_ops = mem.stats.op_execs + past.stats.op_execs + gap.stats.op_execs;
    let nontrivial = mem.stats.nontrivial + past.stats.nontrivial + gap.stats.nontrivial;
    all.merge(mem.sink);
    all.merge(past.sink);
    all.merge(gap.sink);
    all.merge(mr.sink);
    let mut per_key = serde_json::Map::new();
    for (key, (v, case, n)) in &all.map {
        confirm(&tbl, &fx, key, case);
        per_key.insert(key.clone(), json!(n));
        rep.violation(key, &format!("{} ({} violating steps with this key)", v.what, n), case.clone());
    }
    for (v, case) in &cr.violations {
        per_key.insert(v.key.clone(), json!(1));
        rep.violation(&v.key, &v.what, case.clone());
    }
    for (v, case) in &sr.violations {
        per_key.insert(v.key.clone(), json!(1));
        rep.violation(&v.key, &v.what, case.clone());
    }

    let mut samples = seq_samples;
    samples.extend(cr.samples.iter().cloned());
    if samples.is_empty() {
        samples.push(json!({"note": "no sample collected"}));
    }
    let states = seq_histories + mr.merges + cr.schedules + sr.schedules;
    let transitions = seq_ops + mr.op_execs + cr.steps + sr.steps;
    // exhaustive = every target depth of the tier was completed (no time cap hit anywhere)
    let caps_hit = depth_log.iter().any(|e| e.get("completed").and_then(|c| c.as_bool()) == Some(false)) || !cr.capped_harnesses.is_empty();
    let exhaustive = mem.completed && past.completed && gap.completed && only.is_none() && !caps_hit;
    let coverage = json!({
        "states": states,
        "transitions": transitions,
        "traces_validated_against_impl": states,
        "evaluations": states,
        "distinct_nontrivial": nontrivial + cr.distinct_histories,
        "exhaustive": exhaustive,
        "rule": format!(
            "Alphabet (38 ops): create/update(id,state,ttl) x ids{{x,y}} x states{{s0,s1,s2}} x ttl{{0,1h}}; update_ttl(id,ttl); load(id); delete(id); \
             change_id(old,new) incl. old==new; delete_expired(None|Some(1)). States: {}. \
             Part 1: EVERY history of length <= depth (in-memory: depth {}; SQLite 'past' clock mode: depth {}; SQLite 'gap' clock mode: depth {}), each executed against the real store \
             (in-memory: every history from scratch on a fresh store; SQLite: prefix-sharing DFS with snapshot/restore of the table, cross-checked against from-scratch executions for all histories of length 2 and a quarter of those of length 3), \
             both ids probed with load after the last op. Oracle: non-deterministic reference map id -> absent|expired|live(state) (model::spec) tracked as the set of compatible model states; \
             a violation = observed result variant or loaded state not allowed by any compatible model state. A history is non-trivial when its last op returns something else than on the empty store. \
             Part 2: real InMemorySessionStore under a deterministic single-threaded executor, hook H3 yields before every lock acquisition; ALL schedules (unbounded DFS with replay from scratch, \
             preceded by preemption-bounded passes 0,1,2 as ordering heuristic) of {} harnesses (every unordered pair of the 7 op kinds in 2-4 instantiations on colliding ids || observer [load x; load y], 6 initial contents{}; plus 3 hand-written 3-task harnesses); \
             oracle: brute-force linearizability of the call/return history + final loads against the same reference model, deadlock = violation. distinct_nontrivial adds the number of distinct call/return histories. \
             Part 3: every merge of the tasks' op sequences of the same harnesses executed sequentially on SQLite in both clock modes (each SqliteSessionStore op is exactly one SQL statement). \
             Part 3b: the same harnesses on the real SqliteSessionStore with a pool of 4 connections to one shared in-memory database, every task parked at a harness-owned turnstile each time it takes a connection \
             (sqlx `before_acquire`: once per statement executed on the pool, once per transaction), exactly one task running between two decisions; ALL statement schedules by DFS with replay; oracle: \
             linearizability of the call/return history + final loads against the same reference model, in which `create` on a live id may also return Ok without effect (the recorded finding of parts 1/3).",
            fx.states_json(),
            mem_j["depth"], past_j["depth"], gap_j["depth"],
            cr.harnesses,
            if thorough { "; thorough adds 3 tasks x 2 ops per pair of kinds and 4 tasks (3 mutators + observer) per triple of distinct kinds" } else { "" },
        ),
        "samples": samples,
        "depth_log": depth_log,
        "part1_in_memory": mem_j,
        "part1_sqlite_past": past_j,
        "part1_sqlite_gap": gap_j,
        "part2_in_memory_schedules": cr.to_json(),
        "part2_executor_selftest": {"schedules": st.schedules, "deadlocks_detected": st.deadlocks, "completed": st.completed, "runs_with_blocked_poll": st.runs_with_blocked_polls, "runs_blocked_then_woken_by_unlock": st.woken_after_block},
        "part3b_sqlite_statement_schedules": {"harnesses": sr.harnesses, "schedules": sr.schedules, "statement_steps": sr.steps, "distinct_histories": sr.distinct_histories,
            "longest_schedule_steps": sr.max_steps_in_a_schedule, "harnesses_with_a_multi_statement_operation": sr.harnesses_with_a_multi_statement_op,
            "turnstile_passages": sr.gate_passages, "wall_s": sr.wall_s},
        "part3_sqlite_merges": {"harnesses": mr.harnesses, "merged_executions": mr.merges, "op_executions": mr.op_execs, "sql_statements": mr.stats.stmts,
                                  "violating_steps": mr.stats.violating_steps, "outcome_histogram": mr.stats.hist_json(), "same_second_guard_retries": mr.stats.guard_retries, "wall_s": mr.wall_s},
        "part3_sqlite_smoke_SAMPLED_not_part_of_verdict": smoke,
        "violating_steps_per_key": Value::Object(per_key),
        "caps_hit": caps_hit,
        "target_depths": {"in_memory": mem_max, "sqlite_gap": gap_max, "sqlite_past": past_max},
        "partial_run_only": only,
    });
    let code = rep.finish(
        "model_checking",
        coverage,
        &[
            "Timestamp::now() (jiff, wall clock) and SQLite's unixepoch() are not owned by the harness; every TTL is 0 or 1 h so that each staleness test has a clock-independent answer, assuming the wall clock does not jump backwards or by minutes during a run",
            "SQLite has 1-second deadline granularity: every step / from-scratch history runs within one verified wall-clock second; 'gap' mode adds nothing (TTL 0 => deadline == unixepoch()); 'past' mode ages already-expired rows by 100 s via a harness UPDATE after every TTL-0 write (TTL 0 => deadline < unixepoch()); both are legitimate timings of the same histories",
            "SQLite DFS: snapshot/restore re-creates the table in the same physical row order with every deadline shifted by the elapsed time (time-shift invariance), cross-checked against from-scratch execution for all histories of length 2 and a quarter of those of length 3",
            "SQLite concurrency is explored at operation granularity only (each op is one SQL statement; read from sqlite.rs); statement-level preemption inside SQLite/sqlx is not controlled; the multi-thread smoke run is sampled and not part of the verdict",
            "in-memory concurrency: scheduling points are exactly the lock acquisitions (hook H3) — sound because the store touches shared state only under that lock; tokio's Mutex is trusted",
            "when an expired record is physically removed is not observable except through the delete_expired count, for which the property only forces an upper bound (only expired records are removed)",
            "when change_id's old id is dead AND its new id is live both documented errors apply; either is accepted. change_id(a,a) on a live record may return Ok or DuplicateId (no observable change either way)",
        ],
    );
    std::process::exit(code);
}
