//! Parts 2 and 3: concurrency harnesses.
//! Part 2 — in-memory store, real code, every schedule of the harness-owned executor (hook H3).
//! Part 3 — SQLite at operation granularity (all merges) + a free-running smoke run.
use crate::backend::{Fixtures, Mode, Sq, block_on, current_thread_rt, exec_op, exec_op_caught};
use crate::lin::{HOp, linearizable};
use crate::model::{Checker, EMPTY_MSET, KINDS, N_OUTCODES, Op, Out, Table, VInfo, mset_describe, ops_from_json, ops_to_json, outcode_index, outcode_name};
use crate::sched::{Plan, SchedOut, Task, explore, run_tasks};
use crate::seq::{Stats, VSink, sq_check_trace, sq_exec_scratch};
use pavex_session_memory_store::InMemorySessionStore;
use serde_json::{Value, json};
use std::cell::RefCell;
use std::collections::{BTreeSet, HashMap};
use std::rc::Rc;
use std::sync::atomic::{AtomicUsize, Ordering};
use verif_common::machinery_error;

#[derive(Clone, Debug)]
pub struct Harness {
    pub name: String,
    /// short collapse key: which op kinds run concurrently
    pub kinds: String,
    pub init: Vec<Op>,
    pub tasks: Vec<Vec<Op>>,
}

impl Harness {
    pub fn to_json(&self) -> Value {
        json!({
            "name": self.name,
            "kinds": self.kinds,
            "init": ops_to_json(&self.init),
            "tasks": self.tasks.iter().map(|t| ops_to_json(t)).collect::<Vec<_>>(),
        })
    }
    pub fn from_json(v: &Value) -> Option<Harness> {
        Some(Harness {
            name: v.get("name")?.as_str()?.to_string(),
            kinds: v.get("kinds").and_then(|k| k.as_str()).unwrap_or("?").to_string(),
            init: ops_from_json(v.get("init")?)?,
            tasks: v.get("tasks")?.as_array()?.iter().map(ops_from_json).collect::<Option<Vec<_>>>()?,
        })
    }
    pub fn n_ops(&self) -> usize {
        self.tasks.iter().map(|t| t.len()).sum()
    }
    pub fn describe(&self) -> String {
        format!(
            "init [{}]; {}",
            self.init.iter().map(|o| o.short()).collect::<Vec<_>>().join(", "),
            self.tasks
                .iter()
                .map(|t| format!("[{}]", t.iter().map(|o| o.short()).collect::<Vec<_>>().join("; ")))
                .collect::<Vec<_>>()
                .join(" || ")
        )
    }
}

const X: u8 = 0;
const Y: u8 = 1;

fn inits() -> Vec<(&'static str, Vec<Op>)> {
    vec![
        ("empty", vec![]),
        ("x=live", vec![Op::Create { id: X, st: 0, ttl: 1 }]),
        ("x=live,y=live", vec![Op::Create { id: X, st: 0, ttl: 1 }, Op::Create { id: Y, st: 1, ttl: 1 }]),
        ("x=expired,y=live", vec![Op::Create { id: X, st: 0, ttl: 0 }, Op::Create { id: Y, st: 1, ttl: 1 }]),
        ("x=live,y=expired", vec![Op::Create { id: X, st: 0, ttl: 1 }, Op::Create { id: Y, st: 1, ttl: 0 }]),
        ("x=expired,y=expired", vec![Op::Create { id: X, st: 0, ttl: 0 }, Op::Create { id: Y, st: 1, ttl: 0 }]),
    ]
}

/// Instance `variant` (0 = on x, 1 = on y, 2 = on x with other parameters) of op kind `k`.
fn inst(k: usize, variant: usize) -> Op {
    match (k, variant) {
        (0, 0) => Op::Create { id: X, st: 2, ttl: 1 },
        (0, 1) => Op::Create { id: Y, st: 1, ttl: 0 },
        (0, _) => Op::Create { id: X, st: 1, ttl: 1 },
        (1, 0) => Op::Update { id: X, st: 1, ttl: 1 },
        (1, 1) => Op::Update { id: Y, st: 2, ttl: 0 },
        (1, _) => Op::Update { id: X, st: 2, ttl: 0 },
        (2, 0) => Op::UpdateTtl { id: X, ttl: 0 },
        (2, 1) => Op::UpdateTtl { id: Y, ttl: 1 },
        (2, _) => Op::UpdateTtl { id: X, ttl: 1 },
        (3, 1) => Op::Load { id: Y },
        (3, _) => Op::Load { id: X },
        (4, 1) => Op::Delete { id: Y },
        (4, _) => Op::Delete { id: X },
        (5, 1) => Op::ChangeId { old: Y, new: X },
        (5, _) => Op::ChangeId { old: X, new: Y },
        (6, 1) => Op::DeleteExpired { batch: 1 },
        (_, _) => Op::DeleteExpired { batch: 0 },
    }
}

const VN: [&str; 3] = ["A", "B", "A'"];

/// The harness set. Every unordered pair of op kinds (28) runs concurrently, in 2-4 instantiations
/// on the two colliding ids, next to an observer task [load(x); load(y)], from 6 initial contents.
/// Thorough adds, for every pair of kinds, 3 tasks x 2 ops, and for every triple of distinct kinds
/// three single-op mutator tasks next to the observer (4 tasks).
pub fn harnesses(thorough: bool) -> Vec<Harness> {
    let mut v = Vec::new();
    let observer = vec![Op::Load { id: X }, Op::Load { id: Y }];
    // hand-written ones first (named in DESIGN.md)
    for (iname, init) in inits() {
        if iname == "x=live" || iname == "x=live,y=live" || iname == "x=live,y=expired" {
            v.push(Harness {
                name: format!("hw1:change_id(x,y)||create(y)||load(x)@{iname}"),
                kinds: "change_id|create|load".into(),
                init: init.clone(),
                tasks: vec![
                    vec![Op::ChangeId { old: X, new: Y }],
                    vec![Op::Create { id: Y, st: 2, ttl: 1 }],
                    vec![Op::Load { id: X }],
                ],
            });
            v.push(Harness {
                name: format!("hw2:[change_id(x,y);change_id(y,x)]||[create(y);delete(y)]||[load(x);load(y)]@{iname}"),
                kinds: "change_id|create|delete|load".into(),
                init: init.clone(),
                tasks: vec![
                    vec![Op::ChangeId { old: X, new: Y }, Op::ChangeId { old: Y, new: X }],
                    vec![Op::Create { id: Y, st: 2, ttl: 1 }, Op::Delete { id: Y }],
                    observer.clone(),
                ],
            });
            v.push(Harness {
                name: format!("hw3:[update(x);load(x)]||[delete(x);create(x)]||[update_ttl(x,0);delete_expired]@{iname}"),
                kinds: "update|load|delete|create|update_ttl|delete_expired".into(),
                init: init.clone(),
                tasks: vec![
                    vec![Op::Update { id: X, st: 2, ttl: 1 }, Op::Load { id: X }],
                    vec![Op::Delete { id: X }, Op::Create { id: X, st: 1, ttl: 1 }],
                    vec![Op::UpdateTtl { id: X, ttl: 0 }, Op::DeleteExpired { batch: 0 }],
                ],
            });
        }
    }
    for k1 in 0..7 {
        for k2 in k1..7 {
            let combos: Vec<(usize, usize)> = if k1 == k2 { vec![(0, 2), (0, 1)] } else { vec![(0, 0), (0, 1), (1, 0), (1, 1)] };
            for (v1, v2) in combos {
                for (iname, init) in inits() {
                    v.push(Harness {
                        name: format!("pair:{}{}||{}{}||obs@{}", KINDS[k1], VN[v1], KINDS[k2], VN[v2], iname),
                        kinds: format!("{}|{}", KINDS[k1], KINDS[k2]),
                        init: init.clone(),
                        tasks: vec![vec![inst(k1, v1)], vec![inst(k2, v2)], observer.clone()],
                    });
                }
            }
            if thorough {
                for (iname, init) in inits() {
                    let (t1, t2) = if k1 == k2 {
                        (vec![inst(k1, 0), inst(k1, 1)], vec![inst(k1, 2), inst(k1, 1)])
                    } else {
                        (vec![inst(k1, 0), inst(k2, 1)], vec![inst(k2, 0), inst(k1, 1)])
                    };
                    v.push(Harness {
                        name: format!("pair2:[{};{}]||[{};{}]||obs@{}", t1[0].short(), t1[1].short(), t2[0].short(), t2[1].short(), iname),
                        kinds: format!("{}|{}", KINDS[k1], KINDS[k2]),
                        init: init.clone(),
                        tasks: vec![t1, t2, observer.clone()],
                    });
                }
            }
        }
    }
    if thorough {
        // every unordered triple of distinct op kinds, three mutator tasks next to the observer
        for k1 in 0..7 {
            for k2 in (k1 + 1)..7 {
                for k3 in (k2 + 1)..7 {
                    for (iname, init) in inits() {
                        v.push(Harness {
                            name: format!("triple:{}A||{}A||{}B||obs@{}", KINDS[k1], KINDS[k2], KINDS[k3], iname),
                            kinds: format!("{}|{}|{}", KINDS[k1], KINDS[k2], KINDS[k3]),
                            init: init.clone(),
                            tasks: vec![vec![inst(k1, 0)], vec![inst(k2, 0)], vec![inst(k3, 1)], observer.clone()],
                        });
                    }
                }
            }
        }
    }
    v
}

// ---------------------------------------------------------------------------------------------
// Part 2: one run of a harness on the in-memory store under a plan
// ---------------------------------------------------------------------------------------------

#[derive(Clone, Debug)]
enum Ev {
    Call(u8, u8),
    Ret(u8, u8, Out),
}

struct RunCtx {
    store: Rc<InMemorySessionStore>,
    log: Rc<RefCell<Vec<Ev>>>,
}

fn mk_run(fx: &Rc<Fixtures>, h: &Harness) -> (Vec<Task>, RunCtx) {
    let store = Rc::new(InMemorySessionStore::new());
    for op in &h.init {
        let _ = block_on(exec_op(&*store, fx, *op));
    }
    let log: Rc<RefCell<Vec<Ev>>> = Rc::new(RefCell::new(Vec::new()));
    let mut tasks: Vec<Task> = Vec::new();
    for (t, ops) in h.tasks.iter().enumerate() {
        let (store, fx, log, ops) = (store.clone(), fx.clone(), log.clone(), ops.clone());
        tasks.push(Box::pin(async move {
            for (j, op) in ops.iter().enumerate() {
                log.borrow_mut().push(Ev::Call(t as u8, j as u8));
                let out = exec_op_caught(&*store, &fx, *op).await;
                log.borrow_mut().push(Ev::Ret(t as u8, j as u8, out));
            }
        }));
    }
    (tasks, RunCtx { store, log })
}

/// Model state set after the harness' initial operations (they run sequentially before the tasks).
/// `None` if the initial operations themselves do not conform (reported by part 1, not here).
fn init_mset(fx: &Fixtures, tbl: &Table, h: &Harness) -> Option<u32> {
    let store = InMemorySessionStore::new();
    let mut ck = Checker::new();
    for (i, op) in h.init.iter().enumerate() {
        let out = block_on(exec_op(&store, fx, *op));
        if ck.on_op(tbl, "mem", i, *op, tbl.op_index(*op), &out).is_some() {
            return None;
        }
    }
    Some(ck.mset)
}

pub struct RunRec {
    pub hops: Vec<HOp>,
    pub key: Vec<u8>,
    pub outcome_key: Vec<u8>,
    pub pretty: Vec<String>,
    pub results: Vec<(Op, Out)>,
}

fn finish_run(fx: &Fixtures, tbl: &Table, h: &Harness, out: &SchedOut, ctx: RunCtx) -> RunRec {
    let log = ctx.log.borrow().clone();
    let mut hops: Vec<HOp> = Vec::new();
    let mut key: Vec<u8> = Vec::new();
    let mut pretty = Vec::new();
    let mut results = Vec::new();
    let mut outcome_key = Vec::new();
    // index ops by (task, j)
    let mut pos: HashMap<(u8, u8), usize> = HashMap::new();
    for (i, ev) in log.iter().enumerate() {
        match ev {
            Ev::Call(t, j) => {
                let op = h.tasks[*t as usize][*j as usize];
                pos.insert((*t, *j), hops.len());
                hops.push(HOp { call: i as u32, ret: u32::MAX, op_idx: tbl.op_index(op) as u16, outcode: crate::model::OC_BAD });
                key.extend_from_slice(&[0, *t, *j]);
                pretty.push(format!("t{t} call {}", op.short()));
            }
            Ev::Ret(t, j, o) => {
                let op = h.tasks[*t as usize][*j as usize];
                let p = pos[&(*t, *j)];
                hops[p].ret = i as u32;
                hops[p].outcode = o.code();
                key.extend_from_slice(&[1, *t, *j, o.code()]);
                pretty.push(format!("t{t} ret  {} -> {}", op.short(), o.short()));
                results.push((op, o.clone()));
            }
        }
    }
    // per-op outcomes in task order (schedule independent identification of the outcome)
    for (t, ops) in h.tasks.iter().enumerate() {
        for j in 0..ops.len() {
            outcome_key.push(pos.get(&(t as u8, j as u8)).map(|p| hops[*p].outcode).unwrap_or(254));
        }
    }
    if !out.deadlock {
        // final observation: both ids are loaded after every task has finished
        let base = log.len() as u32;
        for id in 0..2u8 {
            let op = Op::Load { id };
            let o = block_on(exec_op(&*ctx.store, fx, op));
            hops.push(HOp { call: base + 2 * id as u32, ret: base + 2 * id as u32 + 1, op_idx: tbl.op_index(op) as u16, outcode: o.code() });
            key.extend_from_slice(&[2, id, o.code()]);
            outcome_key.push(o.code());
            pretty.push(format!("final {} -> {}", op.short(), o.short()));
        }
    }
    RunRec { hops, key, outcome_key, pretty, results }
}

pub struct HarnessResult {
    pub name: String,
    pub schedules: u64,
    pub runs: u64,
    pub steps: u64,
    pub distinct_histories: usize,
    pub distinct_outcomes: usize,
    pub max_preemptions: usize,
    pub skipped_init: bool,
    /// the per-harness run cap was hit before every schedule had been visited
    pub capped: bool,
    pub violation: Option<(VInfo, Value)>,
    pub hist: [[u64; N_OUTCODES]; 7],
    pub sample: Option<Value>,
}

/// Explore every schedule of one harness: passes with preemption bound 0, 1, 2 (ordering
/// heuristic: a violation is found with as few preemptions as possible), then the unbounded DFS.
/// Cap on the schedules executed per harness (set by main from the tier).
pub static RUN_CAP: std::sync::atomic::AtomicU64 = std::sync::atomic::AtomicU64::new(200_000);

pub fn explore_harness(fx: &Rc<Fixtures>, tbl: &Table, h: &Harness) -> HarnessResult {
    let mut res = HarnessResult {
        name: h.name.clone(),
        schedules: 0,
        runs: 0,
        steps: 0,
        distinct_histories: 0,
        distinct_outcomes: 0,
        max_preemptions: 0,
        skipped_init: false,
        capped: false,
        violation: None,
        hist: [[0; N_OUTCODES]; 7],
        sample: None,
    };
    let Some(init) = init_mset(fx, tbl, h) else {
        res.skipped_init = true;
        return res;
    };
    let mut verdicts: HashMap<Vec<u8>, bool> = HashMap::new();
    let mut outcomes: BTreeSet<Vec<u8>> = BTreeSet::new();
    let n_ops = h.n_ops();
    let mut violation: Option<(VInfo, Value)> = None;
    let mut sample: Option<Value> = None;
    let mut hist = [[0u64; N_OUTCODES]; 7];
    // Per-harness cap on executed schedules: a change that multiplies the lock acquisitions of an operation (a store split into
    // shards, a retry loop) multiplies the schedule space; the preemption-bounded passes (0, 1, 2) come first, so what is cut is
    // the tail of the unbounded pass. On the unchanged tree the largest harness stays far below the cap (evidence: largest_harness).
    let cap = RUN_CAP.load(Ordering::SeqCst);
    let mut runs_total = 0u64;
    let mut capped = false;
    for bound in [Some(0), Some(1), Some(2), None] {
        let stats = explore(
            || mk_run(fx, h),
            bound,
            |out, ctx| {
                runs_total += 1;
                if runs_total > cap {
                    capped = true;
                    return false;
                }
                let rec = finish_run(fx, tbl, h, out, ctx);
                if out.deadlock {
                    violation = Some((
                        VInfo {
                            key: format!("mem:deadlock:{}", h.kinds),
                            what: format!(
                                "deadlock in harness {} ({}): tasks {:?} never finished under schedule {:?}",
                                h.name,
                                h.describe(),
                                out.unfinished,
                                out.schedule()
                            ),
                            step: 0,
                        },
                        json!({"part":"conc","harness":h.to_json(),"schedule":out.schedule()}),
                    ));
                    return false;
                }
                // a task with k ops needs k+1 polls when every lock acquisition yields once
                if out.steps.len() < n_ops + h.tasks.len() {
                    machinery_error(&format!(
                        "hook H3 not live: harness {} finished {} ops in {} polls (every lock acquisition must yield once)",
                        h.name,
                        n_ops,
                        out.steps.len()
                    ));
                }
                if bound.is_none() {
                    for (op, o) in &rec.results {
                        hist[op.kind()][outcode_index(o.code())] += 1;
                    }
                }
                outcomes.insert(rec.outcome_key.clone());
                let ok = match verdicts.get(&rec.key) {
                    Some(v) => *v,
                    None => {
                        let w = linearizable(tbl, init, &rec.hops);
                        if sample.is_none() && out.preemptions() >= 2 {
                            if let Some(order) = &w {
                                sample = Some(json!({
                                    "harness": h.name,
                                    "schedule": out.schedule(),
                                    "preemptions": out.preemptions(),
                                    "events": rec.pretty,
                                    "linearization_witness(op indices in call order)": order,
                                }));
                            }
                        }
                        verdicts.insert(rec.key.clone(), w.is_some());
                        w.is_some()
                    }
                };
                if !ok {
                    // determinism: the same schedule must give the same history again
                    let sched = out.schedule();
                    let (tasks, ctx2) = mk_run(fx, h);
                    let out2 = run_tasks(tasks, Plan::Ids(&sched));
                    let rec2 = finish_run(fx, tbl, h, &out2, ctx2);
                    if rec2.key != rec.key {
                        machinery_error(&format!("nondeterministic: schedule {:?} of harness {} gave two different histories", sched, h.name));
                    }
                    violation = Some((
                        VInfo {
                            key: format!("mem:nonlinearizable:{}", h.kinds),
                            what: format!(
                                "history not linearizable w.r.t. the map-with-expiry model from {}: harness {} ({}), schedule {:?} ({} preemptions): {}",
                                mset_describe(init),
                                h.name,
                                h.describe(),
                                sched,
                                out.preemptions(),
                                rec.pretty.join("; ")
                            ),
                            step: 0,
                        },
                        json!({"part":"conc","harness":h.to_json(),"schedule":sched}),
                    ));
                    return false;
                }
                true
            },
        );
        res.runs += stats.runs;
        res.steps += stats.steps;
        res.max_preemptions = res.max_preemptions.max(stats.max_preemptions);
        if violation.is_some() || capped {
            break;
        }
        if bound.is_none() {
            // the unbounded pass visits every schedule exactly once
            res.schedules = stats.runs;
        }
    }
    res.distinct_histories = verdicts.len();
    res.distinct_outcomes = outcomes.len();
    res.violation = violation;
    res.capped = capped;
    if capped {
        res.schedules = runs_total;
    }
    res.hist = hist;
    res.sample = sample;
    res
}

pub struct ConcResult {
    pub harnesses: usize,
    pub schedules: u64,
    pub runs: u64,
    pub steps: u64,
    pub distinct_histories: u64,
    pub harnesses_with_multiple_outcomes: usize,
    pub max_outcomes: usize,
    pub max_preemptions: usize,
    pub skipped_init: usize,
    pub capped_harnesses: Vec<String>,
    pub lock_calls: usize,
    pub pair_kinds_with_conflict: usize,
    pub pair_kinds_total: usize,
    pub pair_kinds_without_conflict: Vec<String>,
    pub violations: Vec<(VInfo, Value)>,
    pub hist: Stats,
    pub samples: Vec<Value>,
    pub largest: (String, u64),
    pub wall_s: f64,
}

pub fn run_conc_mem(tbl: &Table, hs: &[Harness]) -> ConcResult {
    use pavex_session_memory_store::verif::{LOCK_CALLS, YIELD_BEFORE_LOCK};
    let t0 = std::time::Instant::now();
    YIELD_BEFORE_LOCK.store(true, Ordering::SeqCst);
    let lc0 = LOCK_CALLS.load(Ordering::SeqCst);
    let next = AtomicUsize::new(0);
    let n_threads = crate::seq::n_threads();
    let mut results: Vec<(usize, HarnessResult)> = std::thread::scope(|s| {
        let mut handles = Vec::new();
        for _ in 0..n_threads {
            handles.push(s.spawn(|| {
                let fx = Rc::new(Fixtures::new());
                let mut out = Vec::new();
                loop {
                    let j = next.fetch_add(1, Ordering::SeqCst);
                    if j >= hs.len() {
                        break;
                    }
                    out.push((j, explore_harness(&fx, tbl, &hs[j])));
                }
                out
            }));
        }
        handles
            .into_iter()
            .flat_map(|h| h.join().unwrap_or_else(|_| machinery_error("concurrency worker panicked")))
            .collect()
    });
    results.sort_by_key(|r| r.0);
    let lock_calls = LOCK_CALLS.load(Ordering::SeqCst) - lc0;
    YIELD_BEFORE_LOCK.store(false, Ordering::SeqCst);
    let mut cr = ConcResult {
        harnesses: hs.len(),
        schedules: 0,
        runs: 0,
        steps: 0,
        distinct_histories: 0,
        harnesses_with_multiple_outcomes: 0,
        max_outcomes: 0,
        max_preemptions: 0,
        skipped_init: 0,
        capped_harnesses: Vec::new(),
        lock_calls,
        pair_kinds_with_conflict: 0,
        pair_kinds_total: 0,
        pair_kinds_without_conflict: Vec::new(),
        violations: Vec::new(),
        hist: Stats::default(),
        samples: Vec::new(),
        largest: (String::new(), 0),
        wall_s: 0.0,
    };
    let mut kinds_conflict: HashMap<String, bool> = HashMap::new();
    let mut raw_viols: Vec<(usize, (VInfo, Value))> = Vec::new();
    for (j, r) in results {
        let h = &hs[j];
        cr.schedules += r.schedules;
        cr.runs += r.runs;
        cr.steps += r.steps;
        cr.distinct_histories += r.distinct_histories as u64;
        if r.distinct_outcomes > 1 {
            cr.harnesses_with_multiple_outcomes += 1;
        }
        cr.max_outcomes = cr.max_outcomes.max(r.distinct_outcomes);
        cr.max_preemptions = cr.max_preemptions.max(r.max_preemptions);
        if r.skipped_init {
            cr.skipped_init += 1;
        }
        if r.capped {
            cr.capped_harnesses.push(r.name.clone());
        }
        if r.schedules > cr.largest.1 {
            cr.largest = (r.name.clone(), r.schedules);
        }
        if h.name.starts_with("pair:") {
            let e = kinds_conflict.entry(h.kinds.clone()).or_insert(false);
            if r.distinct_outcomes > 1 {
                *e = true;
            }
        }
        for k in 0..7 {
            for c in 0..N_OUTCODES {
                cr.hist.hist[k][c] += r.hist[k][c];
            }
        }
        if let Some(s) = r.sample {
            if cr.samples.len() < 2 {
                cr.samples.push(s);
            }
        }
        if r.violation.is_none() && !r.skipped_init && r.schedules < 2 {
            machinery_error(&format!("harness {} has only {} schedule(s): hook H3 not live", r.name, r.schedules));
        }
        if let Some(v) = r.violation {
            raw_viols.push((j, v));
        }
    }
    // Collapse the per-harness violations to few keys: a greedy hitting set over the (mutating) op
    // kinds of the violating harnesses — a non-atomic operation shows up in every harness that
    // contains it, and only there.
    for class in ["nonlinearizable", "deadlock"] {
        let mut open: Vec<(usize, VInfo, Value)> = raw_viols
            .iter()
            .filter(|(_, (v, _))| v.key.starts_with(&format!("mem:{class}:")))
            .map(|(j, (v, c))| (*j, v.clone(), c.clone()))
            .collect();
        while !open.is_empty() {
            let kinds_of = |j: usize| -> Vec<&str> {
                let all: Vec<&str> = hs[j].kinds.split('|').collect();
                let non_load: Vec<&str> = all.iter().copied().filter(|k| *k != "load").collect();
                if non_load.is_empty() { all } else { non_load }
            };
            let mut best: Option<(&str, usize)> = None;
            for k in KINDS {
                let n = open.iter().filter(|(j, _, _)| kinds_of(*j).contains(&k)).count();
                if n > 0 && best.map(|b| n > b.1).unwrap_or(true) {
                    best = Some((k, n));
                }
            }
            let Some((kind, n)) = best else { break };
            let (covered, rest): (Vec<_>, Vec<_>) = open.into_iter().partition(|(j, _, _)| kinds_of(*j).contains(&kind));
            open = rest;
            let pick = covered
                .iter()
                .min_by_key(|(j, _, _)| (hs[*j].n_ops(), hs[*j].init.len(), hs[*j].name.clone()))
                .unwrap();
            let mut v = pick.1.clone();
            v.key = format!("mem:{class}:involving={kind}");
            v.what = format!("{} ({} violating harnesses collapse to this key; every one of them runs {kind} concurrently)", v.what, n);
            cr.violations.push((v, pick.2.clone()));
        }
    }
    cr.pair_kinds_total = kinds_conflict.len();
    cr.pair_kinds_with_conflict = kinds_conflict.values().filter(|b| **b).count();
    cr.pair_kinds_without_conflict = kinds_conflict.iter().filter(|(_, b)| !**b).map(|(k, _)| k.clone()).collect();
    cr.pair_kinds_without_conflict.sort();
    cr.wall_s = t0.elapsed().as_secs_f64();
    if hs.is_empty() {
        return cr;
    }
    if cr.lock_calls == 0 {
        machinery_error("hook H3 not live: LOCK_CALLS did not move during the concurrency part");
    }
    if cr.violations.is_empty() && cr.skipped_init == 0 && cr.harnesses_with_multiple_outcomes == 0 {
        machinery_error("vacuous concurrency exploration: no harness produced more than one distinct outcome");
    }
    cr
}

impl ConcResult {
    pub fn to_json(&self) -> Value {
        json!({
            "harnesses": self.harnesses,
            "schedules(complete unbounded DFS, summed over harnesses)": self.schedules,
            "executions_including_bounded_passes": self.runs,
            "scheduler_steps": self.steps,
            "distinct_call_return_histories": self.distinct_histories,
            "harnesses_with_more_than_one_outcome": self.harnesses_with_multiple_outcomes,
            "max_distinct_outcomes_in_one_harness": self.max_outcomes,
            "max_preemptions_in_one_schedule": self.max_preemptions,
            "op_kind_pairs_total": self.pair_kinds_total,
            "op_kind_pairs_whose_outcome_depends_on_the_schedule": self.pair_kinds_with_conflict,
            "op_kind_pairs_never_conflicting(expected: load|load, and delete_expired|load because expired == absent for load)": self.pair_kinds_without_conflict,
            "harnesses_skipped_because_init_not_conformant": self.skipped_init,
            "harnesses_cut_by_the_run_cap": self.capped_harnesses.iter().take(20).collect::<Vec<_>>(),
            "run_cap_per_harness": RUN_CAP.load(Ordering::SeqCst),
            "LOCK_CALLS": self.lock_calls,
            "largest_harness": {"name": self.largest.0, "schedules": self.largest.1},
            "outcome_histogram(over all schedules)": self.hist.hist_json(),
            "wall_s": self.wall_s,
        })
    }
}

/// `--replay` of a part-2 case: run exactly that schedule.
pub fn replay_conc(tbl: &Table, case: &Value) -> bool {
    use pavex_session_memory_store::verif::YIELD_BEFORE_LOCK;
    YIELD_BEFORE_LOCK.store(true, Ordering::SeqCst);
    let h = Harness::from_json(case.get("harness").unwrap_or(&Value::Null)).unwrap_or_else(|| machinery_error("replay: malformed harness"));
    let sched: Vec<u8> = case
        .get("schedule")
        .and_then(|s| s.as_array())
        .map(|a| a.iter().filter_map(|x| x.as_u64()).map(|x| x as u8).collect())
        .unwrap_or_else(|| machinery_error("replay: malformed schedule"));
    let fx = Rc::new(Fixtures::new());
    let Some(init) = init_mset(&fx, tbl, &h) else {
        println!("initial operations of the harness do not conform to the model any more (see sequential part)");
        return true;
    };
    println!("harness: {}", h.describe());
    println!("schedule (task polled at each step): {:?}", sched);
    let (tasks, ctx) = mk_run(&fx, &h);
    let out = run_tasks(tasks, Plan::Ids(&sched));
    let rec = finish_run(&fx, tbl, &h, &out, ctx);
    if out.skipped_ids > 0 {
        println!(
            "note: {} entries of the recorded schedule could not be followed on this build (the task was not runnable); actual schedule: {:?}",
            out.skipped_ids,
            out.schedule()
        );
    }
    for l in &rec.pretty {
        println!("  {l}");
    }
    if out.deadlock {
        println!("observed: DEADLOCK (unfinished tasks {:?}); expected: every task finishes", out.unfinished);
        return true;
    }
    match linearizable(tbl, init, &rec.hops) {
        Some(order) => {
            println!("observed history IS linearizable from {} (witness order of ops by call index: {:?})", mset_describe(init), order);
            false
        }
        None => {
            println!("observed history is NOT linearizable from {}; expected: some sequential order explains all results", mset_describe(init));
            true
        }
    }
}

// ---------------------------------------------------------------------------------------------
// Part 3: SQLite, operation-granular merges
// ---------------------------------------------------------------------------------------------

fn merges(tasks: &[Vec<Op>]) -> Vec<Vec<u8>> {
    fn go(tasks: &[Vec<Op>], pos: &mut Vec<usize>, cur: &mut Vec<u8>, out: &mut Vec<Vec<u8>>) {
        let mut any = false;
        for t in 0..tasks.len() {
            if pos[t] < tasks[t].len() {
                any = true;
                pos[t] += 1;
                cur.push(t as u8);
                go(tasks, pos, cur, out);
                cur.pop();
                pos[t] -= 1;
            }
        }
        if !any {
            out.push(cur.clone());
        }
    }
    let mut out = Vec::new();
    go(tasks, &mut vec![0; tasks.len()], &mut Vec::new(), &mut out);
    out
}

pub struct MergeResult {
    pub harnesses: usize,
    pub merges: u64,
    pub op_execs: u64,
    pub sink: VSink,
    pub stats: Stats,
    pub wall_s: f64,
}

/// Every op of `SqliteSessionStore` is exactly one SQL statement, so at operation granularity a
/// concurrent execution IS one of the merges of the tasks' op sequences; each merge is executed
/// sequentially against the real store and must conform to the model (the merge order itself is
/// the linearization).
pub fn run_sqlite_merges(tbl: &Table, hs: &[Harness]) -> MergeResult {
    let t0 = std::time::Instant::now();
    let next = AtomicUsize::new(0);
    let n_threads = crate::seq::n_threads();
    let parts: Vec<(u64, u64, VSink, Stats)> = std::thread::scope(|s| {
        let mut handles = Vec::new();
        for _ in 0..n_threads {
            handles.push(s.spawn(|| {
                let rt = current_thread_rt();
                let fx = Fixtures::new();
                rt.block_on(async {
                    let mut sq = Sq::new(1).await;
                    let mut sink = VSink::default();
                    let mut stats = Stats::default();
                    let (mut n_merges, mut n_ops) = (0u64, 0u64);
                    loop {
                        let j = next.fetch_add(1, Ordering::SeqCst);
                        if j >= hs.len() {
                            break;
                        }
                        let h = &hs[j];
                        for m in merges(&h.tasks) {
                            let mut hist = h.init.clone();
                            let mut pos = vec![0usize; h.tasks.len()];
                            for t in &m {
                                hist.push(h.tasks[*t as usize][pos[*t as usize]]);
                                pos[*t as usize] += 1;
                            }
                            for mode in [Mode::Past, Mode::Gap] {
                                let trace = sq_exec_scratch(&mut sq, &fx, mode, &hist, &mut stats.guard_retries).await;
                                n_merges += 1;
                                n_ops += hist.len() as u64 * 3;
                                for (i, (o, _)) in trace.iter().enumerate() {
                                    stats.hist[hist[i].kind()][outcode_index(o.code())] += 1;
                                }
                                for v in sq_check_trace(tbl, &hist, &trace, false) {
                                    stats.violating_steps += 1;
                                    sink.add(v, || {
                                        json!({"part":"seq","backend":"sqlite","mode":mode.name(),"history":ops_to_json(&hist),
                                               "origin": format!("part 3: merge {:?} of harness {}", m, h.name)})
                                    });
                                }
                            }
                        }
                    }
                    stats.stmts = sq.stmts;
                    sq.pool.close().await;
                    (n_merges, n_ops, sink, stats)
                })
            }));
        }
        handles
            .into_iter()
            .map(|h| h.join().unwrap_or_else(|_| machinery_error("sqlite merge worker panicked")))
            .collect()
    });
    let mut r = MergeResult { harnesses: hs.len(), merges: 0, op_execs: 0, sink: VSink::default(), stats: Stats::default(), wall_s: 0.0 };
    for (m, o, s, st) in parts {
        r.merges += m;
        r.op_execs += o;
        r.sink.merge(s);
        r.stats.merge(&st);
    }
    r.wall_s = t0.elapsed().as_secs_f64();
    r
}

/// Free-running multi-thread smoke run on SQLite. SAMPLED — not part of the verdict.
pub fn sqlite_smoke(tbl: &Table, hs: &[Harness], rounds: usize) -> Value {
    use std::sync::Arc;
    use std::sync::atomic::AtomicU32;
    let rt = tokio::runtime::Builder::new_multi_thread()
        .worker_threads(4)
        .enable_all()
        .build()
        .unwrap_or_else(|e| machinery_error(&format!("cannot build tokio runtime: {e}")));
    let picks: Vec<&Harness> = hs
        .iter()
        .filter(|h| h.init.iter().chain(h.tasks.iter().flatten()).all(|o| !o.writes_ttl0()))
        .collect();
    if picks.is_empty() {
        return json!({"label": "sampled, not part of the verdict", "rounds": 0});
    }
    let fx = Arc::new(Fixtures::new());
    let (mut lin_ok, mut lin_bad, mut errors, mut overlapping) = (0u64, 0u64, 0u64, 0u64);
    let mut first_bad: Option<Value> = None;
    rt.block_on(async {
        let mut sq = Sq::new(4).await;
        for r in 0..rounds {
            let h = picks[(r * 7919) % picks.len()];
            sq.reset().await;
            let mut ck = Checker::new();
            let mut init_ok = true;
            for (i, op) in h.init.iter().enumerate() {
                let out = exec_op(&sq.store, &fx, *op).await;
                if ck.on_op(tbl, "sqlite", i, *op, tbl.op_index(*op), &out).is_some() {
                    init_ok = false;
                }
            }
            if !init_ok {
                continue;
            }
            let clock = Arc::new(AtomicU32::new(0));
            let barrier = Arc::new(tokio::sync::Barrier::new(h.tasks.len()));
            let mut handles = Vec::new();
            for ops in h.tasks.iter() {
                let (store, fx, clock, barrier, ops) = (sq.store.clone(), fx.clone(), clock.clone(), barrier.clone(), ops.clone());
                handles.push(tokio::spawn(async move {
                    barrier.wait().await;
                    let mut recs = Vec::new();
                    for op in ops {
                        let c = clock.fetch_add(1, Ordering::SeqCst);
                        let out = exec_op(&store, &fx, op).await;
                        let r = clock.fetch_add(1, Ordering::SeqCst);
                        recs.push((op, c, r, out));
                    }
                    recs
                }));
            }
            let mut hops = Vec::new();
            let mut pretty = Vec::new();
            let mut had_error = false;
            for hd in handles {
                match hd.await {
                    Ok(recs) => {
                        for (op, c, r, out) in recs {
                            if matches!(out, Out::Error(_) | Out::Panic(_)) {
                                had_error = true;
                            }
                            pretty.push(format!("[{c},{r}] {} -> {}", op.short(), out.short()));
                            hops.push(HOp { call: c, ret: r, op_idx: tbl.op_index(op) as u16, outcode: out.code() });
                        }
                    }
                    Err(_) => had_error = true,
                }
            }
            let base = clock.load(Ordering::SeqCst);
            for id in 0..2u8 {
                let op = Op::Load { id };
                let out = exec_op(&sq.store, &fx, op).await;
                pretty.push(format!("final {} -> {}", op.short(), out.short()));
                hops.push(HOp { call: base + 2 * id as u32, ret: base + 2 * id as u32 + 1, op_idx: tbl.op_index(op) as u16, outcode: out.code() });
            }
            if hops.iter().any(|a| hops.iter().any(|b| a.call < b.call && b.call < a.ret)) {
                overlapping += 1;
            }
            if had_error {
                errors += 1;
            }
            if linearizable(tbl, ck.mset, &hops).is_some() {
                lin_ok += 1;
            } else {
                lin_bad += 1;
                if first_bad.is_none() {
                    first_bad = Some(json!({"harness": h.name, "events": pretty}));
                }
            }
        }
        sq.pool.close().await;
    });
    let _ = EMPTY_MSET;
    let _ = outcode_name;
    json!({
        "label": "SAMPLED free-running multi-thread run (4 worker threads, pool of 4 connections); NOT part of the verdict",
        "rounds": rounds,
        "histories_with_overlapping_ops": overlapping,
        "linearizable_under_reference": lin_ok,
        "not_explained_by_reference(includes the sequential deviations reported by part 1)": lin_bad,
        "rounds_with_other_errors": errors,
        "first_unexplained": first_bad,
    })
}
