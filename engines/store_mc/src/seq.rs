//! Part 1: sequential conformance of both backends, all histories up to a depth.
use crate::backend::{Fixtures, Mode, Snap, Sq, block_on, current_thread_rt, exec_op, now_sec};
use crate::model::{Checker, EMPTY_MSET, KINDS, N_OUTCODES, Op, Out, Table, VInfo, ops_to_json, outcode_index, outcode_name};
use pavex_session_memory_store::InMemorySessionStore;
use serde_json::{Value, json};
use std::collections::BTreeMap;
use std::panic::{AssertUnwindSafe, catch_unwind};
use std::sync::atomic::{AtomicBool, AtomicUsize, Ordering};
use std::time::Instant;
use verif_common::machinery_error;

#[derive(Default)]
pub struct VSink {
    pub map: BTreeMap<String, (VInfo, Value, u64)>,
}
impl VSink {
    /// Keep, per key, the smallest case (shortest history, then lexicographically smallest JSON) so
    /// that the reported reproduction is minimal and independent of worker scheduling.
    pub fn add(&mut self, v: VInfo, case: impl FnOnce() -> Value) {
        match self.map.get_mut(&v.key) {
            Some(e) => {
                e.2 += 1;
                if v.step < e.0.step {
                    *e = (v, case(), e.2);
                } else if v.step == e.0.step {
                    let c = case();
                    if Self::rank(&c) < Self::rank(&e.1) {
                        *e = (v, c, e.2);
                    }
                }
            }
            None => {
                let k = v.key.clone();
                self.map.insert(k, (v, case(), 1));
            }
        }
    }
    fn rank(case: &Value) -> (usize, String) {
        let n = case.get("history").and_then(|h| h.as_array()).map(|a| a.len()).unwrap_or(usize::MAX);
        (n, case.to_string())
    }
    pub fn merge(&mut self, other: VSink) {
        for (k, (v, c, n)) in other.map {
            match self.map.get_mut(&k) {
                Some(e) => {
                    e.2 += n;
                    if (v.step, Self::rank(&c)) < (e.0.step, Self::rank(&e.1)) {
                        e.0 = v;
                        e.1 = c;
                    }
                }
                None => {
                    self.map.insert(k, (v, c, n));
                }
            }
        }
    }
    pub fn total(&self) -> u64 {
        self.map.values().map(|e| e.2).sum()
    }
}

#[derive(Clone)]
pub struct Stats {
    pub histories: u64,
    pub by_len: [u64; 8],
    pub op_execs: u64,
    pub nontrivial: u64,
    pub hist: [[u64; N_OUTCODES]; 7],
    pub probe_hist: [u64; N_OUTCODES],
    pub guard_retries: u64,
    pub crosschecked: u64,
    pub stmts: u64,
    pub violating_steps: u64,
}
impl Default for Stats {
    fn default() -> Self {
        Stats {
            histories: 0,
            by_len: [0; 8],
            op_execs: 0,
            nontrivial: 0,
            hist: [[0; N_OUTCODES]; 7],
            probe_hist: [0; N_OUTCODES],
            guard_retries: 0,
            crosschecked: 0,
            stmts: 0,
            violating_steps: 0,
        }
    }
}
impl Stats {
    pub fn merge(&mut self, o: &Stats) {
        self.histories += o.histories;
        for i in 0..8 {
            self.by_len[i] += o.by_len[i];
        }
        self.op_execs += o.op_execs;
        self.nontrivial += o.nontrivial;
        for k in 0..7 {
            for c in 0..N_OUTCODES {
                self.hist[k][c] += o.hist[k][c];
            }
        }
        for c in 0..N_OUTCODES {
            self.probe_hist[c] += o.probe_hist[c];
        }
        self.guard_retries += o.guard_retries;
        self.crosschecked += o.crosschecked;
        self.stmts += o.stmts;
        self.violating_steps += o.violating_steps;
    }
    pub fn hist_json(&self) -> Value {
        let mut m = serde_json::Map::new();
        for k in 0..7 {
            let mut inner = serde_json::Map::new();
            for c in 0..N_OUTCODES {
                if self.hist[k][c] > 0 {
                    inner.insert(outcode_name(if c == 10 { 255 } else { c }), json!(self.hist[k][c]));
                }
            }
            m.insert(KINDS[k].to_string(), Value::Object(inner));
        }
        let mut inner = serde_json::Map::new();
        for c in 0..N_OUTCODES {
            if self.probe_hist[c] > 0 {
                inner.insert(outcode_name(if c == 10 { 255 } else { c }), json!(self.probe_hist[c]));
            }
        }
        if !inner.is_empty() {
            m.insert("probe_load".into(), Value::Object(inner));
        }
        Value::Object(m)
    }
    /// Number of (kind, outcome) oracle branches hit at least once.
    pub fn branches_hit(&self) -> usize {
        let mut n = 0;
        for k in 0..7 {
            for c in 0..N_OUTCODES {
                if self.hist[k][c] > 0 {
                    n += 1;
                }
            }
        }
        n
    }
}

pub struct SeqResult {
    pub backend: String,
    pub depth: usize,
    pub stats: Stats,
    pub sink: VSink,
    pub completed: bool,
    pub wall_s: f64,
    pub samples: Vec<Value>,
}

impl SeqResult {
    pub fn skipped(backend: &str) -> SeqResult {
        SeqResult { backend: format!("{backend} (SKIPPED by --only)"), depth: 0, stats: Stats::default(), sink: VSink::default(), completed: false, wall_s: 0.0, samples: vec![] }
    }
    pub fn to_json(&self) -> Value {
        json!({
            "backend": self.backend,
            "depth": self.depth,
            "completed": self.completed,
            "histories": self.stats.histories,
            "histories_by_length": self.stats.by_len[1..=self.depth.min(7)].to_vec(),
            "op_executions": self.stats.op_execs,
            "sql_statements": self.stats.stmts,
            "nontrivial_histories": self.stats.nontrivial,
            "outcome_histogram": self.stats.hist_json(),
            "oracle_branches_hit": self.stats.branches_hit(),
            "same_second_guard_retries": self.stats.guard_retries,
            "snapshot_vs_scratch_crosschecked": self.stats.crosschecked,
            "violating_steps": self.stats.violating_steps,
            "wall_s": self.wall_s,
        })
    }
}

fn empty_outcode(tbl: &Table, op_idx: usize) -> u8 {
    tbl.allowed(EMPTY_MSET, op_idx)[0]
}

pub fn n_threads() -> usize {
    if let Some(n) = std::env::var("STORE_MC_THREADS").ok().and_then(|s| s.parse::<usize>().ok()) {
        return n.max(1);
    }
    std::thread::available_parallelism().map(|n| n.get()).unwrap_or(4).max(1)
}

// ---------------------------------------------------------------------------------------------
// In-memory store
// ---------------------------------------------------------------------------------------------

struct MemCtx<'a> {
    fx: &'a Fixtures,
    tbl: &'a Table,
    load_idx: [usize; 2],
    max_depth: usize,
    stats: Stats,
    sink: VSink,
    hist: Vec<usize>,
    outs: Vec<u8>,
    samples: Vec<Value>,
}

/// Execute `hist` from scratch on a fresh store; returns the outcome of every op and the two final
/// probe loads. Panics of the subject are caught.
pub fn mem_exec_scratch(fx: &Fixtures, hist: &[Op]) -> Result<(Vec<Out>, [Out; 2]), String> {
    catch_unwind(AssertUnwindSafe(|| {
        let store = InMemorySessionStore::new();
        let mut outs = Vec::with_capacity(hist.len());
        for op in hist {
            outs.push(block_on(exec_op(&store, fx, *op)));
        }
        let probes = [
            block_on(exec_op(&store, fx, Op::Load { id: 0 })),
            block_on(exec_op(&store, fx, Op::Load { id: 1 })),
        ];
        (outs, probes)
    }))
    .map_err(|p| panic_msg(&p))
}

pub fn panic_msg(p: &Box<dyn std::any::Any + Send>) -> String {
    if let Some(s) = p.downcast_ref::<&str>() {
        s.to_string()
    } else if let Some(s) = p.downcast_ref::<String>() {
        s.clone()
    } else {
        "non-string panic payload".into()
    }
}

/// Standalone check of one in-memory history (replay / confirmation): every prefix is executed from
/// scratch, exactly like the DFS does.
pub fn mem_check_history(fx: &Fixtures, tbl: &Table, hist: &[Op], verbose: bool) -> Vec<VInfo> {
    let load_idx = [tbl.op_index(Op::Load { id: 0 }), tbl.op_index(Op::Load { id: 1 })];
    let mut ck = Checker::new();
    let mut viols = Vec::new();
    for k in 1..=hist.len() {
        let step = k - 1;
        match mem_exec_scratch(fx, &hist[..k]) {
            Err(p) => {
                viols.push(VInfo {
                    key: format!("mem:{}:panic", hist[step].kind_name()),
                    what: format!("step {step}: {} panicked: {p}", hist[step].short()),
                    step,
                });
                break;
            }
            Ok((outs, probes)) => {
                let out = &outs[step];
                if verbose {
                    println!(
                        "  step {step}: {:<28} -> {:<22} probes x={} y={}   model before: {}",
                        hist[step].short(),
                        out.short(),
                        probes[0].short(),
                        probes[1].short(),
                        crate::model::mset_describe(ck.mset)
                    );
                }
                let mut bad = false;
                if let Some(v) = ck.on_op(tbl, "mem", step, hist[step], tbl.op_index(hist[step]), out) {
                    viols.push(v);
                    bad = true;
                } else if let Some(v) = ck.on_probes(tbl, load_idx, "mem", step, &probes) {
                    viols.push(v);
                    bad = true;
                }
                if bad {
                    ck.resync(&probes);
                }
            }
        }
    }
    viols
}

impl<'a> MemCtx<'a> {
    /// Visit the node whose history is `self.hist` (last op is new). Returns the checker after it.
    fn visit(&mut self, mut ck: Checker, count: bool) -> Option<Checker> {
        let depth = self.hist.len();
        let ops: Vec<Op> = self.hist.iter().map(|i| self.tbl.ops[*i]).collect();
        let last_idx = self.hist[depth - 1];
        let last = ops[depth - 1];
        let step = depth - 1;
        match mem_exec_scratch(self.fx, &ops) {
            Err(p) => {
                if count {
                    self.stats.violating_steps += 1;
                    let v = VInfo {
                        key: format!("mem:{}:panic", last.kind_name()),
                        what: format!("step {step}: {} panicked: {p}", last.short()),
                        step,
                    };
                    self.sink.add(v, || json!({"part":"seq","backend":"mem","history":ops_to_json(&ops)}));
                }
                None
            }
            Ok((outs, probes)) => {
                for i in 0..step {
                    if outs[i].code() != self.outs[i] {
                        machinery_error(&format!(
                            "nondeterministic in-memory store: re-executed prefix gave a different outcome at step {i} of {:?}",
                            ops.iter().map(|o| o.short()).collect::<Vec<_>>()
                        ));
                    }
                }
                let out = &outs[step];
                let code = out.code();
                let mut viol = ck.on_op(self.tbl, "mem", step, last, last_idx, out);
                if viol.is_none() {
                    viol = ck.on_probes(self.tbl, self.load_idx, "mem", step, &probes);
                }
                if count {
                    self.stats.histories += 1;
                    self.stats.by_len[depth.min(7)] += 1;
                    self.stats.op_execs += depth as u64 + 2;
                    self.stats.hist[last.kind()][outcode_index(code)] += 1;
                    self.stats.probe_hist[outcode_index(probes[0].code())] += 1;
                    self.stats.probe_hist[outcode_index(probes[1].code())] += 1;
                    if code != empty_outcode(self.tbl, last_idx) {
                        self.stats.nontrivial += 1;
                        if self.samples.len() < 2 && depth >= 3 {
                            self.samples.push(json!({
                                "backend": "mem",
                                "history": ops.iter().map(|o| o.short()).collect::<Vec<_>>(),
                                "outcomes": outs.iter().map(|o| o.short()).collect::<Vec<_>>(),
                                "final_probes": [probes[0].short(), probes[1].short()],
                            }));
                        }
                    }
                }
                if let Some(v) = viol {
                    if count {
                        self.stats.violating_steps += 1;
                        self.sink.add(v, || json!({"part":"seq","backend":"mem","history":ops_to_json(&ops)}));
                    }
                    ck.resync(&probes);
                }
                self.outs.push(code);
                Some(ck)
            }
        }
    }

    fn dfs(&mut self, ck: Checker) {
        if let Some(ck2) = self.visit(ck, true) {
            if self.hist.len() < self.max_depth {
                for i in 0..self.tbl.ops.len() {
                    self.hist.push(i);
                    self.dfs(ck2);
                    self.hist.pop();
                }
            }
            self.outs.pop();
        }
    }
}

pub fn run_mem_seq(tbl: &Table, max_depth: usize, seed: i64, hard_deadline: Instant) -> SeqResult {
    let t0 = Instant::now();
    let n = tbl.ops.len();
    let mut jobs: Vec<(usize, usize)> = Vec::new();
    for a in 0..n {
        for b in 0..n {
            jobs.push((a, b));
        }
    }
    verif_common::rotate_by_seed(&mut jobs, seed);
    let next = AtomicUsize::new(0);
    let aborted = AtomicBool::new(false);
    let load_idx = [tbl.op_index(Op::Load { id: 0 }), tbl.op_index(Op::Load { id: 1 })];
    let results: Vec<(Stats, VSink, Vec<Value>)> = std::thread::scope(|s| {
        let mut hs = Vec::new();
        for _ in 0..n_threads() {
            hs.push(s.spawn(|| {
                let fx = Fixtures::new();
                let mut ctx = MemCtx {
                    fx: &fx,
                    tbl,
                    load_idx,
                    max_depth,
                    stats: Stats::default(),
                    sink: VSink::default(),
                    hist: Vec::new(),
                    outs: Vec::new(),
                    samples: Vec::new(),
                };
                loop {
                    let j = next.fetch_add(1, Ordering::SeqCst);
                    if j >= jobs.len() {
                        break;
                    }
                    if Instant::now() > hard_deadline {
                        aborted.store(true, Ordering::SeqCst);
                        break;
                    }
                    let (a, b) = jobs[j];
                    ctx.hist.clear();
                    ctx.outs.clear();
                    ctx.hist.push(a);
                    // the length-1 history [a] is counted by the job with b == 0 only
                    if let Some(ck1) = ctx.visit(Checker::new(), b == 0) {
                        if max_depth >= 2 {
                            ctx.hist.push(b);
                            ctx.dfs(ck1);
                            ctx.hist.pop();
                        }
                    }
                }
                (ctx.stats, ctx.sink, ctx.samples)
            }));
        }
        hs.into_iter()
            .map(|h| h.join().unwrap_or_else(|_| machinery_error("in-memory sequential worker panicked")))
            .collect()
    });
    let mut stats = Stats::default();
    let mut sink = VSink::default();
    let mut samples = Vec::new();
    for (s, k, sm) in results {
        stats.merge(&s);
        sink.merge(k);
        if samples.len() < 2 {
            samples.extend(sm);
        }
    }
    samples.truncate(2);
    SeqResult {
        backend: "mem".into(),
        depth: max_depth,
        stats,
        sink,
        completed: !aborted.load(Ordering::SeqCst),
        wall_s: t0.elapsed().as_secs_f64(),
        samples,
    }
}

// ---------------------------------------------------------------------------------------------
// SQLite
// ---------------------------------------------------------------------------------------------

/// Execute a history from scratch on SQLite: after every operation both ids are probed with `load`.
/// In gap mode the whole execution must fall within one wall-clock second (else it is repeated).
pub async fn sq_exec_scratch(sq: &mut Sq, fx: &Fixtures, mode: Mode, hist: &[Op], retries: &mut u64) -> Vec<(Out, [Out; 2])> {
    for _ in 0..50 {
        let s0 = now_sec();
        sq.reset().await;
        let mut trace = Vec::with_capacity(hist.len());
        for op in hist {
            let out = sq.exec(fx, mode, *op).await;
            let probes = sq.probes(fx).await;
            trace.push((out, probes));
        }
        if now_sec() == s0 {
            return trace;
        }
        *retries += 1;
    }
    machinery_error("sqlite: could not execute a history within one wall-clock second in 50 attempts")
}

/// Standalone check of one SQLite history (replay / confirmation / part 3).
pub fn sq_check_trace(tbl: &Table, hist: &[Op], trace: &[(Out, [Out; 2])], verbose: bool) -> Vec<VInfo> {
    let load_idx = [tbl.op_index(Op::Load { id: 0 }), tbl.op_index(Op::Load { id: 1 })];
    let mut ck = Checker::new();
    let mut viols = Vec::new();
    for (step, (out, probes)) in trace.iter().enumerate() {
        if verbose {
            println!(
                "  step {step}: {:<28} -> {:<22} probes x={} y={}   model before: {}",
                hist[step].short(),
                out.short(),
                probes[0].short(),
                probes[1].short(),
                crate::model::mset_describe(ck.mset)
            );
        }
        let mut bad = false;
        if let Some(v) = ck.on_op(tbl, "sqlite", step, hist[step], tbl.op_index(hist[step]), out) {
            viols.push(v);
            bad = true;
        } else if let Some(v) = ck.on_probes(tbl, load_idx, "sqlite", step, probes) {
            viols.push(v);
            bad = true;
        }
        if bad {
            ck.resync(probes);
        }
    }
    viols
}

struct SqCtx<'a> {
    sq: Sq,
    fx: &'a Fixtures,
    tbl: &'a Table,
    load_idx: [usize; 2],
    mode: Mode,
    max_depth: usize,
    cc_depth: usize,
    cc_this_job: bool,
    stats: Stats,
    sink: VSink,
    hist: Vec<usize>,
    trace: Vec<(u8, [u8; 2])>,
    samples: Vec<Value>,
}

impl<'a> SqCtx<'a> {
    fn ops(&self) -> Vec<Op> {
        self.hist.iter().map(|i| self.tbl.ops[*i]).collect()
    }

    /// Execute the node whose history is `self.hist` (last op new): restore the parent snapshot
    /// (or reset for depth 1), run the op, probe, snapshot if the node will be extended.
    async fn run_node(&mut self, parent: Option<&Snap>, need_snap: bool) -> (Out, [Out; 2], Option<Snap>) {
        let op = self.tbl.ops[*self.hist.last().unwrap()];
        for _ in 0..50 {
            let s0 = now_sec();
            match parent {
                None => self.sq.reset().await,
                Some(p) => self.sq.restore(p).await,
            }
            let out = self.sq.exec(self.fx, self.mode, op).await;
            let probes = self.sq.probes(self.fx).await;
            let snap = if need_snap {
                match self.sq.snapshot(self.mode).await {
                    Ok(s) => Some(s),
                    Err(()) => {
                        self.stats.guard_retries += 1;
                        continue;
                    }
                }
            } else {
                None
            };
            if now_sec() != s0 {
                self.stats.guard_retries += 1;
                continue;
            }
            return (out, probes, snap);
        }
        machinery_error("sqlite: could not execute one step within one wall-clock second in 50 attempts")
    }

    fn dfs<'b>(&'b mut self, parent: Option<&'b Snap>, mut ck: Checker, count: bool, recurse: bool) -> std::pin::Pin<Box<dyn Future<Output = Option<(Checker, Snap)>> + 'b>> {
        Box::pin(async move {
            let depth = self.hist.len();
            let step = depth - 1;
            let last_idx = self.hist[step];
            let last = self.tbl.ops[last_idx];
            let extend = depth < self.max_depth;
            let (out, probes, snap) = self.run_node(parent, extend).await;
            let code = out.code();
            let pc = [probes[0].code(), probes[1].code()];
            let mut viol = ck.on_op(self.tbl, "sqlite", step, last, last_idx, &out);
            if viol.is_none() {
                viol = ck.on_probes(self.tbl, self.load_idx, "sqlite", step, &probes);
            }
            if count {
                self.stats.histories += 1;
                self.stats.by_len[depth.min(7)] += 1;
                self.stats.op_execs += 3;
                self.stats.hist[last.kind()][outcode_index(code)] += 1;
                self.stats.probe_hist[outcode_index(pc[0])] += 1;
                self.stats.probe_hist[outcode_index(pc[1])] += 1;
                if code != empty_outcode(self.tbl, last_idx) {
                    self.stats.nontrivial += 1;
                    if self.samples.len() < 2 && depth >= 3 {
                        let ops = self.ops();
                        self.samples.push(json!({
                            "backend": format!("sqlite/{}", self.mode.name()),
                            "history": ops.iter().map(|o| o.short()).collect::<Vec<_>>(),
                            "last_outcome": out.short(),
                            "probes_after_last": [probes[0].short(), probes[1].short()],
                        }));
                    }
                }
            }
            if let Some(v) = viol {
                if count {
                    self.stats.violating_steps += 1;
                    let ops = self.ops();
                    let mode = self.mode;
                    self.sink.add(v, || json!({"part":"seq","backend":"sqlite","mode":mode.name(),"history":ops_to_json(&ops)}));
                }
                ck.resync(&probes);
            }
            self.trace.push((code, pc));
            // cross-check the snapshot/restore machinery against a from-scratch execution
            // (all histories of length 2, and those of length 3 of every 4th job)
            if count && depth <= self.cc_depth && depth >= 2 && (depth == 2 || self.cc_this_job) {
                let ops = self.ops();
                let mut r = 0;
                let t = sq_exec_scratch(&mut self.sq, self.fx, self.mode, &ops, &mut r).await;
                self.stats.guard_retries += r;
                let t2: Vec<(u8, [u8; 2])> = t.iter().map(|(o, p)| (o.code(), [p[0].code(), p[1].code()])).collect();
                if t2 != self.trace {
                    machinery_error(&format!(
                        "snapshot/restore DFS and from-scratch execution disagree on {:?} (mode {}): {:?} vs {:?}",
                        ops.iter().map(|o| o.short()).collect::<Vec<_>>(),
                        self.mode.name(),
                        self.trace,
                        t2
                    ));
                }
                self.stats.crosschecked += 1;
            }
            if extend && recurse {
                let snap = snap.unwrap();
                for i in 0..self.tbl.ops.len() {
                    self.hist.push(i);
                    self.dfs(Some(&snap), ck, true, true).await;
                    self.hist.pop();
                    // a child leaves its own trace entry behind; drop it
                    self.trace.truncate(depth);
                }
                None
            } else {
                // the caller truncates the trace
                snap.map(|s| (ck, s))
            }
        })
    }
}

use std::future::Future;

pub fn run_sqlite_seq(tbl: &Table, mode: Mode, max_depth: usize, cc_depth: usize, seed: i64, hard_deadline: Instant) -> SeqResult {
    let t0 = Instant::now();
    let n = tbl.ops.len();
    let mut jobs: Vec<(usize, usize)> = Vec::new();
    for a in 0..n {
        for b in 0..n {
            jobs.push((a, b));
        }
    }
    verif_common::rotate_by_seed(&mut jobs, seed);
    let next = AtomicUsize::new(0);
    let aborted = AtomicBool::new(false);
    let load_idx = [tbl.op_index(Op::Load { id: 0 }), tbl.op_index(Op::Load { id: 1 })];
    let results: Vec<(Stats, VSink, Vec<Value>)> = std::thread::scope(|s| {
        let mut hs = Vec::new();
        for _ in 0..n_threads() {
            hs.push(s.spawn(|| {
                let rt = current_thread_rt();
                let fx = Fixtures::new();
                rt.block_on(async {
                    let sq = Sq::new(1).await;
                    let mut ctx = SqCtx {
                        sq,
                        fx: &fx,
                        tbl,
                        load_idx,
                        mode,
                        max_depth,
                        cc_depth,
                        cc_this_job: false,
                        stats: Stats::default(),
                        sink: VSink::default(),
                        hist: Vec::new(),
                        trace: Vec::new(),
                        samples: Vec::new(),
                    };
                    loop {
                        let j = next.fetch_add(1, Ordering::SeqCst);
                        if j >= jobs.len() {
                            break;
                        }
                        if Instant::now() > hard_deadline {
                            aborted.store(true, Ordering::SeqCst);
                            break;
                        }
                        let (a, b) = jobs[j];
                        ctx.cc_this_job = (a * 38 + b) % 4 == 0;
                        ctx.hist.clear();
                        ctx.trace.clear();
                        ctx.hist.push(a);
                        // depth-1 node from scratch (reset); counted by the job with b == 0 only
                        let r = ctx.dfs(None, Checker::new(), b == 0, false).await;
                        if let Some((ck1, snap1)) = r {
                            ctx.hist.push(b);
                            ctx.dfs(Some(&snap1), ck1, true, true).await;
                            ctx.hist.pop();
                        }
                        ctx.trace.clear();
                    }
                    ctx.stats.stmts = ctx.sq.stmts;
                    ctx.sq.pool.close().await;
                    (ctx.stats, ctx.sink, ctx.samples)
                })
            }));
        }
        hs.into_iter()
            .map(|h| h.join().unwrap_or_else(|_| machinery_error("sqlite sequential worker panicked")))
            .collect()
    });
    let mut stats = Stats::default();
    let mut sink = VSink::default();
    let mut samples = Vec::new();
    for (s, k, sm) in results {
        stats.merge(&s);
        sink.merge(k);
        if samples.len() < 2 {
            samples.extend(sm);
        }
    }
    samples.truncate(2);
    SeqResult {
        backend: format!("sqlite/{}", mode.name()),
        depth: max_depth,
        stats,
        sink,
        completed: !aborted.load(Ordering::SeqCst),
        wall_s: t0.elapsed().as_secs_f64(),
        samples,
    }
}
