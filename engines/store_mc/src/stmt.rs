//! Part 3b — SQLite at STATEMENT granularity.
//!
//! Part 3 interleaves whole operations, which is exact as long as every operation of
//! `SqliteSessionStore` is one SQL statement. This part does not rely on that: every time a task
//! takes a connection out of the pool (sqlx calls `before_acquire` for every statement executed on
//! `&pool`, and once for a whole `pool.begin()` transaction) it parks at a turnstile owned by the
//! harness, which decides whose statement runs next. Exactly one task runs between two decisions, so
//! an execution is a function of the schedule; all schedules of each harness are enumerated by DFS
//! with replay and every resulting call/return history is checked for linearizability against the
//! map-with-expiry model. An operation that is split into several statements gets a scheduling point
//! between them automatically — no hook in the repository is needed.
//!
//! The reference used here allows `create` on a live id to return `Ok` without effect: that is the
//! recorded finding `sqlite:create:id=live->ok` (reported by parts 1 and 3), not this part's subject.
use crate::backend::{Fixtures, exec_op_caught};
use crate::conc::Harness;
use crate::lin::{HOp, linearizable};
use crate::model::{EMPTY_MSET, Op, Out, Table, VInfo, mset_describe};
use pavex_session_sqlx::SqliteSessionStore;
use serde_json::{Value, json};
use std::cell::RefCell;
use std::collections::{BTreeSet, HashMap};
use std::rc::Rc;
use std::sync::atomic::{AtomicU64, AtomicUsize, Ordering};
use std::sync::{Arc, Mutex};
use verif_common::machinery_error;

tokio::task_local! {
    static CUR_TASK: u8;
}

enum Evt {
    Parked(u8),
    Done(u8),
}

struct Ctl {
    turn: Mutex<Option<u8>>,
    notify: tokio::sync::Notify,
    tx: tokio::sync::mpsc::UnboundedSender<Evt>,
    gates: AtomicU64,
}

impl Ctl {
    /// Called (through `before_acquire`) by a task that has just taken a connection: report, then
    /// wait for the harness to hand over the turn.
    async fn gate(&self, t: u8) {
        self.gates.fetch_add(1, Ordering::SeqCst);
        let _ = self.tx.send(Evt::Parked(t));
        loop {
            let fut = self.notify.notified();
            tokio::pin!(fut);
            fut.as_mut().enable();
            {
                let mut turn = self.turn.lock().unwrap();
                if *turn == Some(t) {
                    *turn = None;
                    return;
                }
            }
            fut.await;
        }
    }
}

struct Rig {
    pool: sqlx::SqlitePool,
    store: SqliteSessionStore,
    ctl: Arc<Ctl>,
    rx: tokio::sync::mpsc::UnboundedReceiver<Evt>,
}

const CONNS: u32 = 4;

async fn rig() -> Rig {
    let (tx, rx) = tokio::sync::mpsc::unbounded_channel();
    let ctl = Arc::new(Ctl { turn: Mutex::new(None), notify: tokio::sync::Notify::new(), tx, gates: AtomicU64::new(0) });
    let c2 = ctl.clone();
    let opts: sqlx::sqlite::SqliteConnectOptions =
        "sqlite::memory:".parse().unwrap_or_else(|e| machinery_error(&format!("sqlite url: {e:?}")));
    let pool = sqlx::sqlite::SqlitePoolOptions::new()
        .max_connections(CONNS)
        .min_connections(CONNS)
        .idle_timeout(None)
        .max_lifetime(None)
        .acquire_timeout(std::time::Duration::from_secs(600))
        .before_acquire(move |_conn, _meta| {
            let ctl = c2.clone();
            Box::pin(async move {
                if let Ok(t) = CUR_TASK.try_with(|t| *t) {
                    ctl.gate(t).await;
                }
                Ok(true)
            })
        })
        .connect_with(opts)
        .await
        .unwrap_or_else(|e| machinery_error(&format!("sqlite connect: {e:?}")));
    // open every connection now: `before_acquire` only runs for connections taken from the idle set
    let mut held = Vec::new();
    for _ in 0..CONNS {
        held.push(pool.acquire().await.unwrap_or_else(|e| machinery_error(&format!("sqlite acquire: {e:?}"))));
    }
    drop(held);
    tokio::task::yield_now().await;
    let store = SqliteSessionStore::new(pool.clone());
    store.migrate().await.unwrap_or_else(|e| machinery_error(&format!("sqlite migrate: {e:?}")));
    Rig { pool, store, ctl, rx }
}

async fn wait_evt(rx: &mut tokio::sync::mpsc::UnboundedReceiver<Evt>) -> Option<Evt> {
    tokio::time::timeout(std::time::Duration::from_secs(20), rx.recv()).await.ok().flatten()
}

#[derive(Clone, Debug, PartialEq)]
struct Step {
    options: Vec<u8>,
    chosen: u8,
}

#[derive(Clone)]
enum Ev {
    Call(u8, u8),
    Ret(u8, u8, Out),
}

struct RunOut {
    steps: Vec<Step>,
    log: Vec<Ev>,
    finals: [Out; 2],
    stuck: bool,
}

/// One execution of harness `h` under `prefix` (then always the first option).
async fn run_one(r: &mut Rig, fx: &Rc<Fixtures>, h: &Harness, prefix: &[Step]) -> RunOut {
    sqlx::raw_sql("DELETE FROM sessions")
        .execute(&r.pool)
        .await
        .unwrap_or_else(|e| machinery_error(&format!("sqlite reset: {e:?}")));
    for op in &h.init {
        let _ = exec_op_caught(&r.store, fx, *op).await;
    }
    while r.rx.try_recv().is_ok() {}
    let n = h.tasks.len();
    let log: Rc<RefCell<Vec<Ev>>> = Rc::new(RefCell::new(Vec::new()));
    let mut handles = Vec::new();
    for (t, ops) in h.tasks.iter().enumerate() {
        let (store, fx, log, ops, ctl) = (r.store.clone(), fx.clone(), log.clone(), ops.clone(), r.ctl.clone());
        handles.push(tokio::task::spawn_local(CUR_TASK.scope(t as u8, async move {
            for (j, op) in ops.iter().enumerate() {
                log.borrow_mut().push(Ev::Call(t as u8, j as u8));
                let out = exec_op_caught(&store, &fx, *op).await;
                log.borrow_mut().push(Ev::Ret(t as u8, j as u8, out));
            }
            let _ = ctl.tx.send(Evt::Done(t as u8));
        })));
    }
    let mut parked = vec![false; n];
    let mut done = vec![false; n];
    let mut stuck = false;
    // every task runs up to its first statement (or to its end)
    for _ in 0..n {
        match wait_evt(&mut r.rx).await {
            Some(Evt::Parked(t)) => parked[t as usize] = true,
            Some(Evt::Done(t)) => done[t as usize] = true,
            None => machinery_error(&format!("sqlite statement scheduler: a task of harness {} neither reached a statement nor finished", h.name)),
        }
    }
    let mut steps: Vec<Step> = Vec::new();
    let mut last: Option<u8> = None;
    loop {
        let mut options: Vec<u8> = Vec::new();
        if let Some(l) = last {
            if parked[l as usize] {
                options.push(l);
            }
        }
        for t in 0..n as u8 {
            if parked[t as usize] && Some(t) != last.filter(|l| parked[*l as usize]) {
                options.push(t);
            }
        }
        if options.is_empty() {
            break;
        }
        let i = steps.len();
        let chosen = if i < prefix.len() {
            if prefix[i].options != options {
                machinery_error(&format!(
                    "sqlite statement scheduler: replay diverged at step {i} of harness {}: recorded options {:?}, now {:?}",
                    h.name, prefix[i].options, options
                ));
            }
            prefix[i].chosen
        } else {
            0
        };
        let t = options[chosen as usize];
        steps.push(Step { options, chosen });
        parked[t as usize] = false;
        *r.ctl.turn.lock().unwrap() = Some(t);
        r.ctl.notify.notify_waiters();
        match wait_evt(&mut r.rx).await {
            Some(Evt::Parked(u)) if u == t => parked[t as usize] = true,
            Some(Evt::Done(u)) if u == t => done[t as usize] = true,
            Some(_) => machinery_error("sqlite statement scheduler: an event from a task that does not hold the turn"),
            None => {
                stuck = true;
                break;
            }
        }
        last = Some(t);
        if steps.len() > 10_000 {
            machinery_error("sqlite statement scheduler: more than 10000 steps in one run");
        }
    }
    for hd in handles {
        if stuck {
            hd.abort();
        } else {
            let _ = hd.await;
        }
    }
    let finals = [exec_op_caught(&r.store, fx, Op::Load { id: 0 }).await, exec_op_caught(&r.store, fx, Op::Load { id: 1 }).await];
    let log = log.borrow().clone();
    RunOut { steps, log, finals, stuck }
}

fn hops_of(tbl: &Table, h: &Harness, out: &RunOut) -> (Vec<HOp>, Vec<u8>, Vec<String>) {
    let mut hops: Vec<HOp> = Vec::new();
    let mut key: Vec<u8> = Vec::new();
    let mut pretty = Vec::new();
    let mut pos: HashMap<(u8, u8), usize> = HashMap::new();
    for (i, ev) in out.log.iter().enumerate() {
        match ev {
            Ev::Call(t, j) => {
                let op = h.tasks[*t as usize][*j as usize];
                pos.insert((*t, *j), hops.len());
                hops.push(HOp { call: i as u32, ret: u32::MAX, op_idx: tbl.op_index(op) as u16, outcode: crate::model::OC_BAD });
                key.extend_from_slice(&[0, *t, *j]);
                pretty.push(format!("t{t} call {}", op.short()));
            }
            Ev::Ret(t, j, o) => {
                let op = h.tasks[*t as usize][*j as usize];
                let p = pos[&(*t, *j)];
                hops[p].ret = i as u32;
                hops[p].outcode = o.code();
                key.extend_from_slice(&[1, *t, *j, o.code()]);
                pretty.push(format!("t{t} ret  {} -> {}", op.short(), o.short()));
            }
        }
    }
    let base = out.log.len() as u32;
    for id in 0..2u8 {
        let op = Op::Load { id };
        let o = &out.finals[id as usize];
        hops.push(HOp { call: base + 2 * id as u32, ret: base + 2 * id as u32 + 1, op_idx: tbl.op_index(op) as u16, outcode: o.code() });
        key.extend_from_slice(&[2, id, o.code()]);
        pretty.push(format!("final {} -> {}", op.short(), o.short()));
    }
    (hops, key, pretty)
}

/// Model state set after the initial operations, under the SQLite reference table.
fn init_mset(tbl: &Table, h: &Harness) -> u32 {
    let mut m = EMPTY_MSET;
    for op in &h.init {
        // the initial operations run sequentially: follow every outcome the reference allows
        let idx = tbl.op_index(*op);
        let mut next = 0u32;
        for oc in tbl.allowed(m, idx) {
            next |= tbl.step(m, idx, oc);
        }
        m = next;
    }
    m
}

pub struct StmtResult {
    pub harnesses: usize,
    pub schedules: u64,
    pub steps: u64,
    pub distinct_histories: u64,
    pub max_steps_in_a_schedule: usize,
    pub harnesses_with_a_multi_statement_op: usize,
    pub gate_passages: u64,
    pub violations: Vec<(VInfo, Value)>,
    pub wall_s: f64,
}

fn explore_one(rt: &tokio::runtime::Runtime, local: &tokio::task::LocalSet, r: &mut Rig, fx: &Rc<Fixtures>, tbl: &Table, h: &Harness,
               res: &mut StmtResult) {
    let init = init_mset(tbl, h);
    if init == 0 {
        return;
    }
    let n_ops: usize = h.tasks.iter().map(|t| t.len()).sum();
    let mut prefix: Vec<Step> = Vec::new();
    let mut verdicts: HashMap<Vec<u8>, bool> = HashMap::new();
    let mut multi = false;
    loop {
        let out = rt.block_on(local.run_until(run_one(r, fx, h, &prefix)));
        res.schedules += 1;
        res.steps += out.steps.len() as u64;
        res.max_steps_in_a_schedule = res.max_steps_in_a_schedule.max(out.steps.len());
        if out.steps.len() > n_ops {
            multi = true;
        }
        if out.steps.len() < n_ops && !out.stuck {
            machinery_error(&format!(
                "sqlite statement scheduler not live: harness {} finished {} operations in {} statements (every statement must pass the turnstile)",
                h.name, n_ops, out.steps.len()
            ));
        }
        let sched: Vec<u8> = out.steps.iter().map(|s| s.options[s.chosen as usize]).collect();
        if out.stuck {
            res.violations.push((
                VInfo { key: format!("sqlite-stmt:stuck:{}", h.kinds),
                        what: format!("harness {} ({}): under statement schedule {:?} a task holding the turn neither finished nor reached its next statement within 20 s (blocked on another task's connection or lock)", h.name, h.describe(), sched),
                        step: 0 },
                json!({"part": "stmt", "harness": h.to_json(), "schedule": sched}),
            ));
            return;
        }
        let (hops, key, pretty) = hops_of(tbl, h, &out);
        let ok = *verdicts.entry(key.clone()).or_insert_with(|| linearizable(tbl, init, &hops).is_some());
        if !ok {
            // determinism: the same schedule must give the same history again
            let out2 = rt.block_on(local.run_until(run_one(r, fx, h, &out.steps)));
            let (_, key2, _) = hops_of(tbl, h, &out2);
            if key2 != key {
                machinery_error(&format!("nondeterministic: statement schedule {:?} of harness {} gave two different histories", sched, h.name));
            }
            res.violations.push((
                VInfo { key: format!("sqlite-stmt:nonlinearizable:{}", h.kinds),
                        what: format!("history not linearizable w.r.t. the map-with-expiry model from {}: harness {} ({}), statement schedule {:?}: {}",
                                      mset_describe(init), h.name, h.describe(), sched, pretty.join("; ")),
                        step: 0 },
                json!({"part": "stmt", "harness": h.to_json(), "schedule": sched}),
            ));
            return;
        }
        // backtrack
        let mut steps = out.steps;
        let mut found = false;
        while let Some(mut s) = steps.pop() {
            if (s.chosen as usize) + 1 < s.options.len() {
                s.chosen += 1;
                steps.push(s);
                found = true;
                break;
            }
        }
        if !found {
            break;
        }
        prefix = steps;
    }
    res.distinct_histories += verdicts.len() as u64;
    if multi {
        res.harnesses_with_a_multi_statement_op += 1;
    }
}

pub fn run_sqlite_stmt(tbl_sq: &Table, hs: &[Harness]) -> StmtResult {
    let t0 = std::time::Instant::now();
    let next = AtomicUsize::new(0);
    let n_threads = crate::seq::n_threads().min(8);
    let parts: Vec<StmtResult> = std::thread::scope(|s| {
        let mut handles = Vec::new();
        for _ in 0..n_threads {
            handles.push(s.spawn(|| {
                let rt = tokio::runtime::Builder::new_current_thread()
                    .enable_all()
                    .build()
                    .unwrap_or_else(|e| machinery_error(&format!("tokio runtime: {e}")));
                let local = tokio::task::LocalSet::new();
                let fx = Rc::new(Fixtures::new());
                let mut r = rt.block_on(local.run_until(rig()));
                let mut res = StmtResult { harnesses: 0, schedules: 0, steps: 0, distinct_histories: 0, max_steps_in_a_schedule: 0,
                                           harnesses_with_a_multi_statement_op: 0, gate_passages: 0, violations: vec![], wall_s: 0.0 };
                loop {
                    let j = next.fetch_add(1, Ordering::SeqCst);
                    if j >= hs.len() {
                        break;
                    }
                    res.harnesses += 1;
                    explore_one(&rt, &local, &mut r, &fx, tbl_sq, &hs[j], &mut res);
                }
                res.gate_passages = r.ctl.gates.load(Ordering::SeqCst);
                rt.block_on(local.run_until(async { r.pool.close().await }));
                res
            }));
        }
        handles.into_iter().map(|h| h.join().unwrap_or_else(|_| machinery_error("sqlite statement worker panicked"))).collect()
    });
    let mut total = StmtResult { harnesses: 0, schedules: 0, steps: 0, distinct_histories: 0, max_steps_in_a_schedule: 0,
                                 harnesses_with_a_multi_statement_op: 0, gate_passages: 0, violations: vec![], wall_s: 0.0 };
    let mut seen: BTreeSet<String> = BTreeSet::new();
    for p in parts {
        total.harnesses += p.harnesses;
        total.schedules += p.schedules;
        total.steps += p.steps;
        total.distinct_histories += p.distinct_histories;
        total.max_steps_in_a_schedule = total.max_steps_in_a_schedule.max(p.max_steps_in_a_schedule);
        total.harnesses_with_a_multi_statement_op += p.harnesses_with_a_multi_statement_op;
        total.gate_passages += p.gate_passages;
        for (v, c) in p.violations {
            if seen.insert(v.key.clone()) {
                total.violations.push((v, c));
            }
        }
    }
    total.wall_s = t0.elapsed().as_secs_f64();
    total
}

/// Replay of one recorded statement schedule.
pub fn replay_stmt(tbl_sq: &Table, case: &Value) -> bool {
    let h = Harness::from_json(case.get("harness").unwrap_or(&Value::Null)).unwrap_or_else(|| machinery_error("stmt replay: bad harness"));
    let sched: Vec<u8> = case.get("schedule").and_then(|s| s.as_array()).map(|a| a.iter().map(|x| x.as_u64().unwrap_or(0) as u8).collect()).unwrap_or_default();
    let rt = tokio::runtime::Builder::new_current_thread().enable_all().build().unwrap_or_else(|e| machinery_error(&format!("tokio runtime: {e}")));
    let local = tokio::task::LocalSet::new();
    let fx = Rc::new(Fixtures::new());
    let mut r = rt.block_on(local.run_until(rig()));
    // rebuild the option lists by running with growing prefixes
    let mut prefix: Vec<Step> = Vec::new();
    loop {
        let out = rt.block_on(local.run_until(run_one(&mut r, &fx, &h, &prefix)));
        let i = prefix.len();
        if i >= sched.len() || i >= out.steps.len() {
            let (hops, _, pretty) = hops_of(tbl_sq, &h, &out);
            let init = init_mset(tbl_sq, &h);
            println!("harness {} ({})", h.name, h.describe());
            println!("statement schedule {:?}", out.steps.iter().map(|s| s.options[s.chosen as usize]).collect::<Vec<_>>());
            for l in &pretty {
                println!("  {l}");
            }
            let ok = !out.stuck && linearizable(tbl_sq, init, &hops).is_some();
            println!("linearizable: {ok}");
            return !ok;
        }
        let mut st = out.steps[i].clone();
        match st.options.iter().position(|t| *t == sched[i]) {
            Some(p) => st.chosen = p as u8,
            None => machinery_error("stmt replay: the recorded schedule names a task that is not at a statement boundary"),
        }
        prefix = out.steps[..i].to_vec();
        prefix.push(st);
    }
}
