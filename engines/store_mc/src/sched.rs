//! A tiny deterministic single-threaded executor whose every scheduling decision is owned by the
//! harness, and a DFS over all schedules (replay from scratch; prefix divergence = machinery error).
use std::future::Future;
use std::pin::Pin;
use std::sync::Arc;
use std::sync::atomic::{AtomicBool, Ordering};
use std::task::{Context, Poll, Wake, Waker};
use verif_common::machinery_error;

pub type Task = Pin<Box<dyn Future<Output = ()>>>;

struct Flag {
    runnable: AtomicBool,
}
impl Wake for Flag {
    fn wake(self: Arc<Self>) {
        self.runnable.store(true, Ordering::SeqCst);
    }
    fn wake_by_ref(self: &Arc<Self>) {
        self.runnable.store(true, Ordering::SeqCst);
    }
}

#[derive(Clone, Debug, PartialEq, Eq)]
pub struct StepRec {
    /// runnable tasks in option order: the task polled last (if still runnable) first, then
    /// ascending task id. Choosing position 0 is therefore never a preemption.
    pub options: Vec<u8>,
    /// position chosen in `options`
    pub chosen: u8,
    /// options[0] is the task that ran last (so choosing another position preempts it)
    pub first_is_last: bool,
}
impl StepRec {
    pub fn task(&self) -> u8 {
        self.options[self.chosen as usize]
    }
    pub fn is_preemption(&self) -> bool {
        self.first_is_last && self.chosen != 0
    }
}

#[derive(Debug)]
pub struct SchedOut {
    pub steps: Vec<StepRec>,
    /// no runnable task although some task has not finished
    pub deadlock: bool,
    /// tasks that never finished (only when `deadlock`)
    pub unfinished: Vec<u8>,
    /// polls that returned Pending without having re-armed themselves (blocked on someone else)
    pub blocked_polls: usize,
    /// `Plan::Ids` only: entries that could not be followed
    pub skipped_ids: usize,
}
impl SchedOut {
    pub fn schedule(&self) -> Vec<u8> {
        self.steps.iter().map(|s| s.task()).collect()
    }
    pub fn preemptions(&self) -> usize {
        self.steps.iter().filter(|s| s.is_preemption()).count()
    }
}

pub enum Plan<'a> {
    /// replay the recorded prefix (options are verified), then always take position 0
    Prefix(&'a [StepRec]),
    /// poll exactly these task ids in order (for --replay), then position 0
    Ids(&'a [u8]),
}

/// Run the tasks to completion (or deadlock) under the given plan.
pub fn run_tasks(mut tasks: Vec<Task>, plan: Plan<'_>) -> SchedOut {
    let n = tasks.len();
    let flags: Vec<Arc<Flag>> = (0..n).map(|_| Arc::new(Flag { runnable: AtomicBool::new(true) })).collect();
    let wakers: Vec<Waker> = flags.iter().map(|f| Waker::from(f.clone())).collect();
    let mut done = vec![false; n];
    let mut steps: Vec<StepRec> = Vec::new();
    let mut last: Option<usize> = None;
    let mut blocked_polls = 0;
    let mut deadlock = false;
    let mut ids_next = 0usize;
    let mut skipped_ids = 0usize;
    loop {
        if done.iter().all(|d| *d) {
            break;
        }
        let mut options: Vec<u8> = Vec::with_capacity(n);
        let mut first_is_last = false;
        if let Some(l) = last {
            if !done[l] && flags[l].runnable.load(Ordering::SeqCst) {
                options.push(l as u8);
                first_is_last = true;
            }
        }
        for t in 0..n {
            if !done[t] && flags[t].runnable.load(Ordering::SeqCst) && Some(t) != last.filter(|_| first_is_last) {
                options.push(t as u8);
            }
        }
        if options.is_empty() {
            deadlock = true;
            break;
        }
        let i = steps.len();
        let chosen: u8 = match &plan {
            Plan::Prefix(p) => {
                if i < p.len() {
                    if p[i].options != options || p[i].first_is_last != first_is_last {
                        machinery_error(&format!(
                            "schedule replay diverged at step {i}: recorded options {:?}, now {:?}",
                            p[i].options, options
                        ));
                    }
                    p[i].chosen
                } else {
                    0
                }
            }
            Plan::Ids(ids) => {
                // lenient: entries naming a task that is not runnable (e.g. the case was recorded on
                // a build where an operation took more polls) are skipped
                let mut pos = 0u8;
                while ids_next < ids.len() {
                    let want = ids[ids_next];
                    ids_next += 1;
                    if let Some(p) = options.iter().position(|t| *t == want) {
                        pos = p as u8;
                        break;
                    }
                    skipped_ids += 1;
                }
                pos
            }
        };
        let t = options[chosen as usize] as usize;
        steps.push(StepRec { options, chosen, first_is_last });
        flags[t].runnable.store(false, Ordering::SeqCst);
        let mut cx = Context::from_waker(&wakers[t]);
        match tasks[t].as_mut().poll(&mut cx) {
            Poll::Ready(()) => done[t] = true,
            Poll::Pending => {
                if !flags[t].runnable.load(Ordering::SeqCst) {
                    blocked_polls += 1;
                }
            }
        }
        last = Some(t);
        if steps.len() > 100_000 {
            machinery_error("executor: more than 100000 steps in one run (livelock in the harness?)");
        }
    }
    let unfinished = (0..n).filter(|t| !done[*t]).map(|t| t as u8).collect();
    // drop the futures (releases any guard held by a deadlocked task)
    tasks.clear();
    SchedOut { steps, deadlock, unfinished, blocked_polls, skipped_ids }
}

#[derive(Default, Debug, Clone)]
pub struct ExploreStats {
    pub runs: u64,
    pub steps: u64,
    pub pruned_by_bound: bool,
    pub max_preemptions: usize,
}

/// DFS over all schedules. `mk` builds fresh tasks plus a per-run context; `on_run` receives the
/// finished run and returns `false` to stop the exploration early.
/// `bound` = maximal number of preemptions (None = unbounded).
pub fn explore<C>(
    mut mk: impl FnMut() -> (Vec<Task>, C),
    bound: Option<usize>,
    mut on_run: impl FnMut(&SchedOut, C) -> bool,
) -> ExploreStats {
    let mut stats = ExploreStats::default();
    let mut prefix: Vec<StepRec> = Vec::new();
    loop {
        let (tasks, ctx) = mk();
        let out = run_tasks(tasks, Plan::Prefix(&prefix));
        stats.runs += 1;
        stats.steps += out.steps.len() as u64;
        stats.max_preemptions = stats.max_preemptions.max(out.preemptions());
        let steps = out.steps.clone();
        if !on_run(&out, ctx) {
            return stats;
        }
        // backtrack: find the deepest step with an untried alternative that respects the bound
        let mut steps = steps;
        let mut found = false;
        while let Some(mut s) = steps.pop() {
            if (s.chosen as usize) + 1 < s.options.len() {
                let used: usize = steps.iter().filter(|x| x.is_preemption()).count();
                // any position > 0 preempts iff first_is_last
                let cost = if s.first_is_last { 1 } else { 0 };
                if bound.map(|b| used + cost <= b).unwrap_or(true) {
                    s.chosen += 1;
                    steps.push(s);
                    found = true;
                    break;
                } else {
                    stats.pruned_by_bound = true;
                }
            }
        }
        if !found {
            return stats;
        }
        prefix = steps;
    }
}

// ---------------------------------------------------------------------------------------------
// Self-test of the executor: contention, wake-ups and deadlock detection on a toy that uses the
// very same hook type (`verif::Mutex`) as the store.
// ---------------------------------------------------------------------------------------------

pub struct SelfTest {
    pub schedules: u64,
    pub deadlocks: u64,
    pub completed: u64,
    pub runs_with_blocked_polls: u64,
    pub woken_after_block: u64,
}

pub fn selftest() -> SelfTest {
    use pavex_session_memory_store::verif::Mutex;
    use std::rc::Rc;
    let mut st = SelfTest { schedules: 0, deadlocks: 0, completed: 0, runs_with_blocked_polls: 0, woken_after_block: 0 };
    let stats = explore(
        || {
            let a = Rc::new(Mutex::new(0u32));
            let b = Rc::new(Mutex::new(0u32));
            let (a1, b1) = (a.clone(), b.clone());
            let t0: Task = Box::pin(async move {
                let mut ga = a1.lock().await;
                let mut gb = b1.lock().await;
                *ga += 1;
                *gb += 1;
            });
            let t1: Task = Box::pin(async move {
                let mut gb = b.lock().await;
                let mut ga = a.lock().await;
                *ga += 1;
                *gb += 1;
            });
            (vec![t0, t1], ())
        },
        None,
        |out, ()| {
            st.schedules += 1;
            if out.deadlock {
                st.deadlocks += 1;
            } else {
                st.completed += 1;
            }
            if out.blocked_polls > 0 {
                st.runs_with_blocked_polls += 1;
            }
            true
        },
    );
    // second toy: T0 holds A across a scheduling point, T1 contends for A: T1 must block (Pending
    // without re-arming itself) and be woken by T0's unlock; no deadlock is possible.
    let mut woken = 0u64;
    let mut toy2_deadlocks = 0u64;
    let stats2 = explore(
        || {
            let a = Rc::new(Mutex::new(0u32));
            let c = Rc::new(Mutex::new(0u32));
            let a1 = a.clone();
            let t0: Task = Box::pin(async move {
                let mut ga = a1.lock().await;
                let mut gc = c.lock().await;
                *ga += 1;
                *gc += 1;
            });
            let t1: Task = Box::pin(async move {
                let mut ga = a.lock().await;
                *ga += 1;
            });
            (vec![t0, t1], ())
        },
        None,
        |out, ()| {
            if out.deadlock {
                toy2_deadlocks += 1;
            } else if out.blocked_polls > 0 {
                woken += 1;
            }
            true
        },
    );
    st.schedules += stats2.runs;
    st.woken_after_block = woken;
    if woken == 0 || toy2_deadlocks > 0 {
        machinery_error(&format!(
            "executor self-test failed (contended lock toy): schedules={} woken_after_block={} deadlocks={}",
            stats2.runs, woken, toy2_deadlocks
        ));
    }
    if stats.runs < 2 || st.deadlocks == 0 || st.completed == 0 || st.runs_with_blocked_polls == 0 {
        machinery_error(&format!(
            "executor self-test failed (AB/BA lock toy): schedules={} deadlocks={} completed={} contended={} — is YIELD_BEFORE_LOCK on?",
            st.schedules, st.deadlocks, st.completed, st.runs_with_blocked_polls
        ));
    }
    st
}
