//! Brute-force linearizability check of a call/return history against the reference model.
use crate::model::Table;
use std::collections::HashSet;

#[derive(Clone, Debug, PartialEq, Eq, Hash)]
pub struct HOp {
    /// logical time of invocation / response (indices into the event log)
    pub call: u32,
    pub ret: u32,
    pub op_idx: u16,
    pub outcode: u8,
}

/// Is there a total order of `ops`, consistent with real-time order (an op that returned before
/// another was invoked precedes it), under which the model — started from any state in `init` —
/// produces exactly the observed outcomes? Returns one witness order.
pub fn linearizable(tbl: &Table, init: u32, ops: &[HOp]) -> Option<Vec<usize>> {
    let n = ops.len();
    assert!(n <= 16);
    let mut seen: HashSet<(u32, u32)> = HashSet::new();
    let mut order = Vec::with_capacity(n);
    fn go(tbl: &Table, ops: &[HOp], mask: u32, mset: u32, seen: &mut HashSet<(u32, u32)>, order: &mut Vec<usize>) -> bool {
        let n = ops.len();
        if mask == (1u32 << n) - 1 {
            return true;
        }
        if !seen.insert((mask, mset)) {
            return false;
        }
        for i in 0..n {
            if mask & (1 << i) != 0 {
                continue;
            }
            // i may go next only if no other pending op returned before i was invoked
            let mut minimal = true;
            for j in 0..n {
                if j != i && mask & (1 << j) == 0 && ops[j].ret < ops[i].call {
                    minimal = false;
                    break;
                }
            }
            if !minimal {
                continue;
            }
            let next = if ops[i].outcode == crate::model::OC_BAD { 0 } else { tbl.step(mset, ops[i].op_idx as usize, ops[i].outcode) };
            if next == 0 {
                continue;
            }
            order.push(i);
            if go(tbl, ops, mask | (1 << i), next, seen, order) {
                return true;
            }
            order.pop();
        }
        false
    }
    if go(tbl, ops, 0, init, &mut seen, &mut order) { Some(order) } else { None }
}
