//! Reference model for C13: a session store is a map id -> (state, expired?).
//!
//! The model is deliberately small and non-deterministic where the property does not force a
//! single behaviour (see `spec`). The checker tracks the *set* of model states that are
//! compatible with everything observed so far (25 possible states -> a u32 bitset).
use serde_json::{Value, json};

pub const NIDS: usize = 2;
pub const NSTATES: usize = 3;
pub const ID_NAMES: [&str; 2] = ["x", "y"];

#[derive(Clone, Copy, PartialEq, Eq, Hash, Debug, PartialOrd, Ord)]
pub enum Op {
    /// ttl: 0 = Duration::ZERO (already expired), 1 = one hour
    Create { id: u8, st: u8, ttl: u8 },
    Update { id: u8, st: u8, ttl: u8 },
    UpdateTtl { id: u8, ttl: u8 },
    Load { id: u8 },
    Delete { id: u8 },
    ChangeId { old: u8, new: u8 },
    /// batch: 0 = None, 1 = Some(1)
    DeleteExpired { batch: u8 },
}

pub const KINDS: [&str; 7] = [
    "create",
    "update",
    "update_ttl",
    "load",
    "delete",
    "change_id",
    "delete_expired",
];

impl Op {
    pub fn kind(&self) -> usize {
        match self {
            Op::Create { .. } => 0,
            Op::Update { .. } => 1,
            Op::UpdateTtl { .. } => 2,
            Op::Load { .. } => 3,
            Op::Delete { .. } => 4,
            Op::ChangeId { .. } => 5,
            Op::DeleteExpired { .. } => 6,
        }
    }
    pub fn kind_name(&self) -> &'static str {
        KINDS[self.kind()]
    }
    /// May leave a record whose deadline is "now" (relevant for the SQLite clock modes).
    pub fn writes_ttl0(&self) -> bool {
        matches!(
            self,
            Op::Create { ttl: 0, .. } | Op::Update { ttl: 0, .. } | Op::UpdateTtl { ttl: 0, .. }
        )
    }
    pub fn to_json(&self) -> Value {
        let idn = |i: &u8| ID_NAMES[*i as usize];
        let ttl = |t: &u8| if *t == 0 { "0" } else { "1h" };
        match self {
            Op::Create { id, st, ttl: t } => json!({"op":"create","id":idn(id),"state":st,"ttl":ttl(t)}),
            Op::Update { id, st, ttl: t } => json!({"op":"update","id":idn(id),"state":st,"ttl":ttl(t)}),
            Op::UpdateTtl { id, ttl: t } => json!({"op":"update_ttl","id":idn(id),"ttl":ttl(t)}),
            Op::Load { id } => json!({"op":"load","id":idn(id)}),
            Op::Delete { id } => json!({"op":"delete","id":idn(id)}),
            Op::ChangeId { old, new } => json!({"op":"change_id","old":idn(old),"new":idn(new)}),
            Op::DeleteExpired { batch } => {
                json!({"op":"delete_expired","batch": if *batch == 0 { Value::Null } else { json!(1) }})
            }
        }
    }
    pub fn from_json(v: &Value) -> Option<Op> {
        let id = |k: &str| -> Option<u8> {
            match v.get(k)?.as_str()? {
                "x" => Some(0),
                "y" => Some(1),
                _ => None,
            }
        };
        let ttl = || -> Option<u8> {
            match v.get("ttl")?.as_str()? {
                "0" => Some(0),
                "1h" => Some(1),
                _ => None,
            }
        };
        let st = || -> Option<u8> {
            let s = v.get("state")?.as_u64()?;
            if (s as usize) < NSTATES { Some(s as u8) } else { None }
        };
        Some(match v.get("op")?.as_str()? {
            "create" => Op::Create { id: id("id")?, st: st()?, ttl: ttl()? },
            "update" => Op::Update { id: id("id")?, st: st()?, ttl: ttl()? },
            "update_ttl" => Op::UpdateTtl { id: id("id")?, ttl: ttl()? },
            "load" => Op::Load { id: id("id")? },
            "delete" => Op::Delete { id: id("id")? },
            "change_id" => Op::ChangeId { old: id("old")?, new: id("new")? },
            "delete_expired" => Op::DeleteExpired {
                batch: if v.get("batch")?.is_null() { 0 } else { 1 },
            },
            _ => return None,
        })
    }
    pub fn short(&self) -> String {
        let idn = |i: &u8| ID_NAMES[*i as usize];
        let ttl = |t: &u8| if *t == 0 { "0" } else { "1h" };
        match self {
            Op::Create { id, st, ttl: t } => format!("create({},s{},{})", idn(id), st, ttl(t)),
            Op::Update { id, st, ttl: t } => format!("update({},s{},{})", idn(id), st, ttl(t)),
            Op::UpdateTtl { id, ttl: t } => format!("update_ttl({},{})", idn(id), ttl(t)),
            Op::Load { id } => format!("load({})", idn(id)),
            Op::Delete { id } => format!("delete({})", idn(id)),
            Op::ChangeId { old, new } => format!("change_id({},{})", idn(old), idn(new)),
            Op::DeleteExpired { batch } => {
                format!("delete_expired({})", if *batch == 0 { "None" } else { "Some(1)" })
            }
        }
    }
}

pub fn ops_to_json(ops: &[Op]) -> Value {
    Value::Array(ops.iter().map(|o| o.to_json()).collect())
}
pub fn ops_from_json(v: &Value) -> Option<Vec<Op>> {
    v.as_array()?.iter().map(Op::from_json).collect()
}

/// The full operation alphabet (38 operations).
pub fn alphabet() -> Vec<Op> {
    let mut v = Vec::new();
    for id in 0..NIDS as u8 {
        for st in 0..NSTATES as u8 {
            for ttl in 0..2u8 {
                v.push(Op::Create { id, st, ttl });
            }
        }
    }
    for id in 0..NIDS as u8 {
        for st in 0..NSTATES as u8 {
            for ttl in 0..2u8 {
                v.push(Op::Update { id, st, ttl });
            }
        }
    }
    for id in 0..NIDS as u8 {
        for ttl in 0..2u8 {
            v.push(Op::UpdateTtl { id, ttl });
        }
    }
    for id in 0..NIDS as u8 {
        v.push(Op::Load { id });
    }
    for id in 0..NIDS as u8 {
        v.push(Op::Delete { id });
    }
    for old in 0..NIDS as u8 {
        for new in 0..NIDS as u8 {
            v.push(Op::ChangeId { old, new });
        }
    }
    for batch in 0..2u8 {
        v.push(Op::DeleteExpired { batch });
    }
    v
}

// ---------------------------------------------------------------------------------------------
// Observed outcomes
// ---------------------------------------------------------------------------------------------

/// What the real store returned, abstracted to what the property talks about.
#[derive(Clone, Debug, PartialEq, Eq, Hash)]
pub enum Out {
    Ok,
    DuplicateId,
    UnknownId,
    /// `load`: None, or Some(index into the state alphabet); `Some(255)` = a state outside the
    /// alphabet (always a violation), `Some(254)` = right kind of state but remaining TTL not in
    /// (1h-120s, 1h].
    Loaded(Option<u8>),
    Count(usize),
    /// any other error variant (serialization / Other(..)); never allowed by the model
    Error(String),
    Panic(String),
}

pub const OC_OK: u8 = 0;
pub const OC_DUP: u8 = 1;
pub const OC_UNKNOWN: u8 = 2;
pub const OC_NONE: u8 = 3;
pub const OC_SOME0: u8 = 4; // 4,5,6
pub const OC_COUNT0: u8 = 7; // 7,8,9
pub const OC_BAD: u8 = 255;
pub const N_OUTCODES: usize = 11; // 0..=9 + bad (index 10)

impl Out {
    /// Compact code used to index the precomputed spec table; everything the model can never
    /// allow maps to `OC_BAD`.
    pub fn code(&self) -> u8 {
        match self {
            Out::Ok => OC_OK,
            Out::DuplicateId => OC_DUP,
            Out::UnknownId => OC_UNKNOWN,
            Out::Loaded(None) => OC_NONE,
            Out::Loaded(Some(s)) if (*s as usize) < NSTATES => OC_SOME0 + *s,
            Out::Count(n) if *n <= NIDS => OC_COUNT0 + *n as u8,
            _ => OC_BAD,
        }
    }
    pub fn short(&self) -> String {
        match self {
            Out::Ok => "Ok".into(),
            Out::DuplicateId => "Err(DuplicateId)".into(),
            Out::UnknownId => "Err(UnknownId)".into(),
            Out::Loaded(None) => "Ok(None)".into(),
            Out::Loaded(Some(255)) => "Ok(Some(<state outside alphabet>))".into(),
            Out::Loaded(Some(254)) => "Ok(Some(<ttl out of range>))".into(),
            Out::Loaded(Some(s)) => format!("Ok(Some(s{s}))"),
            Out::Count(n) => format!("Ok({n})"),
            Out::Error(e) => format!("Err(other: {e})"),
            Out::Panic(e) => format!("PANIC({e})"),
        }
    }
    /// Abstract name for violation keys.
    pub fn key_name(&self) -> String {
        match self {
            Out::Ok => "ok".into(),
            Out::DuplicateId => "duplicate_id".into(),
            Out::UnknownId => "unknown_id".into(),
            Out::Loaded(None) => "none".into(),
            Out::Loaded(Some(254)) => "bad_ttl".into(),
            Out::Loaded(Some(_)) => "some".into(),
            Out::Count(n) => format!("count{n}"),
            Out::Error(_) => "error".into(),
            Out::Panic(_) => "panic".into(),
        }
    }
}

pub fn outcode_name(c: usize) -> String {
    match c as u8 {
        OC_OK => "Ok".into(),
        OC_DUP => "DuplicateId".into(),
        OC_UNKNOWN => "UnknownId".into(),
        OC_NONE => "None".into(),
        4..=6 => format!("Some(s{})", c - 4),
        7..=9 => format!("Count({})", c - 7),
        _ => "other".into(),
    }
}
pub fn outcode_index(c: u8) -> usize {
    if c == OC_BAD { 10 } else { c as usize }
}

// ---------------------------------------------------------------------------------------------
// Model states
// ---------------------------------------------------------------------------------------------

/// Per-id record: 0 = absent, 1 = present but expired, 2+s = live with state s.
pub type Rec = u8;
pub const ABSENT: Rec = 0;
pub const EXPIRED: Rec = 1;
pub fn live(s: u8) -> Rec {
    2 + s
}
pub fn is_live(r: Rec) -> bool {
    r >= 2
}
pub const NREC: usize = 2 + NSTATES; // 5

pub type MState = [Rec; NIDS];
pub const NMSTATES: usize = NREC * NREC; // 25

pub fn ms_index(s: &MState) -> usize {
    s[0] as usize * NREC + s[1] as usize
}
pub fn ms_from_index(i: usize) -> MState {
    [(i / NREC) as u8, (i % NREC) as u8]
}
pub fn ms_bit(s: &MState) -> u32 {
    1u32 << ms_index(s)
}
pub fn ms_describe(s: &MState) -> String {
    let d = |r: Rec| match r {
        ABSENT => "absent".to_string(),
        EXPIRED => "expired".to_string(),
        r => format!("live(s{})", r - 2),
    };
    format!("{{x:{}, y:{}}}", d(s[0]), d(s[1]))
}
pub fn mset_describe(m: u32) -> String {
    let mut v = Vec::new();
    for i in 0..NMSTATES {
        if m & (1 << i) != 0 {
            v.push(ms_describe(&ms_from_index(i)));
        }
    }
    format!("[{}]", v.join(" | "))
}

/// Class of one id over a set of model states: "live" / "expired" (an expired record was written
/// there and may still be physically present) / "absent".
pub fn class_of(m: u32, id: usize) -> &'static str {
    let mut any_live = false;
    let mut any_exp = false;
    for i in 0..NMSTATES {
        if m & (1 << i) != 0 {
            let r = ms_from_index(i)[id];
            if is_live(r) {
                any_live = true;
            } else if r == EXPIRED {
                any_exp = true;
            }
        }
    }
    if any_live {
        "live"
    } else if any_exp {
        "expired"
    } else {
        "absent"
    }
}

/// All states obtainable from `s` by physically dropping any subset of the *expired* records among
/// `ids` (a backend is free to garbage-collect an expired record whenever it touches it; this is
/// not observable through anything but the `delete_expired` count).
fn drop_variants(s: &MState, ids: &[usize]) -> Vec<MState> {
    let mut out = vec![*s];
    for &i in ids {
        if s[i] == EXPIRED {
            let mut more = Vec::new();
            for v in &out {
                let mut w = *v;
                w[i] = ABSENT;
                more.push(w);
            }
            out.extend(more);
        }
    }
    out.sort();
    out.dedup();
    out
}

/// THE SPECIFICATION. For an operation and a model state, every (outcome, successor) pair that
/// property C13 allows.
///
/// * a record is "dead" when absent or expired; dead records are indistinguishable for every
///   operation except the number returned by `delete_expired`;
/// * `create` on a live record must not overwrite it: `DuplicateId`, state unchanged. (`Ok` is only
///   tolerated when it is observationally indistinguishable, i.e. the same state with the same
///   1h TTL is written.) On a dead record: `Ok`, and the record becomes what was written;
/// * `update`/`update_ttl`/`delete`/`change_id(old)` on a dead record: `UnknownId`, no effect;
///   on a live record: `Ok` and the effect is applied atomically;
/// * `change_id(old,new)` with `new` live: `DuplicateId`, no effect (if `old` is dead as well both
///   error conditions hold and either error is accepted); `new` dead (absent OR expired): succeeds;
///   `change_id(a,a)` on a live `a`: no observable change, `Ok` or `DuplicateId` both accepted;
/// * `load` returns exactly the live state or `None`;
/// * `delete_expired(batch)` removes *only* expired records: it returns n <= min(batch, #expired)
///   and n expired records disappear; live records are untouched. (The property does not force a
///   lower bound on n.)
pub fn spec(op: Op, s: &MState) -> Vec<(u8, MState)> {
    let mut r: Vec<(u8, MState)> = Vec::new();
    match op {
        Op::Create { id, st, ttl } => {
            let i = id as usize;
            if is_live(s[i]) {
                r.push((OC_DUP, *s));
                if s[i] == live(st) && ttl == 1 {
                    r.push((OC_OK, *s));
                }
            } else {
                let mut n = *s;
                n[i] = if ttl == 0 { EXPIRED } else { live(st) };
                r.push((OC_OK, n));
            }
        }
        Op::Update { id, st, ttl } => {
            let i = id as usize;
            if is_live(s[i]) {
                let mut n = *s;
                n[i] = if ttl == 0 { EXPIRED } else { live(st) };
                r.push((OC_OK, n));
            } else {
                for v in drop_variants(s, &[i]) {
                    r.push((OC_UNKNOWN, v));
                }
            }
        }
        Op::UpdateTtl { id, ttl } => {
            let i = id as usize;
            if is_live(s[i]) {
                let mut n = *s;
                if ttl == 0 {
                    n[i] = EXPIRED;
                }
                r.push((OC_OK, n));
            } else {
                for v in drop_variants(s, &[i]) {
                    r.push((OC_UNKNOWN, v));
                }
            }
        }
        Op::Load { id } => {
            let i = id as usize;
            if is_live(s[i]) {
                r.push((OC_SOME0 + (s[i] - 2), *s));
            } else {
                for v in drop_variants(s, &[i]) {
                    r.push((OC_NONE, v));
                }
            }
        }
        Op::Delete { id } => {
            let i = id as usize;
            if is_live(s[i]) {
                let mut n = *s;
                n[i] = ABSENT;
                r.push((OC_OK, n));
            } else {
                for v in drop_variants(s, &[i]) {
                    r.push((OC_UNKNOWN, v));
                }
            }
        }
        Op::ChangeId { old, new } => {
            let (a, b) = (old as usize, new as usize);
            if a == b {
                if is_live(s[a]) {
                    r.push((OC_OK, *s));
                    r.push((OC_DUP, *s));
                } else {
                    for v in drop_variants(s, &[a]) {
                        r.push((OC_UNKNOWN, v));
                    }
                }
            } else {
                match (is_live(s[a]), is_live(s[b])) {
                    (true, false) => {
                        let mut n = *s;
                        n[b] = s[a];
                        n[a] = ABSENT;
                        r.push((OC_OK, n));
                    }
                    (true, true) => r.push((OC_DUP, *s)),
                    (false, false) => {
                        for v in drop_variants(s, &[a, b]) {
                            r.push((OC_UNKNOWN, v));
                        }
                    }
                    (false, true) => {
                        for v in drop_variants(s, &[a]) {
                            r.push((OC_UNKNOWN, v));
                            r.push((OC_DUP, v));
                        }
                    }
                }
            }
        }
        Op::DeleteExpired { batch } => {
            let expired: Vec<usize> = (0..NIDS).filter(|&i| s[i] == EXPIRED).collect();
            let limit = if batch == 0 { usize::MAX } else { 1 };
            // every subset of the expired ids within the limit
            for mask in 0..(1u32 << expired.len()) {
                let n = mask.count_ones() as usize;
                if n > limit {
                    continue;
                }
                let mut st = *s;
                for (k, &i) in expired.iter().enumerate() {
                    if mask & (1 << k) != 0 {
                        st[i] = ABSENT;
                    }
                }
                r.push((OC_COUNT0 + n as u8, st));
            }
        }
    }
    r
}

/// Precomputed `spec` over the whole alphabet x all 25 model states.
pub struct Table {
    pub ops: Vec<Op>,
    /// [op_index * NMSTATES + state_index] -> [(outcode, successor bit)]
    cells: Vec<Vec<(u8, u32)>>,
}

impl Table {
    pub fn new() -> Table {
        Table::build(false)
    }
    /// The reference of Part 3b: as `new`, plus the recorded SQLite deviation (finding
    /// `sqlite:create:id=live->ok`): `create` on a live id may return `Ok` without any effect.
    pub fn new_sqlite_stmt() -> Table {
        Table::build(true)
    }
    fn build(create_on_live_may_be_a_silent_noop: bool) -> Table {
        let ops = alphabet();
        let mut cells = Vec::with_capacity(ops.len() * NMSTATES);
        for op in &ops {
            for si in 0..NMSTATES {
                let s = ms_from_index(si);
                let mut sp = spec(*op, &s);
                if create_on_live_may_be_a_silent_noop {
                    if let Op::Create { id, .. } = op {
                        if is_live(s[*id as usize]) {
                            sp.push((OC_OK, s));
                        }
                    }
                }
                let mut c: Vec<(u8, u32)> = sp.into_iter().map(|(o, n)| (o, ms_bit(&n))).collect();
                c.sort();
                c.dedup();
                cells.push(c);
            }
        }
        Table { ops, cells }
    }
    pub fn op_index(&self, op: Op) -> usize {
        self.ops
            .iter()
            .position(|o| *o == op)
            .unwrap_or_else(|| verif_common::machinery_error("operation outside the alphabet"))
    }
    /// Successor set of `mset` under `op` given the observed outcome code (0 = not allowed).
    #[inline]
    pub fn step(&self, mset: u32, op_idx: usize, outcode: u8) -> u32 {
        let mut next = 0u32;
        let mut m = mset;
        while m != 0 {
            let si = m.trailing_zeros() as usize;
            m &= m - 1;
            for (o, n) in &self.cells[op_idx * NMSTATES + si] {
                if *o == outcode {
                    next |= *n;
                }
            }
        }
        next
    }
    /// Outcomes the model allows for `op` from `mset` (for messages).
    pub fn allowed(&self, mset: u32, op_idx: usize) -> Vec<u8> {
        let mut v = Vec::new();
        for si in 0..NMSTATES {
            if mset & (1 << si) != 0 {
                for (o, _) in &self.cells[op_idx * NMSTATES + si] {
                    v.push(*o);
                }
            }
        }
        v.sort();
        v.dedup();
        v
    }
}

pub const EMPTY_MSET: u32 = 1; // bit 0 = {x: absent, y: absent}

// ---------------------------------------------------------------------------------------------
// Step-by-step conformance checker (shared by every sequential path)
// ---------------------------------------------------------------------------------------------

#[derive(Clone, Debug)]
pub struct VInfo {
    pub key: String,
    pub what: String,
    pub step: usize,
}

/// Tracks the set of model states compatible with the observations so far. After a flagged
/// deviation the set is re-synchronised from the store's own `load` probes so that the remainder of
/// the history is still checked (relative to what the implementation now claims to hold).
#[derive(Clone, Copy)]
pub struct Checker {
    pub mset: u32,
    /// last successful write per id: (kind index, model set *before* that write, id role index)
    last_write: [Option<(u8, u32)>; NIDS],
}

impl Checker {
    pub fn new() -> Checker {
        Checker { mset: EMPTY_MSET, last_write: [None; NIDS] }
    }

    fn classes(&self, op: Op) -> String {
        match op {
            Op::Create { id, .. }
            | Op::Update { id, .. }
            | Op::UpdateTtl { id, .. }
            | Op::Load { id }
            | Op::Delete { id } => format!("id={}", class_of(self.mset, id as usize)),
            Op::ChangeId { old, new } if old == new => format!("old=new={}", class_of(self.mset, old as usize)),
            Op::ChangeId { old, new } => format!(
                "old={},new={}",
                class_of(self.mset, old as usize),
                class_of(self.mset, new as usize)
            ),
            Op::DeleteExpired { .. } => {
                let n_exp = (0..NIDS).filter(|&i| class_of(self.mset, i) == "expired").count();
                let n_live = (0..NIDS).filter(|&i| class_of(self.mset, i) == "live").count();
                format!("expired<={n_exp},live={n_live}")
            }
        }
    }

    fn after(&self, id: usize) -> String {
        match self.last_write[id] {
            None => "none".into(),
            Some((k, pre)) => format!("{}@{}", KINDS[k as usize], class_of(pre, id)),
        }
    }

    /// Feed one operation and its observed outcome. Returns a violation if the outcome is not
    /// allowed; in that case the caller must call `resync` with fresh probes.
    #[inline]
    pub fn on_op(&mut self, tbl: &Table, backend: &str, step: usize, op: Op, op_idx: usize, out: &Out) -> Option<VInfo> {
        let code = out.code();
        let next = if code == OC_BAD { 0 } else { tbl.step(self.mset, op_idx, code) };
        if next != 0 {
            // bookkeeping for keys: remember the last successful write per id
            if code == OC_OK {
                match op {
                    Op::Create { id, .. } | Op::Update { id, .. } | Op::UpdateTtl { id, .. } => {
                        self.last_write[id as usize] = Some((op.kind() as u8, self.mset));
                    }
                    Op::ChangeId { new, old } if new != old => {
                        self.last_write[new as usize] = Some((op.kind() as u8, self.mset));
                    }
                    _ => {}
                }
            }
            self.mset = next;
            return None;
        }
        let allowed: Vec<String> = tbl
            .allowed(self.mset, op_idx)
            .iter()
            .map(|c| outcode_name(*c as usize))
            .collect();
        let (key, what) = match op {
            Op::Load { id } => self.load_violation(backend, id as usize, out, &format!("step {step}: {}", op.short())),
            _ => (
                format!("{backend}:{}:{}->{}", op.kind_name(), self.classes(op), out.key_name()),
                format!(
                    "step {step}: {} returned {} but the map-with-expiry model {} allows only {{{}}}",
                    op.short(),
                    out.short(),
                    mset_describe(self.mset),
                    allowed.join(", ")
                ),
            ),
        };
        Some(VInfo { key, what, step })
    }

    fn load_violation(&self, backend: &str, id: usize, out: &Out, ctx: &str) -> (String, String) {
        let cls = class_of(self.mset, id);
        let outname = match (cls, out) {
            ("live", Out::Loaded(Some(s))) if (*s as usize) < NSTATES => "wrong_state".to_string(),
            _ => out.key_name(),
        };
        (
            format!("{backend}:load:{cls}->{outname}:after={}", self.after(id)),
            format!(
                "{ctx}: load({}) returned {} but the model {} requires {}; last successful write to that id: {}",
                ID_NAMES[id],
                out.short(),
                mset_describe(self.mset),
                if cls == "live" { "exactly the live state" } else { "None" },
                self.after(id)
            ),
        )
    }

    /// Feed the two probe loads (x, y) executed after an operation. They are pure observations.
    #[inline]
    pub fn on_probes(&mut self, tbl: &Table, load_idx: [usize; 2], backend: &str, step: usize, probes: &[Out; 2]) -> Option<VInfo> {
        let mut m = self.mset;
        for id in 0..NIDS {
            let code = probes[id].code();
            let next = if code == OC_BAD { 0 } else { tbl.step(m, load_idx[id], code) };
            if next == 0 {
                let saved = self.mset;
                self.mset = m;
                let (key, what) = self.load_violation(backend, id, &probes[id], &format!("probe after step {step}"));
                self.mset = saved;
                return Some(VInfo { key, what, step });
            }
            m = next;
        }
        self.mset = m;
        None
    }

    /// Re-synchronise the model from probe loads after a flagged deviation.
    pub fn resync(&mut self, probes: &[Out; 2]) {
        let mut m = 0u32;
        for si in 0..NMSTATES {
            let s = ms_from_index(si);
            let ok = (0..NIDS).all(|i| match &probes[i] {
                Out::Loaded(Some(st)) if (*st as usize) < NSTATES => s[i] == live(*st),
                Out::Loaded(Some(_)) => is_live(s[i]),
                _ => !is_live(s[i]),
            });
            if ok {
                m |= 1 << si;
            }
        }
        self.mset = m;
    }
}
