//! Target structs ("shapes") and the functions that drive the *real* pavex extractors with them.
use crate::val::{ErrInfo, Outcome, ToVal, Ty, Val};
use pavex::http::{HeaderMap, HeaderValue, Method, Uri, Version};
use pavex::request::RequestHead;
use pavex::request::body::errors::{ExtractJsonBodyError, ExtractUrlEncodedBodyError};
use pavex::request::body::{BufferedBody, JsonBody, UrlEncodedBody};
use pavex::request::path::errors::{ErrorKind, ExtractPathParamsError};
use pavex::request::path::{PathParams, RawPathParams};
use pavex::request::query::QueryParams;
use pavex::request::query::errors::ExtractQueryParamsError;
use std::borrow::Cow;
use std::panic::{AssertUnwindSafe, catch_unwind};

pub trait Norm {
    fn norm(&self) -> Vec<(String, Val)>;
}

/// A family of target types indexed by the borrow lifetime.
pub trait Shape: 'static {
    type T<'de>: serde::Deserialize<'de> + Norm;
    const NAME: &'static str;
    fn fields() -> &'static [(&'static str, Ty)];
}

#[derive(serde::Deserialize, Debug, Clone, Copy, PartialEq, Eq)]
pub struct Id(pub u32);
impl ToVal for Id {
    fn to_val(&self) -> Val {
        Val::U(self.0 as u64)
    }
}

macro_rules! shape {
    ($fam:ident, $st:ident<$lt:lifetime> { $( $(#[$attr:meta])* $f:ident : $t:ty => $ty:expr ),* $(,)? }) => {
        #[derive(serde::Deserialize, Debug)]
        pub struct $st<$lt> {
            $( $(#[$attr])* pub $f: $t, )*
            #[serde(skip)]
            _p: std::marker::PhantomData<&$lt ()>,
        }
        impl<$lt> Norm for $st<$lt> {
            fn norm(&self) -> Vec<(String, Val)> {
                let _ = &self._p;
                vec![$( (stringify!($f).to_string(), self.$f.to_val()) ),*]
            }
        }
        pub struct $fam;
        impl Shape for $fam {
            type T<'de> = $st<'de>;
            const NAME: &'static str = stringify!($st);
            fn fields() -> &'static [(&'static str, Ty)] {
                const F: &[(&str, Ty)] = &[$( (stringify!($f), $ty) ),*];
                F
            }
        }
    };
}

// ---- single-field shapes, field name `x` ----
shape!(FXString, XString<'a> { x: String => Ty::Str });
shape!(FXBStr, XBStr<'a> { x: &'a str => Ty::BStr });
shape!(FXCow, XCow<'a> { #[serde(borrow)] x: Cow<'a, str> => Ty::CowStr });
shape!(FXU8, XU8<'a> { x: u8 => Ty::U8 });
shape!(FXU16, XU16<'a> { x: u16 => Ty::U16 });
shape!(FXU32, XU32<'a> { x: u32 => Ty::U32 });
shape!(FXU64, XU64<'a> { x: u64 => Ty::U64 });
shape!(FXI64, XI64<'a> { x: i64 => Ty::I64 });
shape!(FXF64, XF64<'a> { x: f64 => Ty::F64 });
shape!(FXBool, XBool<'a> { x: bool => Ty::Bool });
shape!(FXChar, XChar<'a> { x: char => Ty::Char });
shape!(FXNew, XNew<'a> { x: Id => Ty::NewU32 });
shape!(FXOptString, XOptString<'a> { x: Option<String> => Ty::Opt(&Ty::Str) });
shape!(FXOptU32, XOptU32<'a> { x: Option<u32> => Ty::Opt(&Ty::U32) });
shape!(FXOptCow, XOptCow<'a> { #[serde(borrow)] x: Option<Cow<'a, str>> => Ty::Opt(&Ty::CowStr) });

// ---- three fields, every declaration order (binding must be by NAME) ----
shape!(FMabc, Mabc<'a> { a: String => Ty::Str, #[serde(borrow)] b: Cow<'a, str> => Ty::CowStr, c: u32 => Ty::U32 });
shape!(FMacb, Macb<'a> { a: String => Ty::Str, c: u32 => Ty::U32, #[serde(borrow)] b: Cow<'a, str> => Ty::CowStr });
shape!(FMbac, Mbac<'a> { #[serde(borrow)] b: Cow<'a, str> => Ty::CowStr, a: String => Ty::Str, c: u32 => Ty::U32 });
shape!(FMbca, Mbca<'a> { #[serde(borrow)] b: Cow<'a, str> => Ty::CowStr, c: u32 => Ty::U32, a: String => Ty::Str });
shape!(FMcab, Mcab<'a> { c: u32 => Ty::U32, a: String => Ty::Str, #[serde(borrow)] b: Cow<'a, str> => Ty::CowStr });
shape!(FMcba, Mcba<'a> { c: u32 => Ty::U32, #[serde(borrow)] b: Cow<'a, str> => Ty::CowStr, a: String => Ty::Str });

// ---- every supported field type in one struct, two declaration orders ----
shape!(FWfwd, Wfwd<'a> {
    s: String => Ty::Str,
    #[serde(borrow)] w: Cow<'a, str> => Ty::CowStr,
    n8: u8 => Ty::U8,
    n16: u16 => Ty::U16,
    n32: u32 => Ty::U32,
    n64: u64 => Ty::U64,
    i: i64 => Ty::I64,
    f: f64 => Ty::F64,
    b: bool => Ty::Bool,
    c: char => Ty::Char,
    o: Option<u32> => Ty::Opt(&Ty::U32),
    id: Id => Ty::NewU32,
});
shape!(FWrev, Wrev<'a> {
    id: Id => Ty::NewU32,
    o: Option<u32> => Ty::Opt(&Ty::U32),
    c: char => Ty::Char,
    b: bool => Ty::Bool,
    f: f64 => Ty::F64,
    i: i64 => Ty::I64,
    n64: u64 => Ty::U64,
    n32: u32 => Ty::U32,
    n16: u16 => Ty::U16,
    n8: u8 => Ty::U8,
    #[serde(borrow)] w: Cow<'a, str> => Ty::CowStr,
    s: String => Ty::Str,
});

// ---- sequences (query / form / json; unsupported for paths) ----
shape!(FSeqStr, SeqStr<'a> { v: Vec<String> => Ty::Seq(&Ty::Str), s: String => Ty::Str });
shape!(FSeqU32, SeqU32<'a> { s: String => Ty::Str, v: Vec<u32> => Ty::Seq(&Ty::U32) });
shape!(FSeqOpt, SeqOpt<'a> { v: Vec<Option<u32>> => Ty::Seq(&Ty::Opt(&Ty::U32)), s: String => Ty::Str });

pub struct Entry {
    pub name: &'static str,
    pub fields: &'static [(&'static str, Ty)],
    pub path: fn(&matchit::Router<u32>, &str) -> Outcome,
    pub query: fn(&str) -> Outcome,
    pub form: fn(Option<&[u8]>, &[u8]) -> Outcome,
    pub json: fn(Option<&[u8]>, &[u8]) -> Outcome,
}

fn entry<S: Shape>() -> Entry {
    Entry {
        name: S::NAME,
        fields: S::fields(),
        path: run_path::<S>,
        query: run_query::<S>,
        form: run_form::<S>,
        json: run_json::<S>,
    }
}

pub fn registry() -> Vec<Entry> {
    vec![
        entry::<FXString>(),
        entry::<FXBStr>(),
        entry::<FXCow>(),
        entry::<FXU8>(),
        entry::<FXU16>(),
        entry::<FXU32>(),
        entry::<FXU64>(),
        entry::<FXI64>(),
        entry::<FXF64>(),
        entry::<FXBool>(),
        entry::<FXChar>(),
        entry::<FXNew>(),
        entry::<FXOptString>(),
        entry::<FXOptU32>(),
        entry::<FXOptCow>(),
        entry::<FMabc>(),
        entry::<FMacb>(),
        entry::<FMbac>(),
        entry::<FMbca>(),
        entry::<FMcab>(),
        entry::<FMcba>(),
        entry::<FWfwd>(),
        entry::<FWrev>(),
        entry::<FSeqStr>(),
        entry::<FSeqU32>(),
        entry::<FSeqOpt>(),
    ]
}

fn panic_msg(p: Box<dyn std::any::Any + Send>) -> String {
    if let Some(s) = p.downcast_ref::<&str>() {
        s.to_string()
    } else if let Some(s) = p.downcast_ref::<String>() {
        s.clone()
    } else {
        "<non-string panic payload>".to_string()
    }
}

fn head(target: Uri, content_type: Option<&[u8]>) -> RequestHead {
    let mut headers = HeaderMap::new();
    if let Some(ct) = content_type {
        let v = HeaderValue::from_bytes(ct).unwrap_or_else(|_| {
            verif_common::machinery_error("harness produced an illegal header value")
        });
        headers.insert(pavex::http::header::CONTENT_TYPE, v);
    }
    RequestHead {
        method: Method::POST,
        target,
        version: Version::HTTP_11,
        headers,
    }
}

/// Path parameters, the way the generated router does it:
/// `router.at(request_head.target.path())` → `matched_route.params.into()` → `PathParams::extract`.
pub fn run_path<S: Shape>(router: &matchit::Router<u32>, target: &str) -> Outcome {
    let Ok(uri) = Uri::try_from(target.as_bytes()) else {
        return Outcome::UriRejected;
    };
    let request_head = head(uri, None);
    let Ok(matched_route) = router.at(request_head.target.path()) else {
        return Outcome::NotRouted;
    };
    let raw: RawPathParams<'_, '_> = matched_route.params.into();
    let r = catch_unwind(AssertUnwindSafe(|| {
        PathParams::<S::T<'_>>::extract(raw).map(|p| p.0.norm())
    }));
    match r {
        Err(p) => Outcome::Panic(panic_msg(p)),
        Ok(Ok(v)) => Outcome::Ok(v),
        Ok(Err(e)) => {
            let display = e.to_string();
            let mut info = ErrInfo {
                display,
                ..Default::default()
            };
            match &e {
                ExtractPathParamsError::InvalidUtf8InPathParameter(_) => {
                    info.variant = "InvalidUtf8InPathParameter".into();
                }
                ExtractPathParamsError::PathDeserializationError(d) => match d.kind() {
                    ErrorKind::ParseErrorAtKey {
                        key,
                        value,
                        expected_type,
                    } => {
                        info.variant = "PathDeserializationError::ParseErrorAtKey".into();
                        info.key = Some(key.clone());
                        info.value = Some(value.clone());
                        info.expected_type = Some(expected_type.to_string());
                    }
                    ErrorKind::ParseError {
                        value,
                        expected_type,
                    } => {
                        info.variant = "PathDeserializationError::ParseError".into();
                        info.value = Some(value.clone());
                        info.expected_type = Some(expected_type.to_string());
                    }
                    ErrorKind::UnsupportedType { name } => {
                        info.variant = "PathDeserializationError::UnsupportedType".into();
                        info.expected_type = Some(name.to_string());
                    }
                    ErrorKind::Message(_) => {
                        info.variant = "PathDeserializationError::Message".into();
                    }
                    _ => info.variant = "PathDeserializationError::<unknown kind>".into(),
                },
                _ => info.variant = "<unknown ExtractPathParamsError variant>".into(),
            }
            Outcome::Err(info)
        }
    }
}

pub fn run_query<S: Shape>(target: &str) -> Outcome {
    let Ok(uri) = Uri::try_from(target.as_bytes()) else {
        return Outcome::UriRejected;
    };
    let request_head = head(uri, None);
    let r = catch_unwind(AssertUnwindSafe(|| {
        QueryParams::<S::T<'_>>::extract(&request_head).map(|p| p.0.norm())
    }));
    match r {
        Err(p) => Outcome::Panic(panic_msg(p)),
        Ok(Ok(v)) => Outcome::Ok(v),
        Ok(Err(e)) => {
            let display = e.to_string();
            let variant = match &e {
                ExtractQueryParamsError::QueryDeserializationError(_) => {
                    "QueryDeserializationError"
                }
                _ => "<unknown ExtractQueryParamsError variant>",
            };
            Outcome::Err(ErrInfo {
                variant: variant.into(),
                display,
                ..Default::default()
            })
        }
    }
}

/// `BufferedBody` is `#[non_exhaustive]`: build it through hook H1 with a one-frame body.
fn buffered(body: &[u8]) -> BufferedBody {
    use pavex::response::body::raw::{Bytes, Full};
    use pavex::unit::ToByteUnit;
    use std::future::Future;
    use std::task::{Context, Poll, Waker};
    let h = head(Uri::from_static("/"), None);
    let fut = BufferedBody::verif_extract_with_limit(
        &h,
        Full::new(Bytes::copy_from_slice(body)),
        64.mebibytes(),
    );
    let mut fut = std::pin::pin!(fut);
    let mut cx = Context::from_waker(Waker::noop());
    for _ in 0..16 {
        if let Poll::Ready(r) = fut.as_mut().poll(&mut cx) {
            return r.unwrap_or_else(|e| {
                verif_common::machinery_error(&format!("cannot buffer harness body: {e}"))
            });
        }
    }
    verif_common::machinery_error("in-memory body did not become ready")
}

pub fn run_form<S: Shape>(content_type: Option<&[u8]>, body: &[u8]) -> Outcome {
    let request_head = head(Uri::from_static("/form"), content_type);
    let buffered_body = buffered(body);
    if buffered_body.bytes.as_ref() != body {
        verif_common::machinery_error("buffered body differs from harness body");
    }
    let r = catch_unwind(AssertUnwindSafe(|| {
        UrlEncodedBody::<S::T<'_>>::extract(&request_head, &buffered_body).map(|p| p.0.norm())
    }));
    match r {
        Err(p) => Outcome::Panic(panic_msg(p)),
        Ok(Ok(v)) => Outcome::Ok(v),
        Ok(Err(e)) => {
            let display = e.to_string();
            let mut info = ErrInfo {
                display,
                ..Default::default()
            };
            match &e {
                ExtractUrlEncodedBodyError::MissingContentType(_) => {
                    info.variant = "MissingContentType".into()
                }
                ExtractUrlEncodedBodyError::ContentTypeMismatch(m) => {
                    info.variant = "ContentTypeMismatch".into();
                    info.actual = Some(m.actual.clone());
                }
                ExtractUrlEncodedBodyError::DeserializationError(_) => {
                    info.variant = "DeserializationError".into()
                }
                _ => info.variant = "<unknown ExtractUrlEncodedBodyError variant>".into(),
            }
            Outcome::Err(info)
        }
    }
}

pub fn run_json<S: Shape>(content_type: Option<&[u8]>, body: &[u8]) -> Outcome {
    let request_head = head(Uri::from_static("/json"), content_type);
    let buffered_body = buffered(body);
    if buffered_body.bytes.as_ref() != body {
        verif_common::machinery_error("buffered body differs from harness body");
    }
    let r = catch_unwind(AssertUnwindSafe(|| {
        JsonBody::<S::T<'_>>::extract(&request_head, &buffered_body).map(|p| p.0.norm())
    }));
    match r {
        Err(p) => Outcome::Panic(panic_msg(p)),
        Ok(Ok(v)) => Outcome::Ok(v),
        Ok(Err(e)) => {
            let display = e.to_string();
            let mut info = ErrInfo {
                display,
                ..Default::default()
            };
            match &e {
                ExtractJsonBodyError::MissingContentType(_) => {
                    info.variant = "MissingContentType".into()
                }
                ExtractJsonBodyError::ContentTypeMismatch(m) => {
                    info.variant = "ContentTypeMismatch".into();
                    info.actual = Some(m.actual.clone());
                }
                ExtractJsonBodyError::DeserializationError(_) => {
                    info.variant = "DeserializationError".into()
                }
                _ => info.variant = "<unknown ExtractJsonBodyError variant>".into(),
            }
            Outcome::Err(info)
        }
    }
}

// ------------------------------------------------------------------------------------------------
// NESTING dimension (JSON): recursive / self-describing targets and documents nested `depth` levels.
// Runs in a CHILD process (a stack overflow aborts the process, it cannot be caught), on a thread
// with the default 2 MiB stack of `std::thread::spawn` (what a server worker thread gets).
// ------------------------------------------------------------------------------------------------
#[derive(serde::Deserialize, Debug)]
pub struct NestRec {
    #[serde(default)]
    pub replies: Vec<NestRec>,
    #[serde(default)]
    pub n: u32,
}

pub const NEST_SHAPES: [&str; 3] = ["rec_obj", "value_arr", "value_obj"];

pub fn nest_document(shape: &str, depth: usize) -> Vec<u8> {
    let (open, close, leaf): (&str, &str, &str) = match shape {
        "rec_obj" => ("{\"n\":1,\"replies\":[", "]}", "{\"n\":7}"),
        "value_arr" => ("[", "]", "7"),
        "value_obj" => ("{\"k\":", "}", "7"),
        _ => verif_common::machinery_error("unknown nesting shape"),
    };
    let mut s = String::with_capacity((open.len() + close.len()) * depth + leaf.len());
    for _ in 0..depth {
        s.push_str(open);
    }
    s.push_str(leaf);
    for _ in 0..depth {
        s.push_str(close);
    }
    s.into_bytes()
}

/// Child side: extract, measure the nesting of what came back WITHOUT recursion, leak the value
/// (dropping a deep tree recurses too, and that would be the application's business, not the extractor's).
pub fn nest_child(shape: &str, depth: usize) -> String {
    let body = nest_document(shape, depth);
    let request_head = head(Uri::from_static("/json"), Some(b"application/json"));
    let buffered_body = buffered(&body);
    let shape = shape.to_string();
    let h = std::thread::spawn(move || {
        let r = catch_unwind(AssertUnwindSafe(|| -> Result<usize, String> {
            if shape == "rec_obj" {
                match JsonBody::<NestRec>::extract(&request_head, &buffered_body) {
                    Ok(v) => {
                        let mut cur: &NestRec = &v.0;
                        let mut d = 0usize;
                        let mut ok = true;
                        while let Some(next) = cur.replies.first() {
                            ok &= cur.n == 1 && cur.replies.len() == 1;
                            cur = next;
                            d += 1;
                        }
                        ok &= cur.n == 7;
                        let out = if ok { Ok(d) } else { Err("WRONG-VALUE".to_string()) };
                        std::mem::forget(v);
                        out
                    }
                    Err(e) => Err(json_variant(&e)),
                }
            } else {
                match JsonBody::<serde_json::Value>::extract(&request_head, &buffered_body) {
                    Ok(v) => {
                        let mut cur: &serde_json::Value = &v.0;
                        let mut d = 0usize;
                        loop {
                            match cur {
                                serde_json::Value::Array(a) if a.len() == 1 => cur = &a[0],
                                serde_json::Value::Object(o) if o.len() == 1 && o.contains_key("k") => cur = &o["k"],
                                _ => break,
                            }
                            d += 1;
                        }
                        let out = if cur == &serde_json::json!(7) { Ok(d) } else { Err("WRONG-VALUE".to_string()) };
                        std::mem::forget(v);
                        out
                    }
                    Err(e) => Err(json_variant(&e)),
                }
            }
        }));
        match r {
            Err(p) => format!("NEST panic {}", panic_msg(p)),
            Ok(Ok(d)) => format!("NEST ok {d}"),
            Ok(Err(v)) => format!("NEST err {v}"),
        }
    });
    h.join().unwrap_or_else(|_| "NEST panic (thread)".to_string())
}

fn json_variant(e: &ExtractJsonBodyError) -> String {
    match e {
        ExtractJsonBodyError::MissingContentType(_) => "MissingContentType".into(),
        ExtractJsonBodyError::ContentTypeMismatch(_) => "ContentTypeMismatch".into(),
        ExtractJsonBodyError::DeserializationError(_) => "DeserializationError".into(),
        _ => "<unknown ExtractJsonBodyError variant>".into(),
    }
}
