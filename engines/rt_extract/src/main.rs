//! rt_extract — property C15: typed request data equals what the client encoded, or a clean error.
//!
//! Exhaustive enumeration of (target struct, value, per-character wire encoding) for the four
//! extractors, executed against the real `pavex` constructors, compared with a small reference.
mod cases;
mod refmodel;
mod shapes;
mod val;

use cases::{Bounds, Case, Sink};
use refmodel::Channel;
use serde_json::{Value, json};
use shapes::Entry;
use std::collections::{BTreeMap, HashSet};
use std::hash::{Hash, Hasher};
use std::sync::Mutex;
use std::sync::atomic::{AtomicUsize, Ordering};
use val::{Expect, Outcome, judge};

fn hex(b: &[u8]) -> String {
    b.iter().map(|x| format!("{x:02x}")).collect()
}
fn unhex(s: &str) -> Vec<u8> {
    (0..s.len() / 2)
        .map(|i| u8::from_str_radix(&s[2 * i..2 * i + 2], 16).unwrap_or_else(|_| verif_common::machinery_error("bad hex in replay")))
        .collect()
}

fn execute(router: &matchit::Router<u32>, e: &Entry, ch: Channel, wire: &[u8], ct: Option<&[u8]>) -> Outcome {
    match ch {
        Channel::Path | Channel::Query => {
            let Ok(target) = std::str::from_utf8(wire) else {
                return Outcome::UriRejected;
            };
            if ch == Channel::Path {
                (e.path)(router, target)
            } else {
                (e.query)(target)
            }
        }
        Channel::Form => (e.form)(ct, wire),
        Channel::Json => (e.json)(ct, wire),
    }
}

fn branch(exp: &Expect) -> &'static str {
    if exp.undeliverable {
        "undeliverable"
    } else if exp.ok.is_empty() {
        "must-err"
    } else if exp.err.is_empty() {
        "must-ok"
    } else {
        "ok-or-err"
    }
}

fn outcome_label(o: &Outcome) -> String {
    match o {
        Outcome::Ok(_) => "Ok".into(),
        Outcome::Err(e) => format!("Err({})", e.variant),
        Outcome::Panic(_) => "PANIC".into(),
        Outcome::UriRejected => "uri-rejected".into(),
        Outcome::NotRouted => "not-routed".into(),
    }
}

fn case_json(c: &Case) -> Value {
    json!({
        "channel": c.channel.as_str(),
        "shape": c.shape,
        "wire": String::from_utf8_lossy(&c.wire),
        "wire_hex": hex(&c.wire),
        "content_type": c.content_type.as_ref().map(|b| String::from_utf8_lossy(b).to_string()),
        "content_type_hex": c.content_type.as_ref().map(|b| hex(b)),
        "client_meant": c.logical,
        "expect": serde_json::to_value(&c.expect).unwrap(),
    })
}

struct Found {
    key: String,
    what: String,
    case: Value,
}

#[derive(Default)]
struct Stats {
    evaluations: u64,
    distinct: u64,
    distinct_nontrivial: u64,
    dropped_ambiguous: u64,
    violations_beyond_witness_cap: u64,
    /// "channel/base/branch -> outcome" → count
    histogram: BTreeMap<String, u64>,
    /// per channel
    per_channel: BTreeMap<String, u64>,
    samples: BTreeMap<String, Vec<Value>>,
    found: Vec<Found>,
}

impl Stats {
    fn merge(&mut self, o: Stats) {
        self.evaluations += o.evaluations;
        self.distinct += o.distinct;
        self.distinct_nontrivial += o.distinct_nontrivial;
        self.dropped_ambiguous += o.dropped_ambiguous;
        self.violations_beyond_witness_cap += o.violations_beyond_witness_cap;
        for (k, v) in o.histogram {
            *self.histogram.entry(k).or_default() += v;
        }
        for (k, v) in o.per_channel {
            *self.per_channel.entry(k).or_default() += v;
        }
        for (k, v) in o.samples {
            let e = self.samples.entry(k).or_default();
            for s in v {
                if e.is_empty() {
                    e.push(s);
                }
            }
        }
        self.found.extend(o.found);
    }
}

/// Per-job sink: executes each case against the real code and judges it.
struct JobSink<'a> {
    router: &'a matchit::Router<u32>,
    entry: &'a Entry,
    seen: HashSet<u64>,
    found_per_key: BTreeMap<String, u64>,
    stats: Stats,
}

impl Sink for JobSink<'_> {
    fn dropped_ambiguous(&mut self, n: usize) {
        self.stats.dropped_ambiguous += n as u64;
    }
    fn check(&mut self, case: Case) {
        if case.shape != self.entry.name {
            verif_common::machinery_error("case routed to the wrong job");
        }
        self.stats.evaluations += 1;
        let mut h = std::collections::hash_map::DefaultHasher::new();
        (case.channel, &case.wire, &case.content_type).hash(&mut h);
        let fresh = self.seen.insert(h.finish());
        let br = branch(&case.expect);
        let trivial = case.base == "literal" && br == "must-ok";
        if fresh {
            self.stats.distinct += 1;
            if !trivial {
                self.stats.distinct_nontrivial += 1;
            }
        }
        let out = execute(self.router, self.entry, case.channel, &case.wire, case.content_type.as_deref());
        let class = format!("{}/{}/{}", case.channel.as_str(), case.base, br);
        *self.stats.histogram.entry(format!("{class} -> {}", outcome_label(&out))).or_default() += 1;
        *self.stats.per_channel.entry(case.channel.as_str().into()).or_default() += 1;
        let smp = self.stats.samples.entry(class).or_default();
        if smp.len() < 1 {
            let mut j = case_json(&case);
            j["observed"] = serde_json::to_value(&out).unwrap();
            smp.push(j);
        }
        if let Some(kind) = judge(&case.expect, &out) {
            let kind = refine_kind(kind, &case.expect, &out);
            // determinism: the same case must give the same verdict again
            let again = execute(self.router, self.entry, case.channel, &case.wire, case.content_type.as_deref());
            if again != out {
                verif_common::machinery_error(&format!(
                    "nondeterministic outcome for {} {} {:?}",
                    case.channel.as_str(),
                    case.shape,
                    String::from_utf8_lossy(&case.wire)
                ));
            }
            let key = format!("{}:{}:{}", case.channel.as_str(), key_group(case.base), kind);
            let n = self.found_per_key.entry(key.clone()).or_default();
            *n += 1;
            if *n > 3 {
                // enough witnesses for this key from this job (all are still counted)
                self.stats.violations_beyond_witness_cap += 1;
                return;
            }
            let what = format!(
                "{} extractor, target {} {:?}, wire {:?} (client meant {}): observed {:?}, expected {}",
                case.channel.as_str(),
                case.shape,
                self.entry.fields.iter().map(|(n, t)| format!("{n}: {}", t.name())).collect::<Vec<_>>(),
                String::from_utf8_lossy(&case.wire),
                case.logical,
                out,
                describe_expect(&case.expect),
            );
            self.stats.found.push(Found {
                key,
                what,
                case: case_json(&case),
            });
        }
    }
}

/// Violation keys name the mechanism, not the generator: all value round-trip families share
/// one group so that one defect gives very few keys.
fn key_group(base: &str) -> &str {
    match base {
        "long-parse-error" => "parse-error",
        "long-invalid-utf8" => "invalid-utf8",
        "invalid-utf8" | "content-type" | "sequence" | "sequence-malformed" | "repeated-scalar-key"
        | "trailing-garbage" | "malformed-json" | "missing-field" | "empty-segment" | "unsupported-seq" => base,
        _ => "roundtrip",
    }
}

/// A wrong error whose only flaw is that the echoed value is a shortened form of the documented
/// one gets its own kind.
fn refine_kind(kind: &'static str, exp: &Expect, out: &Outcome) -> &'static str {
    if kind != "wrong-error" {
        return kind;
    }
    let Outcome::Err(e) = out else { return kind };
    let Some(got) = &e.value else { return kind };
    for p in &exp.err {
        if let Some(want) = &p.value {
            let mut relaxed = p.clone();
            relaxed.value = None;
            let stem = got.trim_end_matches("...").trim_end_matches('…');
            let marked = got.ends_with("...") || got.ends_with('…');
            if relaxed.matches(e)
                && got != want
                && !stem.is_empty()
                && (marked || stem.len() >= 16)
                && stem.len() < want.len()
                && want.starts_with(stem)
            {
                return "value-truncated";
            }
        }
    }
    kind
}

fn describe_pat(p: &val::ErrPat) -> String {
    if p.variant.is_empty() {
        return "<any documented error>".to_string();
    }
    let mut s = p.variant.clone();
    let mut parts = vec![];
    for (k, v) in [("key", &p.key), ("value", &p.value), ("expected_type", &p.expected_type), ("actual", &p.actual)] {
        if let Some(v) = v {
            parts.push(format!("{k}={v:?}"));
        }
    }
    if !p.display_contains.is_empty() {
        parts.push(format!("message contains {:?}", p.display_contains));
    }
    if !parts.is_empty() {
        s.push_str(&format!("{{{}}}", parts.join(", ")));
    }
    s
}

fn describe_expect(e: &Expect) -> String {
    if e.undeliverable {
        return "request not routed to the extractor".into();
    }
    let mut parts = vec![];
    if !e.ok.is_empty() {
        parts.push(format!("Ok with one of {:?}", e.ok));
    }
    if !e.err.is_empty() {
        parts.push(format!(
            "an error matching one of {:?}",
            e.err.iter().map(describe_pat).collect::<Vec<_>>()
        ));
    }
    parts.join(" or ")
}

#[derive(Clone, Copy, PartialEq)]
enum Kind {
    Single,
    Multi,
    Wide,
    Seq,
}

fn kind_of(e: &Entry) -> Kind {
    if e.name.starts_with('X') {
        Kind::Single
    } else if e.name.starts_with('M') {
        Kind::Multi
    } else if e.name.starts_with('W') {
        Kind::Wide
    } else {
        Kind::Seq
    }
}

fn run_job(router: &matchit::Router<u32>, e: &Entry, ch: Channel, sub: usize, b: &Bounds) -> Stats {
    let mut sink = JobSink {
        router,
        entry: e,
        seen: HashSet::new(),
        found_per_key: BTreeMap::new(),
        stats: Stats::default(),
    };
    match (ch, kind_of(e)) {
        (Channel::Json, Kind::Single) => {
            cases::gen_length_json(e, &mut sink);
            cases::gen_single_json(e, b, &mut sink);
            if e.name == "XString" {
                cases::gen_content_types(ch, e, &mut sink);
            }
        }
        (Channel::Json, Kind::Multi) => cases::gen_multi_json(e, b, sub, &mut sink),
        (Channel::Json, Kind::Wide) => cases::gen_wide_json(e, &mut sink),
        (Channel::Json, Kind::Seq) => cases::gen_seq_json(e, b, &mut sink),
        (_, Kind::Single) => {
            cases::gen_length_text(ch, e, &mut sink);
            cases::gen_single_text(ch, e, b, &mut sink);
            if ch == Channel::Form && e.name == "XString" {
                cases::gen_content_types(ch, e, &mut sink);
            }
        }
        (_, Kind::Multi) => cases::gen_multi_text(ch, e, b, sub, &mut sink),
        (_, Kind::Wide) => cases::gen_wide_text(ch, e, &mut sink),
        (_, Kind::Seq) => cases::gen_seq_text(ch, e, b, &mut sink),
    }
    sink.stats
}

fn replay(path: &std::path::Path) -> ! {
    let case = verif_common::load_replay(path);
    let s = |k: &str| -> String {
        case.get(k)
            .and_then(|v| v.as_str())
            .unwrap_or_else(|| verif_common::machinery_error(&format!("replay lacks `{k}`")))
            .to_string()
    };
    if let Some(n) = case.get("nesting") {
        let shape = n["shape"].as_str().unwrap_or_else(|| verif_common::machinery_error("replay: nesting.shape")).to_string();
        let depth = n["depth"].as_u64().unwrap_or_else(|| verif_common::machinery_error("replay: nesting.depth")) as usize;
        let obs = nest_run(&shape, depth);
        println!("nesting   : shape {shape}, depth {depth}");
        println!("observed  : {obs:?}");
        match nest_judge(&shape, depth, &obs) {
            Some(kind) => {
                println!("REPLAY: still violates ({kind})");
                std::process::exit(1)
            }
            None => {
                println!("REPLAY: conforms");
                std::process::exit(0)
            }
        }
    }
    let ch = Channel::parse(&s("channel")).unwrap_or_else(|| verif_common::machinery_error("replay: unknown channel"));
    let shape = s("shape");
    let wire = unhex(&s("wire_hex"));
    let ct = case.get("content_type_hex").and_then(|v| v.as_str()).map(unhex);
    let expect: Expect = serde_json::from_value(case.get("expect").cloned().unwrap_or(Value::Null))
        .unwrap_or_else(|e| verif_common::machinery_error(&format!("replay: bad expectation: {e}")));
    let reg = shapes::registry();
    let entry = reg
        .iter()
        .find(|e| e.name == shape)
        .unwrap_or_else(|| verif_common::machinery_error("replay: unknown shape"));
    let router = cases::build_router();
    let out = execute(&router, entry, ch, &wire, ct.as_deref());
    println!("channel   : {}", ch.as_str());
    println!(
        "target    : {} {{ {} }}",
        entry.name,
        entry.fields.iter().map(|(n, t)| format!("{n}: {}", t.name())).collect::<Vec<_>>().join(", ")
    );
    println!("wire      : {:?}", String::from_utf8_lossy(&wire));
    if let Some(ct) = &ct {
        println!("content-type: {:?}", String::from_utf8_lossy(ct));
    }
    println!("expected  : {}", describe_expect(&expect));
    println!("observed  : {out:?}");
    match judge(&expect, &out) {
        Some(kind) => {
            println!("REPLAY: still violates ({kind})");
            std::process::exit(1)
        }
        None => {
            println!("REPLAY: conforms");
            std::process::exit(0)
        }
    }
}

/// NESTING dimension, parent side: one child process per (shape, depth); a child killed by a signal (stack overflow
/// aborts the process) or ending without a verdict line is a violation ("never a panic").
fn nest_run(shape: &str, depth: usize) -> Result<String, String> {
    let exe = std::env::current_exe().unwrap_or_else(|e| verif_common::machinery_error(&format!("current_exe: {e}")));
    let out = std::process::Command::new(exe)
        .env("RT_EXTRACT_NEST", format!("{shape}:{depth}"))
        .output()
        .unwrap_or_else(|e| verif_common::machinery_error(&format!("cannot spawn nesting child: {e}")));
    let stdout = String::from_utf8_lossy(&out.stdout).to_string();
    match stdout.lines().find(|l| l.starts_with("NEST ")) {
        Some(l) if out.status.success() => Ok(l.to_string()),
        _ => {
            let err = String::from_utf8_lossy(&out.stderr);
            Err(format!("child ended with {} without a verdict: {}", out.status, err.lines().rev().take(3).collect::<Vec<_>>().join(" | ")))
        }
    }
}

/// -> None when the observation conforms, Some(kind) otherwise. Reference: a document nested `depth` levels that the
/// extractor accepts must come back with exactly that nesting; up to 100 levels (below serde_json's documented default
/// recursion limit of 128) it must be accepted; beyond, Ok or the documented DeserializationError; nothing else, ever.
fn nest_judge(shape: &str, depth: usize, obs: &Result<String, String>) -> Option<String> {
    // containers on the way to the leaf: the recursive struct costs an object and an array per level
    let containers = if shape == "rec_obj" { 2 * depth + 1 } else { depth };
    match obs {
        Err(_) => Some("crash".into()),
        Ok(l) => {
            let parts: Vec<&str> = l.splitn(3, ' ').collect();
            match (parts.get(1).copied(), parts.get(2).copied()) {
                (Some("ok"), Some(d)) if d.parse::<usize>().ok() == Some(depth) => None,
                (Some("ok"), _) => Some("wrong-value".into()),
                (Some("err"), Some("DeserializationError")) if containers > 100 => None,
                (Some("err"), Some(v)) => Some(format!("err-{v}")),
                _ => Some("panic".into()),
            }
        }
    }
}

fn nest_depths(thorough: bool) -> Vec<usize> {
    let mut d = vec![0, 1, 2, 3, 16, 64, 100, 126, 127, 128, 129, 130, 256, 1000, 5000, 20000, 60000, 250000];
    if thorough {
        d.extend([4, 5, 6, 7, 8, 32, 99, 101, 120, 125, 131, 200, 512, 2000, 10000, 40000, 100000, 500000, 1000000]);
        d.sort();
    }
    d
}

fn main() {
    if let Ok(spec) = std::env::var("RT_EXTRACT_NEST") {
        let (shape, depth) = spec.split_once(':').unwrap_or_else(|| verif_common::machinery_error("RT_EXTRACT_NEST=<shape>:<depth>"));
        let depth: usize = depth.parse().unwrap_or_else(|_| verif_common::machinery_error("RT_EXTRACT_NEST depth"));
        std::panic::set_hook(Box::new(|_| {}));
        println!("{}", shapes::nest_child(shape, depth));
        return;
    }
    let args = verif_common::Args::parse();
    if args.property != "C15" {
        verif_common::machinery_error(&format!("rt_extract serves C15, not `{}`", args.property));
    }
    // panics of the code under test are caught and reported as violations; keep stderr quiet
    std::panic::set_hook(Box::new(|_| {}));
    if let Some(p) = &args.replay {
        replay(p);
    }
    let mut rep = verif_common::Reporter::from_args(&args);
    let thorough = args.tier.is_thorough();
    let bounds = Bounds {
        single_len: if thorough { 4 } else { 3 },
        multi_a_len: if thorough { 3 } else { 1 },
        json_len: if thorough { 4 } else { 2 },
        seq_len: if thorough { 3 } else { 2 },
        strict_json_tail: args.extra("strict-json-tail") == Some("1"),
    };
    let router = cases::build_router();
    let reg = shapes::registry();
    // one job per (target, channel); three-field targets are further split per wire order
    let mut jobs: Vec<(usize, Channel, usize)> = vec![];
    for (i, e) in reg.iter().enumerate() {
        for ch in [Channel::Path, Channel::Query, Channel::Form, Channel::Json] {
            let subs = if kind_of(e) == Kind::Multi { 6 } else { 1 };
            for sub in 0..subs {
                jobs.push((i, ch, sub));
            }
        }
    }
    // big jobs first (better load balance); the seed only rotates the order
    jobs.sort_by_key(|(i, _, _)| match kind_of(&reg[*i]) {
        Kind::Multi => 0,
        Kind::Single => 1,
        _ => 2,
    });
    verif_common::rotate_by_seed(&mut jobs, args.seed);
    let next = AtomicUsize::new(0);
    let total = Mutex::new(Stats::default());
    let n_threads = std::thread::available_parallelism().map(|n| n.get()).unwrap_or(4).min(16);
    std::thread::scope(|s| {
        for _ in 0..n_threads {
            s.spawn(|| {
                loop {
                    let i = next.fetch_add(1, Ordering::SeqCst);
                    if i >= jobs.len() {
                        break;
                    }
                    let (ei, ch, sub) = jobs[i];
                    let st = run_job(&router, &reg[ei], ch, sub, &bounds);
                    total.lock().unwrap().merge(st);
                }
            });
        }
    });
    let mut stats = total.into_inner().unwrap();
    // deterministic reporting order, independent of thread scheduling
    stats.found.sort_by(|a, b| (&a.key, a.case.to_string().len(), a.case.to_string()).cmp(&(&b.key, b.case.to_string().len(), b.case.to_string())));
    for f in &stats.found {
        rep.violation(&f.key, &f.what, f.case.clone());
    }
    // NESTING dimension: every (shape, depth), one child process each, 16 at a time
    let nest_cases: Vec<(&str, usize)> = shapes::NEST_SHAPES.iter().flat_map(|s| nest_depths(thorough).into_iter().map(move |d| (*s, d))).collect();
    let nest_next = AtomicUsize::new(0);
    let nest_results: Mutex<Vec<(usize, Result<String, String>)>> = Mutex::new(vec![]);
    std::thread::scope(|s| {
        for _ in 0..n_threads {
            s.spawn(|| loop {
                let i = nest_next.fetch_add(1, Ordering::SeqCst);
                if i >= nest_cases.len() {
                    break;
                }
                let r = nest_run(nest_cases[i].0, nest_cases[i].1);
                nest_results.lock().unwrap().push((i, r));
            });
        }
    });
    let mut nest_results = nest_results.into_inner().unwrap();
    nest_results.sort_by_key(|(i, _)| *i);
    let mut nest_hist: BTreeMap<String, u64> = BTreeMap::new();
    for (i, obs) in &nest_results {
        let (shape, depth) = nest_cases[*i];
        let label = match obs {
            Ok(l) => l.split(' ').take(2).collect::<Vec<_>>().join(" "),
            Err(_) => "CRASH".to_string(),
        };
        *nest_hist.entry(format!("{shape} -> {label}")).or_default() += 1;
        if let Some(kind) = nest_judge(shape, depth, obs) {
            rep.violation(
                &format!("json-nesting:{kind}:{shape}"),
                &format!("JsonBody::extract on a `{shape}` document nested {depth} levels: {}", match obs { Ok(l) => l.clone(), Err(e) => e.clone() }),
                json!({"nesting": {"shape": shape, "depth": depth}}),
            );
        }
    }
    stats.evaluations += nest_results.len() as u64;
    let mut samples: Vec<Value> = vec![];
    for (class, v) in &stats.samples {
        for s in v {
            let mut s = s.clone();
            s["class"] = json!(class);
            s.as_object_mut().unwrap().remove("expect");
            samples.push(s);
        }
    }
    let outcome_classes: BTreeMap<String, u64> = {
        let mut m = BTreeMap::new();
        for (k, v) in &stats.histogram {
            let o = k.split(" -> ").nth(1).unwrap_or("?").to_string();
            *m.entry(o).or_default() += *v;
        }
        m
    };
    let coverage = json!({
        "evaluations": stats.evaluations,
        "distinct_cases": stats.distinct,
        "distinct_nontrivial": stats.distinct_nontrivial,
        "exhaustive": true,
        "caps_hit": [],
        "rule": format!(
            "Channels: PathParams::extract (request target parsed by http::Uri, params produced by a real matchit::Router::at \
             on {n_routes} route templates, RawPathParams::from(Params)), QueryParams::extract(&RequestHead), \
             UrlEncodedBody::extract and JsonBody::extract (BufferedBody built through hook H1). \
             Targets: {n_shapes} structs: one field `x` of String, &str, Cow<str>, u8, u16, u32, u64, i64, f64, bool, char, \
             newtype Id(u32), Option<String>, Option<u32>, Option<Cow<str>>; {{a: String, b: Cow<str>, c: u32}} in all 6 declaration \
             orders x all 6 wire orders; a 12-field struct with every type in 2 declaration orders x 3 wire orders; \
             Vec<String>/Vec<u32>/Vec<Option<u32>> next to a scalar. \
             Values: all strings of length <= {sl} over {{a % + space / & = 2 5 e-acute U+1D11E}} (JSON: plus double-quote and backslash, \
             length <= {jl}) 7 values that look percent-encoded themselves (%41, %2541, %25, %2F, %2B, %20, %C3%A9) and {ne} numeric/bool edge literals (0, -1, type maxima +-1, u64::MAX, i64::MIN, 1e308, 0.1, -0, +5, 05, true, True). \
             Encodings: EVERY per-character choice of {{literal where http::Uri and the position allow it, %XX upper-case hex, %XX lower-case hex, \
             `+` for space in query/form, a stray literal `%`}}; JSON: {{literal, \\uXXXX upper, \\uXXXX lower, short escape}}; edge literals: \
             minimal, all-escaped upper/lower, each single position escaped. Field `a` of the 3-field target up to length {ml} (JSON: min({ml},2)), `b` up to 1, `c` in {{0, 25, u32::MAX, u32::MAX+1, a}} minimal and (for `a` up to length 2) fully escaped; \
             sequences up to {ql} repetitions in every interleaving with the scalar key. \
             LENGTH dimension (every single-field target, every channel): filler `a` of every length cap-2..=cap+2 for cap in {{16,32,64,128,256,1024}} followed by each of {{nothing, e-acute (2 bytes), euro sign (3 bytes), U+1D11E (4 bytes)}} and tail {{zz, nothing}}, plus a 3-byte-character filler of every count around cap/3 (a multi-byte character at every byte offset around each cap), each {{literal, non-ASCII escaped, fully escaped}}: string-like fields must round-trip, parsed fields must give the documented error whose `value` is the FULL decoded value (ParseErrorAtKey docs: `The value from the URI`), same windows with trailing invalid UTF-8 (error must echo the whole raw segment). Malformed: 10 percent-encoded invalid UTF-8 byte strings (+3 raw ones for forms), truncated/stray `%`, wrong type, out-of-range \
             numbers, missing field, repeated scalar key, 19 malformed JSON documents, {nct} content-type headers. \
             Oracle (reference model in refmodel.rs): value after exactly ONE percent-decoding bound to the field of the same NAME \
             (strings verbatim, numbers/bools by an independent digit parser, sequences in order); canonical literals must succeed, \
             anything the reference cannot read as the field type must fail with the documented variant \
             (path: InvalidUtf8InPathParameter naming key and raw segment, ParseErrorAtKey{{key,value,expected_type}}, Message for missing field / \
             non-borrowable &str, UnsupportedType for sequences; query: QueryDeserializationError; bodies: MissingContentType / \
             ContentTypeMismatch{{actual}} / DeserializationError); where docs force nothing (stray `%`, `+5`, `05`, `-0`, &str that needs \
             decoding, repeated scalar key, JSON trailing garbage, upper-case media type) the outcome must be the reference value or an error, \
             never another value; a panic (catch_unwind) is always a violation. \
             A case is non-trivial unless it is a single field whose wire form equals the value and must succeed.",
            n_routes = cases::ROUTES.len(),
            n_shapes = reg.len(),
            sl = bounds.single_len,
            jl = bounds.json_len,
            ne = refmodel::EDGE_LITERALS.len(),
            ml = bounds.multi_a_len,
            ql = bounds.seq_len,
            nct = cases::content_types(Channel::Json).len() + cases::content_types(Channel::Form).len(),
        ),
        "strict_json_tail": bounds.strict_json_tail,
        "nesting": {
            "rule": "NESTING dimension: JsonBody::extract into a recursive struct (`replies: Vec<Self>`) and into serde_json::Value, documents nested d levels (arrays, objects, struct-in-array), one child process per case on a 2 MiB-stack thread; accepted => exactly d levels come back; at most 100 nested containers must be accepted; beyond: Ok or DeserializationError; a crash of the child (stack overflow), a panic or any other outcome is a violation",
            "shapes": shapes::NEST_SHAPES,
            "depths": nest_depths(thorough),
            "cases": nest_results.len(),
            "outcome_histogram": nest_hist,
        },
        "bounds": {
            "single_field_string_len": bounds.single_len,
            "json_string_len": bounds.json_len,
            "three_field_a_len": bounds.multi_a_len,
            "sequence_len": bounds.seq_len,
        },
        "evaluations_per_channel": stats.per_channel,
        "ambiguous_encodings_skipped": stats.dropped_ambiguous,
        "violating_cases_total": stats.found.len() as u64 + stats.violations_beyond_witness_cap,
        "outcome_histogram": outcome_classes,
        "oracle_branch_histogram": stats.histogram,
        "samples": samples,
    });
    let code = rep.finish(
        "exploration",
        coverage,
        &[
            "the request target reaches the router as hyper delivers it: parsed by http::Uri (1.x), path() handed to matchit::Router::at unchanged",
            "target structs derive serde::Deserialize directly (the guide allows this instead of #[PathParams])",
            "BufferedBody is built with hook H1 from a single in-memory frame; buffering itself is property C14's business",
            "`+` means space in query strings and form bodies (application/x-www-form-urlencoded, the format serde_html_form documents)",
            "serde_html_form's documented conventions are taken as the contract for query/form: empty value = None for Option, repeated key = sequence, at least one occurrence required for Vec",
            "f64 reference for JSON number tokens is Rust's correctly rounded str::parse::<f64>",
        ],
    );
    std::process::exit(code);
}
