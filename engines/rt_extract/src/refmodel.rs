//! The reference model: encoders (what a client may legally put on the wire for a value),
//! an independent lenient percent-decoder, and the per-field expectation.
use crate::val::{ErrPat, FieldExpect, Ty, Val};

#[derive(Debug, Clone, Copy, PartialEq, Eq, Hash, PartialOrd, Ord)]
pub enum Channel {
    Path,
    Query,
    Form,
    Json,
}
impl Channel {
    pub fn as_str(&self) -> &'static str {
        match self {
            Channel::Path => "path",
            Channel::Query => "query",
            Channel::Form => "form",
            Channel::Json => "json",
        }
    }
    pub fn parse(s: &str) -> Option<Channel> {
        Some(match s {
            "path" => Channel::Path,
            "query" => Channel::Query,
            "form" => Channel::Form,
            "json" => Channel::Json,
            _ => return None,
        })
    }
}

/// Where a character is being placed on the wire.
#[derive(Debug, Clone, Copy, PartialEq, Eq)]
pub enum Ctx {
    /// `{param}` segment of a path
    PathSeg,
    /// `{*param}` tail of a path
    PathCatchAll,
    QueryKey,
    QueryVal,
    FormKey,
    FormVal,
}
impl Ctx {
    fn plus_is_space(&self) -> bool {
        !matches!(self, Ctx::PathSeg | Ctx::PathCatchAll)
    }
    fn through_uri(&self) -> bool {
        !matches!(self, Ctx::FormKey | Ctx::FormVal)
    }
}

/// Bytes `http::Uri` (1.x) lets through un-encoded in path and query (the intersection of both
/// tables, minus the structural `?` and `#`).
fn uri_literal_ok(c: char) -> bool {
    if !c.is_ascii() {
        return true;
    }
    let b = c as u8;
    matches!(b, 0x21 | 0x24..=0x3B | 0x3D | 0x40..=0x5F | 0x61..=0x7A | 0x7C | 0x7E)
}

pub fn pct(c: char, upper: bool) -> String {
    let mut buf = [0u8; 4];
    let mut out = String::new();
    for b in c.encode_utf8(&mut buf).bytes() {
        if upper {
            out.push_str(&format!("%{b:02X}"));
        } else {
            out.push_str(&format!("%{b:02x}"));
        }
    }
    out
}

/// One way of writing one character. `stray` marks a literal `%` (not a legal encoding of `%`
/// per RFC 3986, but decoders are documented to leave it alone).
#[derive(Debug, Clone, PartialEq, Eq)]
pub struct Piece {
    pub wire: String,
    pub stray: bool,
}

pub fn literal_legal(c: char, ctx: Ctx) -> bool {
    if ctx.through_uri() && !uri_literal_ok(c) {
        return false;
    }
    if c == '%' {
        return false; // only as a "stray" piece
    }
    match ctx {
        Ctx::PathSeg => !matches!(c, '/' | '?' | '#'),
        Ctx::PathCatchAll => !matches!(c, '?' | '#'),
        Ctx::QueryVal => !matches!(c, '&' | '+' | '#'),
        Ctx::QueryKey => !matches!(c, '&' | '+' | '#' | '='),
        Ctx::FormVal => !matches!(c, '&' | '+'),
        Ctx::FormKey => !matches!(c, '&' | '+' | '='),
    }
}

pub fn pieces(c: char, ctx: Ctx, with_stray: bool) -> Vec<Piece> {
    let mut v: Vec<Piece> = Vec::new();
    let mut push = |p: Piece| {
        if !v.contains(&p) {
            v.push(p)
        }
    };
    if literal_legal(c, ctx) {
        push(Piece {
            wire: c.to_string(),
            stray: false,
        });
    }
    if c == '%' && with_stray {
        push(Piece {
            wire: "%".into(),
            stray: true,
        });
    }
    push(Piece {
        wire: pct(c, true),
        stray: false,
    });
    push(Piece {
        wire: pct(c, false),
        stray: false,
    });
    if c == ' ' && ctx.plus_is_space() {
        push(Piece {
            wire: "+".into(),
            stray: false,
        });
    }
    v
}

#[derive(Debug, Clone, PartialEq, Eq)]
pub struct WireVal {
    pub wire: String,
    pub stray: bool,
}

/// Independent lenient percent-decoder (WHATWG "percent-decode"): `%XX` with two hex digits
/// becomes a byte, any other `%` stays. `+` becomes a space for the form-style contexts.
pub fn ref_decode(wire: &[u8], plus_is_space: bool) -> Vec<u8> {
    fn hex(b: u8) -> Option<u8> {
        match b {
            b'0'..=b'9' => Some(b - b'0'),
            b'a'..=b'f' => Some(b - b'a' + 10),
            b'A'..=b'F' => Some(b - b'A' + 10),
            _ => None,
        }
    }
    let mut out = Vec::with_capacity(wire.len());
    let mut i = 0;
    while i < wire.len() {
        let b = wire[i];
        if b == b'%' && i + 2 < wire.len() {
            if let (Some(h), Some(l)) = (hex(wire[i + 1]), hex(wire[i + 2])) {
                out.push(h * 16 + l);
                i += 3;
                continue;
            }
        }
        if b == b'+' && plus_is_space {
            out.push(b' ');
        } else {
            out.push(b);
        }
        i += 1;
    }
    out
}

/// Every per-character choice. Encodings whose stray `%` would be read as an escape are dropped
/// (they mean a different value); the number dropped is returned.
pub fn encodings_full(value: &str, ctx: Ctx) -> (Vec<WireVal>, usize) {
    let mut acc: Vec<WireVal> = vec![WireVal {
        wire: String::new(),
        stray: false,
    }];
    for c in value.chars() {
        let ps = pieces(c, ctx, true);
        let mut next = Vec::with_capacity(acc.len() * ps.len());
        for a in &acc {
            for p in &ps {
                next.push(WireVal {
                    wire: format!("{}{}", a.wire, p.wire),
                    stray: a.stray || p.stray,
                });
            }
        }
        acc = next;
    }
    finish_encodings(value, ctx, acc)
}

/// For long literals: minimal encoding, everything percent-encoded (upper / lower hex) and each
/// single position percent-encoded.
pub fn encodings_limited(value: &str, ctx: Ctx) -> (Vec<WireVal>, usize) {
    let chars: Vec<char> = value.chars().collect();
    let minimal = |c: char| -> String {
        if literal_legal(c, ctx) {
            c.to_string()
        } else {
            pct(c, true)
        }
    };
    let mut acc = Vec::new();
    acc.push(chars.iter().map(|c| minimal(*c)).collect::<String>());
    acc.push(chars.iter().map(|c| pct(*c, true)).collect::<String>());
    acc.push(chars.iter().map(|c| pct(*c, false)).collect::<String>());
    for i in 0..chars.len() {
        acc.push(
            chars
                .iter()
                .enumerate()
                .map(|(j, c)| if i == j { pct(*c, false) } else { minimal(*c) })
                .collect::<String>(),
        );
    }
    let acc = acc
        .into_iter()
        .map(|wire| WireVal { wire, stray: false })
        .collect();
    finish_encodings(value, ctx, acc)
}

/// The single minimal encoding.
pub fn encoding_minimal(value: &str, ctx: Ctx) -> String {
    value
        .chars()
        .map(|c| {
            if literal_legal(c, ctx) {
                c.to_string()
            } else {
                pct(c, true)
            }
        })
        .collect()
}

fn finish_encodings(value: &str, ctx: Ctx, acc: Vec<WireVal>) -> (Vec<WireVal>, usize) {
    let mut out: Vec<WireVal> = Vec::with_capacity(acc.len());
    let mut dropped = 0;
    for w in acc {
        let dec = ref_decode(w.wire.as_bytes(), ctx.plus_is_space());
        if dec != value.as_bytes() {
            if !w.stray {
                verif_common::machinery_error(&format!(
                    "reference encoder/decoder disagree on {:?} -> {:?}",
                    value, w.wire
                ));
            }
            dropped += 1;
            continue;
        }
        if !out.iter().any(|o| o.wire == w.wire) {
            out.push(w);
        }
    }
    (out, dropped)
}

// ---------------------------------------------------------------------------------------------
// value universes

pub const ALPHABET: &[char] = &['a', '%', '+', ' ', '/', '&', '=', '2', '5', 'é', '𝄞'];
pub const JSON_ALPHABET: &[char] = &[
    'a', '%', '+', ' ', '/', '&', '=', '2', '5', 'é', '𝄞', '"', '\\',
];

pub fn strings(alphabet: &[char], max_len: usize) -> Vec<String> {
    let mut all = vec![String::new()];
    let mut layer = vec![String::new()];
    for _ in 0..max_len {
        let mut next = Vec::with_capacity(layer.len() * alphabet.len());
        for s in &layer {
            for c in alphabet {
                let mut t = s.clone();
                t.push(*c);
                next.push(t);
            }
        }
        all.extend(next.iter().cloned());
        layer = next;
    }
    all
}

/// Numeric / boolean edge literals (text form).
pub const EDGE_LITERALS: &[&str] = &[
    "0",
    "-1",
    "1",
    "255",
    "256",
    "65535",
    "65536",
    "4294967295",
    "4294967296",
    "18446744073709551615",
    "18446744073709551616",
    "9223372036854775807",
    "9223372036854775808",
    "-9223372036854775808",
    "-9223372036854775809",
    "1e308",
    "0.1",
    "2.5",
    "-0",
    "+5",
    "05",
    "true",
    "false",
    "True",
];

// ---------------------------------------------------------------------------------------------
// numeric reference

/// `[+-]?[0-9]+` → (value, canonical?) where canonical = what `to_string()` prints.
pub fn ref_int(s: &str) -> Option<(i128, bool)> {
    let b = s.as_bytes();
    let (neg, plus, digits) = match b.first() {
        Some(b'-') => (true, false, &b[1..]),
        Some(b'+') => (false, true, &b[1..]),
        _ => (false, false, b),
    };
    if digits.is_empty() || digits.len() > 30 || !digits.iter().all(|d| d.is_ascii_digit()) {
        return None;
    }
    let mut n: i128 = 0;
    for d in digits {
        n = n * 10 + (*d - b'0') as i128;
    }
    let leading_zero = digits.len() > 1 && digits[0] == b'0';
    let canonical = !plus && !leading_zero && !(neg && n == 0);
    Some((if neg { -n } else { n }, canonical))
}

fn int_range(ty: Ty) -> Option<(i128, i128)> {
    Some(match ty {
        Ty::U8 => (0, u8::MAX as i128),
        Ty::U16 => (0, u16::MAX as i128),
        Ty::U32 | Ty::NewU32 => (0, u32::MAX as i128),
        Ty::U64 => (0, u64::MAX as i128),
        Ty::I64 => (i64::MIN as i128, i64::MAX as i128),
        _ => return None,
    })
}

fn int_val(ty: Ty, n: i128) -> Val {
    if ty == Ty::I64 {
        Val::I(n as i64)
    } else {
        Val::U(n as u64)
    }
}

/// f64 denoted by a text literal: (value, canonical?) – a table for the non-integer edge
/// literals, integers through exact / correctly rounded integer→float conversion.
pub fn ref_f64(s: &str) -> Option<(f64, bool)> {
    match s {
        "1e308" => return Some((1e308, true)),
        "0.1" => return Some((0.1, true)),
        "2.5" => return Some((2.5, true)),
        "-0" => return Some((-0.0, true)),
        _ => {}
    }
    let (n, canonical) = ref_int(s)?;
    Some((n as f64, canonical))
}

// ---------------------------------------------------------------------------------------------
// per-field expectation, text channels (path / query / form)

pub fn deser_err(ch: Channel) -> ErrPat {
    match ch {
        Channel::Path => ErrPat::variant("PathDeserializationError"),
        Channel::Query => ErrPat::variant("QueryDeserializationError"),
        Channel::Form | Channel::Json => ErrPat::variant("DeserializationError"),
    }
}

pub fn any_err() -> ErrPat {
    ErrPat::variant("")
}

fn type_err(ch: Channel, name: &str, ty: Ty, s: &str) -> ErrPat {
    match ch {
        Channel::Path => ErrPat {
            variant: "PathDeserializationError::ParseErrorAtKey".into(),
            key: Some(name.to_string()),
            value: Some(s.to_string()),
            expected_type: ty.path_expected_type().map(|s| s.to_string()),
            ..Default::default()
        },
        _ => deser_err(ch),
    }
}

pub fn missing_err(ch: Channel, name: &str) -> ErrPat {
    let mut p = match ch {
        Channel::Path => ErrPat::variant("PathDeserializationError::Message"),
        _ => deser_err(ch),
    };
    p.display_contains = vec![format!("missing field `{name}`")];
    p
}

/// `s` is the value the client encoded (after exactly one decoding); `borrowable` tells whether
/// the wire form equals the value (no allocation needed).
pub fn text_expect(ch: Channel, name: &str, ty: Ty, s: &str, borrowable: bool) -> FieldExpect {
    let terr = type_err(ch, name, ty, s);
    match ty {
        Ty::Str | Ty::CowStr => FieldExpect::must(Val::Str(s.to_string())),
        Ty::BStr => {
            if borrowable {
                FieldExpect::must(Val::Str(s.to_string()))
            } else {
                // documented: `&str` fails at runtime when the value had to be decoded
                let p = match ch {
                    Channel::Path => ErrPat::variant("PathDeserializationError::Message"),
                    _ => deser_err(ch),
                };
                FieldExpect::either(Val::Str(s.to_string()), p)
            }
        }
        Ty::U8 | Ty::U16 | Ty::U32 | Ty::U64 | Ty::I64 | Ty::NewU32 => {
            let (lo, hi) = int_range(ty).unwrap();
            match ref_int(s) {
                Some((n, canonical)) if lo <= n && n <= hi => {
                    if canonical {
                        FieldExpect::must(int_val(ty, n))
                    } else {
                        FieldExpect::either(int_val(ty, n), terr)
                    }
                }
                _ => FieldExpect::must_err(terr),
            }
        }
        Ty::F64 => match ref_f64(s) {
            Some((x, true)) => FieldExpect::must(Val::f(x)),
            Some((x, false)) => FieldExpect::either(Val::f(x), terr),
            None => FieldExpect::must_err(terr),
        },
        Ty::Bool => match s {
            "true" => FieldExpect::must(Val::B(true)),
            "false" => FieldExpect::must(Val::B(false)),
            _ => FieldExpect::must_err(terr),
        },
        Ty::Char => {
            let mut it = s.chars();
            match (it.next(), it.next()) {
                (Some(c), None) => FieldExpect::must(Val::C(c)),
                _ => FieldExpect::must_err(terr),
            }
        }
        Ty::Opt(inner) => {
            if s.is_empty() && ch != Channel::Path {
                // serde_html_form documents `foo=` as `None`
                FieldExpect::must(Val::None)
            } else {
                text_expect(ch, name, *inner, s, borrowable).map_ok(Val::some)
            }
        }
        Ty::Seq(inner) => {
            // a single occurrence of the key is a one-element sequence (query / form)
            seq_expect(ch, name, *inner, &[(s.to_string(), borrowable)])
        }
    }
}

/// Field absent from the input.
pub fn absent_expect(ch: Channel, name: &str, ty: Ty) -> FieldExpect {
    match ty {
        Ty::Opt(_) => {
            if ch == Channel::Path {
                FieldExpect::either(Val::None, missing_err(ch, name))
            } else {
                FieldExpect::must(Val::None)
            }
        }
        _ => FieldExpect::must_err(missing_err(ch, name)),
    }
}

/// Repeated key → sequence, order preserved. Zero occurrences = absent field.
pub fn seq_expect(ch: Channel, name: &str, inner: Ty, elems: &[(String, bool)]) -> FieldExpect {
    if ch == Channel::Path {
        let mut p = ErrPat::variant("PathDeserializationError::UnsupportedType");
        p.display_contains = vec![];
        return FieldExpect::must_err(p);
    }
    if elems.is_empty() {
        return FieldExpect::must_err(missing_err(ch, name));
    }
    let mut oks: Option<Vec<Val>> = Some(vec![]);
    let mut errs = vec![];
    for (s, b) in elems {
        let fe = text_expect(ch, name, inner, s, *b);
        for e in fe.err {
            if !errs.contains(&e) {
                errs.push(e);
            }
        }
        match (&mut oks, fe.ok.first()) {
            (Some(v), Some(x)) => v.push(x.clone()),
            _ => oks = None,
        }
    }
    FieldExpect {
        ok: oks.map(|v| vec![Val::Seq(v)]).unwrap_or_default(),
        err: errs,
    }
}

// ---------------------------------------------------------------------------------------------
// JSON

/// One way of writing a character inside a JSON string; `escaped` = not a literal.
pub fn json_pieces(c: char) -> Vec<(String, bool)> {
    let mut v: Vec<(String, bool)> = Vec::new();
    let mut push = |p: (String, bool)| {
        if !v.contains(&p) {
            v.push(p)
        }
    };
    if c != '"' && c != '\\' && (c as u32) >= 0x20 {
        push((c.to_string(), false));
    }
    match c {
        '"' => push(("\\\"".into(), true)),
        '\\' => push(("\\\\".into(), true)),
        '/' => push(("\\/".into(), true)),
        _ => {}
    }
    let mut units = [0u16; 2];
    let units = c.encode_utf16(&mut units);
    push((units.iter().map(|u| format!("\\u{u:04X}")).collect(), true));
    push((units.iter().map(|u| format!("\\u{u:04x}")).collect(), true));
    v
}

/// All ways of writing `value` as a JSON string token: (token, needs_unescaping).
pub fn json_string_tokens(value: &str) -> Vec<(String, bool)> {
    let mut acc: Vec<(String, bool)> = vec![("\"".to_string(), false)];
    for c in value.chars() {
        let ps = json_pieces(c);
        let mut next = Vec::with_capacity(acc.len() * ps.len());
        for (a, e) in &acc {
            for (p, pe) in &ps {
                next.push((format!("{a}{p}"), *e || *pe));
            }
        }
        acc = next;
    }
    acc.into_iter().map(|(t, e)| (format!("{t}\""), e)).collect()
}

pub fn json_string_minimal(value: &str) -> String {
    let mut s = String::from("\"");
    for c in value.chars() {
        s.push_str(&json_pieces(c)[0].0);
    }
    s.push('"');
    s
}

#[derive(Debug, Clone)]
pub enum JTok {
    /// string token: decoded value, whether it needed unescaping
    Str(String, bool),
    /// any other token, verbatim
    Raw(&'static str),
}

pub const JSON_RAW_TOKENS: &[&str] = &[
    "0",
    "-1",
    "1",
    "25",
    "255",
    "256",
    "65535",
    "65536",
    "4294967295",
    "4294967296",
    "18446744073709551615",
    "18446744073709551616",
    "9223372036854775807",
    "9223372036854775808",
    "-9223372036854775808",
    "-9223372036854775809",
    "1e308",
    "0.1",
    "2.5",
    "-0",
    "1.0",
    "1E2",
    "true",
    "false",
    "null",
    "[]",
    "{}",
    "[1]",
    "[\"a\"]",
];

fn raw_is_number(t: &str) -> bool {
    t.as_bytes()
        .first()
        .is_some_and(|b| b.is_ascii_digit() || *b == b'-')
}

pub fn json_expect(name: &str, ty: Ty, tok: &JTok) -> FieldExpect {
    let derr = deser_err(Channel::Json);
    match ty {
        Ty::Opt(inner) => {
            if matches!(tok, JTok::Raw("null")) {
                FieldExpect::must(Val::None)
            } else {
                json_expect(name, *inner, tok).map_ok(Val::some)
            }
        }
        Ty::Str | Ty::CowStr => match tok {
            JTok::Str(s, _) => FieldExpect::must(Val::Str(s.clone())),
            _ => FieldExpect::must_err(derr),
        },
        Ty::BStr => match tok {
            JTok::Str(s, false) => FieldExpect::must(Val::Str(s.clone())),
            // documented: `&str` fails at runtime if the JSON string contains escapes
            JTok::Str(s, true) => FieldExpect::either(Val::Str(s.clone()), derr),
            _ => FieldExpect::must_err(derr),
        },
        Ty::Char => match tok {
            JTok::Str(s, _) => {
                let mut it = s.chars();
                match (it.next(), it.next()) {
                    (Some(c), None) => FieldExpect::must(Val::C(c)),
                    _ => FieldExpect::must_err(derr),
                }
            }
            _ => FieldExpect::must_err(derr),
        },
        Ty::Bool => match tok {
            JTok::Raw("true") => FieldExpect::must(Val::B(true)),
            JTok::Raw("false") => FieldExpect::must(Val::B(false)),
            _ => FieldExpect::must_err(derr),
        },
        Ty::U8 | Ty::U16 | Ty::U32 | Ty::U64 | Ty::I64 | Ty::NewU32 => {
            let (lo, hi) = int_range(ty).unwrap();
            match tok {
                JTok::Raw(t) if raw_is_number(t) => match *t {
                    // mathematically integers, written in float syntax: either is defensible
                    "1.0" => FieldExpect::either(int_val(ty, 1), derr),
                    "1E2" => FieldExpect::either(int_val(ty, 100), derr),
                    "-0" => FieldExpect::either(int_val(ty, 0), derr),
                    _ => match ref_int(t) {
                        Some((n, _)) if lo <= n && n <= hi => FieldExpect::must(int_val(ty, n)),
                        _ => FieldExpect::must_err(derr),
                    },
                },
                _ => FieldExpect::must_err(derr),
            }
        }
        Ty::F64 => match tok {
            JTok::Raw(t) if raw_is_number(t) => {
                // reference: Rust's correctly rounded `str::parse::<f64>` (not the code under
                // test on this channel)
                let x: f64 = t.parse().unwrap_or_else(|_| {
                    verif_common::machinery_error("reference cannot parse its own number token")
                });
                FieldExpect::must(Val::f(x))
            }
            _ => FieldExpect::must_err(derr),
        },
        Ty::Seq(_) => FieldExpect::must_err(derr), // handled by the sequence generator
    }
}
