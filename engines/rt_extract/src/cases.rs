//! Exhaustive case generators. Every generator pushes fully self-contained cases
//! (channel, shape, wire bytes, content type, expectation) into a sink.
use crate::refmodel::*;
use crate::shapes::Entry;
use crate::val::{ErrPat, Expect, FieldExpect, Ty, Val};

pub struct Case {
    pub channel: Channel,
    pub shape: &'static str,
    /// path / query: the request target; form / json: the body
    pub wire: Vec<u8>,
    pub content_type: Option<Vec<u8>>,
    /// human readable: what the client meant
    pub logical: String,
    /// generator family, first component of the oracle class
    pub base: &'static str,
    pub expect: Expect,
}

pub trait Sink {
    fn check(&mut self, case: Case);
    fn dropped_ambiguous(&mut self, n: usize);
}

pub struct Bounds {
    /// max length of alphabet strings for single-field targets
    pub single_len: usize,
    /// max length of field `a` in three-field targets (field `b` is ≤ 1)
    pub multi_a_len: usize,
    /// max length of JSON strings
    pub json_len: usize,
    /// max number of repetitions of a sequence key
    pub seq_len: usize,
    /// opt-in (`--strict-json-tail 1`): demand an error for a valid JSON document followed by
    /// garbage. Off by default because the property's list of malformed inputs does not name it.
    pub strict_json_tail: bool,
}

pub const FORM_CT: &[u8] = b"application/x-www-form-urlencoded";
pub const JSON_CT: &[u8] = b"application/json";

/// Route templates, inserted into one `matchit::Router` exactly like generated code does
/// (`router.insert(path, id).unwrap()`).
pub const ROUTES: &[&str] = &[
    "/s/{x}",
    "/k/{x}/tail",
    "/c/{*x}",
    "/miss/{y}",
    "/m0/{a}/{b}/{c}",
    "/m1/{a}/{c}/{b}",
    "/m2/{b}/{a}/{c}",
    "/m3/{b}/{c}/{a}",
    "/m4/{c}/{a}/{b}",
    "/m5/{c}/{b}/{a}",
    "/e/{a}/{z}/{b}/{c}",
    "/n/{a}/{b}",
    "/mc/{c}/{a}/{*b}",
    "/w0/{s}/{w}/{n8}/{n16}/{n32}/{n64}/{i}/{f}/{b}/{c}/{o}/{id}",
    "/w1/{id}/{o}/{c}/{b}/{f}/{i}/{n64}/{n32}/{n16}/{n8}/{w}/{s}",
    "/w2/{n64}/{i}/{f}/{b}/{c}/{o}/{id}/{s}/{w}/{n8}/{n16}/{n32}",
    "/q/{v}/{s}",
];

pub fn build_router() -> matchit::Router<u32> {
    let mut router = matchit::Router::new();
    for (i, r) in ROUTES.iter().enumerate() {
        router.insert(*r, i as u32).unwrap_or_else(|e| {
            verif_common::machinery_error(&format!("route {r} rejected by matchit: {e}"))
        });
    }
    router
}

/// Parameter names of a template, in order, with their context.
fn template_params(t: &str) -> Vec<(String, Ctx)> {
    let mut out = vec![];
    let mut rest = t;
    while let Some(i) = rest.find('{') {
        let j = rest[i..].find('}').unwrap() + i;
        let name = &rest[i + 1..j];
        if let Some(n) = name.strip_prefix('*') {
            out.push((n.to_string(), Ctx::PathCatchAll));
        } else {
            out.push((name.to_string(), Ctx::PathSeg));
        }
        rest = &rest[j + 1..];
    }
    out
}

fn fill(template: &str, vals: &[(&str, &str)]) -> String {
    let mut s = template.to_string();
    for (n, w) in vals {
        s = s.replace(&format!("{{{n}}}"), w);
        s = s.replace(&format!("{{*{n}}}"), w);
    }
    if s.contains('{') {
        verif_common::machinery_error(&format!("template {template} not fully filled: {s}"));
    }
    s
}

/// One key/value occurrence the client sends.
#[derive(Clone)]
pub struct Occ {
    pub name: String,
    /// the value the client means
    pub value: String,
    pub key_wire: String,
    pub val_wire: String,
    /// omit the `=` (only meaningful for an empty value in query / form)
    pub no_eq: bool,
}

impl Occ {
    fn new(name: &str, value: &str, val_wire: &str) -> Occ {
        Occ {
            name: name.to_string(),
            value: value.to_string(),
            key_wire: name.to_string(),
            val_wire: val_wire.to_string(),
            no_eq: false,
        }
    }
}

fn join_pairs(occs: &[Occ]) -> String {
    occs.iter()
        .map(|o| {
            if o.no_eq {
                o.key_wire.clone()
            } else {
                format!("{}={}", o.key_wire, o.val_wire)
            }
        })
        .collect::<Vec<_>>()
        .join("&")
}

/// Expectation for a whole text-channel request, binding occurrences to fields BY NAME.
fn expect_text(ch: Channel, e: &Entry, occs: &[Occ], stray: bool) -> Vec<(String, FieldExpect)> {
    let mut out = vec![];
    for (fname, ty) in e.fields {
        let mine: Vec<&Occ> = occs.iter().filter(|o| o.name == *fname).collect();
        let fe = match (mine.len(), ty) {
            (0, _) => absent_expect(ch, fname, *ty),
            (_, Ty::Seq(inner)) => {
                let elems: Vec<(String, bool)> = mine
                    .iter()
                    .map(|o| (o.value.clone(), o.value == o.val_wire))
                    .collect();
                seq_expect(ch, fname, **inner, &elems)
            }
            (1, _) => text_expect(ch, fname, *ty, &mine[0].value, mine[0].value == mine[0].val_wire),
            (_, _) => {
                // repeated key for a scalar: nothing documented; must not invent a value
                let mut fe = FieldExpect {
                    ok: vec![],
                    err: vec![deser_err(ch)],
                };
                for o in &mine {
                    let one = text_expect(ch, fname, *ty, &o.value, o.value == o.val_wire);
                    for v in one.ok {
                        if !fe.ok.contains(&v) {
                            fe.ok.push(v);
                        }
                    }
                }
                fe
            }
        };
        let fe = if stray {
            let mut fe = fe;
            fe.err.push(any_err());
            fe
        } else {
            fe
        };
        out.push((fname.to_string(), fe));
    }
    out
}

fn logical(occs: &[Occ]) -> String {
    occs.iter()
        .map(|o| format!("{}={:?}", o.name, o.value))
        .collect::<Vec<_>>()
        .join(" ")
}

/// Build and emit a text-channel case. For paths `template` is the route; occurrences are
/// substituted by name. For query / form the occurrences are sent in the given order.
fn emit_text(
    sink: &mut dyn Sink,
    ch: Channel,
    e: &Entry,
    base: &'static str,
    template: &str,
    occs: &[Occ],
    stray: bool,
) {
    let fields = expect_text(ch, e, occs, stray);
    let expect = Expect::combine(base, fields);
    let (wire, ct) = match ch {
        Channel::Path => {
            let vals: Vec<(&str, &str)> = occs
                .iter()
                .map(|o| (o.name.as_str(), o.val_wire.as_str()))
                .collect();
            (fill(template, &vals).into_bytes(), None)
        }
        Channel::Query => (format!("/q?{}", join_pairs(occs)).into_bytes(), None),
        Channel::Form => (join_pairs(occs).into_bytes(), Some(FORM_CT.to_vec())),
        Channel::Json => unreachable!(),
    };
    sink.check(Case {
        channel: ch,
        shape: e.name,
        wire,
        content_type: ct,
        logical: logical(occs),
        base,
        expect,
    });
}

fn val_ctx(ch: Channel) -> Ctx {
    match ch {
        Channel::Query => Ctx::QueryVal,
        Channel::Form => Ctx::FormVal,
        _ => Ctx::PathSeg,
    }
}

/// Values that look like an escape sequence themselves (decoding twice would change them).
const LOOKS_ENCODED: &[&str] = &["%41", "%2541", "%25", "%2F", "%2B", "%20", "%C3%A9"];

const INVALID_UTF8_WIRES: &[&str] = &[
    "%FF",
    "%ff",
    "a%FF",
    "%FFa",
    "%C3",
    "%C3%28",
    "%E9",
    "%F0%9D%84",
    "%ED%A0%80",
    "%C0%80",
];

fn invalid_utf8_expect(ch: Channel, name: &str, raw: &str) -> Expect {
    let p = match ch {
        Channel::Path => {
            let mut p = ErrPat::variant("InvalidUtf8InPathParameter");
            p.display_contains = vec![format!("`{raw}`"), format!("`{name}`")];
            p
        }
        _ => deser_err(ch),
    };
    Expect::only_err("invalid-utf8", vec![p])
}

// ---------------------------------------------------------------------------------------------
// single-field targets, text channels

pub fn gen_single_text(ch: Channel, e: &Entry, b: &Bounds, sink: &mut dyn Sink) {
    let name = e.fields[0].0;
    let values = strings(ALPHABET, b.single_len);
    let variants: Vec<(&str, Ctx)> = match ch {
        Channel::Path => vec![
            ("/s/{x}", Ctx::PathSeg),
            ("/k/{x}/tail", Ctx::PathSeg),
            ("/c/{*x}", Ctx::PathCatchAll),
        ],
        _ => vec![("", val_ctx(ch))],
    };
    for (template, ctx) in &variants {
        for v in &values {
            if v.is_empty() && ch == Channel::Path {
                // an empty segment never matches `{x}`: the extractor is not reached
                let mut expect = Expect::only_err("empty-segment", vec![]);
                expect.undeliverable = true;
                sink.check(Case {
                    channel: ch,
                    shape: e.name,
                    wire: fill(template, &[(name, "")]).into_bytes(),
                    content_type: None,
                    logical: format!("{name}=\"\""),
                    base: "empty-segment",
                    expect,
                });
                continue;
            }
            let (encs, dropped) = encodings_full(v, *ctx);
            sink.dropped_ambiguous(dropped);
            for enc in encs {
                let base = if enc.stray {
                    "stray-percent"
                } else if enc.wire == *v {
                    "literal"
                } else {
                    "encoded"
                };
                let occ = Occ::new(name, v, &enc.wire);
                emit_text(sink, ch, e, base, template, &[occ], enc.stray);
            }
        }
        // values that themselves look percent-encoded: one decoding only
        for v in LOOKS_ENCODED {
            let (encs, dropped) = encodings_full(v, *ctx);
            sink.dropped_ambiguous(dropped);
            for enc in encs {
                let base = if enc.stray { "stray-percent" } else { "looks-encoded" };
                let occ = Occ::new(name, v, &enc.wire);
                emit_text(sink, ch, e, base, template, &[occ], enc.stray);
            }
        }
        for v in EDGE_LITERALS {
            let (encs, dropped) = encodings_limited(v, *ctx);
            sink.dropped_ambiguous(dropped);
            for enc in encs {
                let occ = Occ::new(name, v, &enc.wire);
                emit_text(sink, ch, e, "edge-literal", template, &[occ], false);
            }
        }
        // invalid UTF-8 after decoding
        for raw in INVALID_UTF8_WIRES {
            let (wire, ct) = match ch {
                Channel::Path => (fill(template, &[(name, raw)]).into_bytes(), None),
                Channel::Query => (format!("/q?{name}={raw}").into_bytes(), None),
                _ => (format!("{name}={raw}").into_bytes(), Some(FORM_CT.to_vec())),
            };
            sink.check(Case {
                channel: ch,
                shape: e.name,
                wire,
                content_type: ct,
                logical: format!("{name}=<bytes {raw}>"),
                base: "invalid-utf8",
                expect: invalid_utf8_expect(ch, name, raw),
            });
        }
    }
    if ch == Channel::Form {
        // raw (un-escaped) invalid bytes in the body
        for raw in [&[0xFFu8][..], &[b'a', 0xC3][..], &[0xED, 0xA0, 0x80][..]] {
            let mut wire = format!("{name}=").into_bytes();
            wire.extend_from_slice(raw);
            sink.check(Case {
                channel: ch,
                shape: e.name,
                wire,
                content_type: Some(FORM_CT.to_vec()),
                logical: format!("{name}=<raw bytes {raw:02X?}>"),
                base: "invalid-utf8",
                expect: invalid_utf8_expect(ch, name, ""),
            });
        }
    }
    // the field is absent
    match ch {
        Channel::Path => {
            let occ = Occ::new("y", "a", "a");
            emit_text(sink, ch, e, "missing-field", "/miss/{y}", &[occ], false);
        }
        _ => {
            emit_text(sink, ch, e, "missing-field", "", &[], false);
            emit_text(sink, ch, e, "missing-field", "", &[Occ::new("y", "a", "a")], false);
            if ch == Channel::Query {
                // no `?` at all
                let expect = Expect::combine("missing-field", expect_text(ch, e, &[], false));
                sink.check(Case {
                    channel: ch,
                    shape: e.name,
                    wire: b"/q".to_vec(),
                    content_type: None,
                    logical: "(no query)".into(),
                    base: "missing-field",
                    expect,
                });
            }
        }
    }
    if ch != Channel::Path {
        let kctx = if ch == Channel::Query { Ctx::QueryKey } else { Ctx::FormKey };
        // percent-encoded KEY: still bound by name
        let short = strings(ALPHABET, 1);
        for v in short.iter().map(|s| s.as_str()).chain(["25", "true", "%41"]) {
            for key_wire in [pct('x', true), pct('x', false)] {
                let mut occ = Occ::new(name, v, &encoding_minimal(v, val_ctx(ch)));
                occ.key_wire = key_wire;
                emit_text(sink, ch, e, "encoded-key", "", &[occ], false);
            }
        }
        let _ = kctx;
        // empty value without `=`
        let mut occ = Occ::new(name, "", "");
        occ.no_eq = true;
        emit_text(sink, ch, e, "literal", "", &[occ], false);
        // repeated key for a scalar field
        for (v1, v2) in [("a", "2"), ("2", "5"), ("true", "false"), ("5", "5")] {
            let occs = [Occ::new(name, v1, v1), Occ::new(name, v2, v2)];
            emit_text(sink, ch, e, "repeated-scalar-key", "", &occs, false);
        }
        // unknown keys around the known one are ignored
        for v in ["a", "25", "true"] {
            let occs = [
                Occ::new("z", "1", "1"),
                Occ::new(name, v, v),
                Occ::new("z", "2", "2"),
                Occ::new("", "3", "3"),
            ];
            emit_text(sink, ch, e, "unknown-keys", "", &occs, false);
        }
    }
}

// ---------------------------------------------------------------------------------------------
// three-field targets, every declaration order × every wire order

const PERMS: [[usize; 3]; 6] = [[0, 1, 2], [0, 2, 1], [1, 0, 2], [1, 2, 0], [2, 0, 1], [2, 1, 0]];
const ABC: [&str; 3] = ["a", "b", "c"];

/// `only_perm`: restrict to one wire order (the work is split into one job per order); the
/// order-independent extras are emitted with order 0.
pub fn gen_multi_text(ch: Channel, e: &Entry, b: &Bounds, only_perm: usize, sink: &mut dyn Sink) {
    let a_vals = strings(ALPHABET, b.multi_a_len);
    let b_vals = strings(ALPHABET, 1);
    let c_vals = ["0", "25", "4294967295", "4294967296", "a"];
    let ctx = val_ctx(ch);
    for (k, perm) in PERMS.iter().enumerate() {
        if k != only_perm {
            continue;
        }
        let template = format!("/m{k}/{{{}}}/{{{}}}/{{{}}}", ABC[perm[0]], ABC[perm[1]], ABC[perm[2]]);
        if ch == Channel::Path && !ROUTES.contains(&template.as_str()) {
            verif_common::machinery_error(&format!("template {template} is not a registered route"));
        }
        for av in &a_vals {
            if av.is_empty() && ch == Channel::Path {
                continue;
            }
            let (a_encs, d) = encodings_full(av, ctx);
            sink.dropped_ambiguous(d);
            for bv in &b_vals {
                if bv.is_empty() && ch == Channel::Path {
                    continue;
                }
                let (b_encs, d) = encodings_full(bv, ctx);
                sink.dropped_ambiguous(d);
                for cv in c_vals {
                    // the fully escaped form of `c` only next to short `a` (keeps the largest layer halved)
                    let mut c_encs = vec![encoding_minimal(cv, ctx)];
                    if av.chars().count() <= 2 {
                        c_encs.push(cv.chars().map(|c| pct(c, false)).collect());
                    }
                    for ae in &a_encs {
                        for be in &b_encs {
                            for ce in &c_encs {
                                let three = [
                                    Occ::new("a", av, &ae.wire),
                                    Occ::new("b", bv, &be.wire),
                                    Occ::new("c", cv, ce),
                                ];
                                let occs: Vec<Occ> = perm.iter().map(|i| three[*i].clone()).collect();
                                let stray = ae.stray || be.stray;
                                let base = if stray { "multi-stray-percent" } else { "multi" };
                                emit_text(sink, ch, e, base, &template, &occs, stray);
                            }
                        }
                    }
                }
            }
        }
    }
    if only_perm != 0 {
        return;
    }
    // an extra, unknown parameter in between; a missing one; a catch-all tail
    for (av, bv, cv) in [("a", "é", "25"), ("%41", "+", "0"), ("2", "5", "4294967295"), ("𝄞", "%", "a")] {
        let mk = |n: &str, v: &str| Occ::new(n, v, &encoding_minimal(v, ctx));
        let occs = [mk("a", av), mk("z", "zz"), mk("b", bv), mk("c", cv)];
        emit_text(sink, ch, e, "multi-unknown-key", "/e/{a}/{z}/{b}/{c}", &occs, false);
        let occs = [mk("a", av), mk("b", bv)];
        emit_text(sink, ch, e, "missing-field", "/n/{a}/{b}", &occs, false);
        if ch == Channel::Path {
            let tail = format!("{bv}/x//y");
            let occs = [
                mk("c", cv),
                mk("a", av),
                Occ::new("b", &tail, &encoding_minimal(&tail, Ctx::PathCatchAll)),
            ];
            emit_text(sink, ch, e, "multi-catch-all", "/mc/{c}/{a}/{*b}", &occs, false);
        }
        // invalid UTF-8 in one of several parameters: the error names that parameter
        let mut bad = mk("b", "?");
        bad.val_wire = "%FF".into();
        let occs = [mk("a", av), bad, mk("c", "25")];
        let wire_case = {
            let (wire, ct) = match ch {
                Channel::Path => (
                    fill("/m0/{a}/{b}/{c}", &[("a", &occs[0].val_wire), ("b", "%FF"), ("c", "25")]).into_bytes(),
                    None,
                ),
                Channel::Query => (format!("/q?{}", join_pairs(&occs)).into_bytes(), None),
                _ => (join_pairs(&occs).into_bytes(), Some(FORM_CT.to_vec())),
            };
            Case {
                channel: ch,
                shape: e.name,
                wire,
                content_type: ct,
                logical: format!("a={av:?} b=<bytes %FF> c=\"25\""),
                base: "invalid-utf8",
                expect: invalid_utf8_expect(ch, "b", "%FF"),
            }
        };
        sink.check(wire_case);
    }
}

// ---------------------------------------------------------------------------------------------
// every supported field type in one struct

const WIDE_NAMES: [&str; 12] = ["s", "w", "n8", "n16", "n32", "n64", "i", "f", "b", "c", "o", "id"];
const WIDE_VALUES: [[&str; 12]; 3] = [
    ["a", "é", "0", "0", "0", "0", "-1", "0.1", "true", "a", "25", "1"],
    [
        "% &",
        "𝄞/=+",
        "255",
        "65535",
        "4294967295",
        "18446744073709551615",
        "-9223372036854775808",
        "1e308",
        "false",
        "𝄞",
        "4294967295",
        "4294967295",
    ],
    ["%41", "+ +", "25", "256", "65536", "4294967296", "9223372036854775807", "2.5", "true", "%", "0", "0"],
];
const WIDE_ORDERS: [[usize; 12]; 3] = [
    [0, 1, 2, 3, 4, 5, 6, 7, 8, 9, 10, 11],
    [11, 10, 9, 8, 7, 6, 5, 4, 3, 2, 1, 0],
    [5, 6, 7, 8, 9, 10, 11, 0, 1, 2, 3, 4],
];

pub fn gen_wide_text(ch: Channel, e: &Entry, sink: &mut dyn Sink) {
    let ctx = val_ctx(ch);
    for (oi, order) in WIDE_ORDERS.iter().enumerate() {
        let template = ROUTES
            .iter()
            .find(|r| r.starts_with(&format!("/w{oi}/")))
            .unwrap();
        if ch == Channel::Path {
            let names: Vec<String> = template_params(template).into_iter().map(|p| p.0).collect();
            let want: Vec<String> = order.iter().map(|i| WIDE_NAMES[*i].to_string()).collect();
            if names != want {
                verif_common::machinery_error("wide route order table out of sync");
            }
        }
        for vals in &WIDE_VALUES {
            // every value minimal / all lower-hex / all upper-hex
            for mode in 0..3 {
                let occs: Vec<Occ> = order
                    .iter()
                    .map(|i| {
                        let v = vals[*i];
                        let w = match mode {
                            0 => encoding_minimal(v, ctx),
                            1 => v.chars().map(|c| pct(c, false)).collect(),
                            _ => v.chars().map(|c| pct(c, true)).collect(),
                        };
                        Occ::new(WIDE_NAMES[*i], v, &w)
                    })
                    .collect();
                emit_text(sink, ch, e, "wide", template, &occs, false);
            }
            // one field at a time gets a value of the wrong type
            for bad in 2..12 {
                let occs: Vec<Occ> = order
                    .iter()
                    .map(|i| {
                        let v = if *i == bad { "zz" } else { vals[*i] };
                        Occ::new(WIDE_NAMES[*i], v, &encoding_minimal(v, ctx))
                    })
                    .collect();
                emit_text(sink, ch, e, "wide-wrong-type", template, &occs, false);
            }
        }
    }
}

// ---------------------------------------------------------------------------------------------
// sequences

fn seqs<'a>(set: &[&'a str], max_len: usize) -> Vec<Vec<&'a str>> {
    let mut all: Vec<Vec<&str>> = vec![vec![]];
    let mut layer: Vec<Vec<&str>> = vec![vec![]];
    for _ in 0..max_len {
        let mut next = vec![];
        for s in &layer {
            for x in set {
                let mut t = s.clone();
                t.push(*x);
                next.push(t);
            }
        }
        all.extend(next.iter().cloned());
        layer = next;
    }
    all
}

fn seq_element_set(inner: Ty) -> &'static [&'static str] {
    match inner {
        Ty::Str => &["a", "", "%", "+", " ", "&", "é", "2"],
        Ty::U32 => &["0", "25", "4294967295", "a"],
        _ => &["", "0", "25", "zz"],
    }
}

pub fn gen_seq_text(ch: Channel, e: &Entry, b: &Bounds, sink: &mut dyn Sink) {
    let inner = e
        .fields
        .iter()
        .find_map(|(n, t)| match (n, t) {
            (&"v", Ty::Seq(i)) => Some(**i),
            _ => None,
        })
        .unwrap();
    if ch == Channel::Path {
        for (v, s) in [("a", "k"), ("25", "k")] {
            let occs = [Occ::new("v", v, v), Occ::new("s", s, s)];
            emit_text(sink, ch, e, "unsupported-seq", "/q/{v}/{s}", &occs, false);
        }
        return;
    }
    let ctx = val_ctx(ch);
    for seq in seqs(seq_element_set(inner), b.seq_len) {
        for pos in 0..=seq.len() {
            for mode in 0..2 {
                let enc = |v: &str| -> String {
                    if mode == 0 {
                        encoding_minimal(v, ctx)
                    } else {
                        v.chars().map(|c| pct(c, false)).collect()
                    }
                };
                let mut occs: Vec<Occ> = seq.iter().map(|v| Occ::new("v", v, &enc(v))).collect();
                occs.insert(pos, Occ::new("s", "k", "k"));
                emit_text(sink, ch, e, "sequence", "", &occs, false);
            }
        }
    }
}

// ---------------------------------------------------------------------------------------------
// content types (form and json)

#[derive(Clone, Copy, PartialEq)]
pub enum CtVerdict {
    Accept,
    Mismatch,
    Missing,
    AcceptOrMismatch,
    MissingOrMismatch,
}

pub fn content_types(ch: Channel) -> Vec<(Option<&'static [u8]>, CtVerdict)> {
    use CtVerdict::*;
    match ch {
        Channel::Json => vec![
            (None, Missing),
            (Some(b"application/json"), Accept),
            (Some(b"application/json; charset=utf-8"), Accept),
            (Some(b"application/hal+json"), Accept),
            (Some(b"application/vnd.api+json; charset=utf-8"), Accept),
            (Some(b"APPLICATION/JSON"), AcceptOrMismatch),
            (Some(b"application/json+xml"), AcceptOrMismatch),
            (Some(b"text/plain"), Mismatch),
            (Some(b"text/json"), Mismatch),
            (Some(b"text/hal+json"), Mismatch),
            (Some(b"application/x-www-form-urlencoded"), Mismatch),
            (Some(b"application/jsonx"), Mismatch),
            (Some(b"application/xml"), Mismatch),
            (Some(b"multipart/form-data"), Mismatch),
            (Some(b"hello world"), Mismatch),
            (Some(b"json"), Mismatch),
            (Some(b""), MissingOrMismatch),
            (Some(b"application/json\xff"), MissingOrMismatch),
        ],
        _ => vec![
            (None, Missing),
            (Some(b"application/x-www-form-urlencoded"), Accept),
            (Some(b"application/x-www-form-urlencoded; charset=utf-8"), Accept),
            (Some(b"APPLICATION/X-WWW-FORM-URLENCODED"), AcceptOrMismatch),
            (Some(b"text/x-www-form-urlencoded"), Mismatch),
            (Some(b"application/json"), Mismatch),
            (Some(b"application/x-www-form"), Mismatch),
            (Some(b"multipart/form-data"), Mismatch),
            (Some(b"text/plain"), Mismatch),
            (Some(b"hello world"), Mismatch),
            (Some(b"x-www-form-urlencoded"), Mismatch),
            (Some(b""), MissingOrMismatch),
            (Some(b"application/x-www-form-urlencoded\xff"), MissingOrMismatch),
        ],
    }
}

pub fn gen_content_types(ch: Channel, e: &Entry, sink: &mut dyn Sink) {
    let body: &[u8] = if ch == Channel::Json { b"{\"x\":\"a\"}" } else { b"x=a" };
    for (ct, verdict) in content_types(ch) {
        let ok = vec![vec![("x".to_string(), Val::Str("a".into()))]];
        let mismatch = || {
            let mut p = ErrPat::variant("ContentTypeMismatch");
            p.actual = ct.and_then(|c| std::str::from_utf8(c).ok().map(|s| s.to_string()));
            p
        };
        let missing = || ErrPat::variant("MissingContentType");
        let (oks, errs) = match verdict {
            CtVerdict::Accept => (ok, vec![]),
            CtVerdict::Mismatch => (vec![], vec![mismatch()]),
            CtVerdict::Missing => (vec![], vec![missing()]),
            CtVerdict::AcceptOrMismatch => (ok, vec![mismatch()]),
            CtVerdict::MissingOrMismatch => (vec![], vec![missing(), ErrPat::variant("ContentTypeMismatch")]),
        };
        sink.check(Case {
            channel: ch,
            shape: e.name,
            wire: body.to_vec(),
            content_type: ct.map(|c| c.to_vec()),
            logical: format!("x=\"a\" with content-type {:?}", ct.map(String::from_utf8_lossy)),
            base: "content-type",
            expect: Expect {
                class: "content-type".into(),
                ok: oks,
                err: errs,
                undeliverable: false,
            },
        });
    }
}

// ---------------------------------------------------------------------------------------------
// JSON

fn emit_json(
    sink: &mut dyn Sink,
    e: &Entry,
    base: &'static str,
    doc: String,
    toks: &[(&str, JTok)],
    logical: String,
) {
    let mut fields = vec![];
    for (fname, ty) in e.fields {
        let mine: Vec<&JTok> = toks.iter().filter(|(n, _)| n == fname).map(|(_, t)| t).collect();
        let fe = match mine.len() {
            0 => absent_expect(Channel::Json, fname, *ty),
            1 => json_expect(fname, *ty, mine[0]),
            _ => {
                // duplicate keys: nothing documented; must not invent a value
                let mut fe = FieldExpect {
                    ok: vec![],
                    err: vec![deser_err(Channel::Json)],
                };
                for t in mine {
                    for v in json_expect(fname, *ty, t).ok {
                        if !fe.ok.contains(&v) {
                            fe.ok.push(v);
                        }
                    }
                }
                fe
            }
        };
        fields.push((fname.to_string(), fe));
    }
    sink.check(Case {
        channel: Channel::Json,
        shape: e.name,
        wire: doc.into_bytes(),
        content_type: Some(JSON_CT.to_vec()),
        logical,
        base,
        expect: Expect::combine(base, fields),
    });
}

fn string_capable(ty: Ty) -> bool {
    match ty {
        Ty::Str | Ty::BStr | Ty::CowStr | Ty::Char => true,
        Ty::Opt(i) => string_capable(*i),
        _ => false,
    }
}

pub fn gen_single_json(e: &Entry, b: &Bounds, sink: &mut dyn Sink) {
    let (name, ty) = e.fields[0];
    let max = if string_capable(ty) { b.json_len } else { 1 };
    for v in strings(JSON_ALPHABET, max) {
        for (tok, escaped) in json_string_tokens(&v) {
            let base = if escaped { "encoded" } else { "literal" };
            let doc = format!("{{\"{name}\":{tok}}}");
            emit_json(sink, e, base, doc, &[(name, JTok::Str(v.clone(), escaped))], format!("{name}={v:?}"));
        }
    }
    // string tokens that look like other types
    for v in ["25", "true", "null", "%41", "%2541", "a+b"] {
        let doc = format!("{{\"{name}\":\"{v}\"}}");
        emit_json(sink, e, "literal", doc, &[(name, JTok::Str(v.to_string(), false))], format!("{name}={v:?}"));
    }
    for raw in JSON_RAW_TOKENS {
        for doc in [format!("{{\"{name}\":{raw}}}"), format!(" {{ \"{name}\" :\t{raw}\n}} ")] {
            emit_json(sink, e, "typed-token", doc, &[(name, JTok::Raw(raw))], format!("{name}={raw}"));
        }
    }
    // key written with an escape: same name
    emit_json(
        sink,
        e,
        "encoded-key",
        "{\"\\u0078\":\"a\"}".to_string(),
        &[(name, JTok::Str("a".into(), false))],
        format!("{name}=\"a\" (key escaped)"),
    );
    // absent / unknown keys
    emit_json(sink, e, "missing-field", "{}".into(), &[], "(empty object)".into());
    emit_json(sink, e, "missing-field", "{\"y\":\"a\"}".into(), &[], "y=\"a\"".into());
    emit_json(
        sink,
        e,
        "unknown-keys",
        "{\"z\":[1,{\"x\":2}],\"x\":\"a\",\"\":null}".into(),
        &[(name, JTok::Str("a".into(), false))],
        format!("{name}=\"a\" among unknown keys"),
    );
    // duplicate key
    emit_json(
        sink,
        e,
        "repeated-scalar-key",
        "{\"x\":\"a\",\"x\":\"2\"}".into(),
        &[(name, JTok::Str("a".into(), false)), (name, JTok::Str("2".into(), false))],
        "x=\"a\" x=\"2\"".into(),
    );
    // malformed documents: an error is mandatory
    let malformed: Vec<(&str, Vec<u8>)> = vec![
        ("empty body", b"".to_vec()),
        ("truncated", b"{\"x\":\"a\"".to_vec()),
        ("truncated string", b"{\"x\":\"a".to_vec()),
        ("truncated \\u escape", b"{\"x\":\"\\u00\"}".to_vec()),
        ("lone leading surrogate", b"{\"x\":\"\\uD834\"}".to_vec()),
        ("lone trailing surrogate", b"{\"x\":\"\\uDD1E\"}".to_vec()),
        ("unknown escape", b"{\"x\":\"\\q\"}".to_vec()),
        ("raw 0xFF in string", b"{\"x\":\"\xFF\"}".to_vec()),
        ("raw truncated utf8 in string", b"{\"x\":\"a\xC3\"}".to_vec()),
        ("raw surrogate bytes in string", b"{\"x\":\"\xED\xA0\x80\"}".to_vec()),
        ("raw control char in string", b"{\"x\":\"a\nb\"}".to_vec()),
        ("trailing comma", b"{\"x\":\"a\",}".to_vec()),
        ("unquoted key", b"{x:\"a\"}".to_vec()),
        ("single quotes", b"{'x':'a'}".to_vec()),
        ("not an object", b"\"a\"".to_vec()),
        ("array instead of object", b"[]".to_vec()),
        ("number 1e999", b"{\"x\":1e999}".to_vec()),
        ("leading zero number", b"{\"x\":01}".to_vec()),
        ("plus-signed number", b"{\"x\":+1}".to_vec()),
    ];
    for (what, body) in malformed {
        sink.check(Case {
            channel: Channel::Json,
            shape: e.name,
            wire: body,
            content_type: Some(JSON_CT.to_vec()),
            logical: format!("malformed JSON: {what}"),
            base: "malformed-json",
            expect: Expect::only_err("malformed-json", vec![deser_err(Channel::Json)]),
        });
    }
    // a valid document followed by something else: not in the property's list of malformed
    // inputs, so only "the first document's value or an error" is demanded
    for tail in ["x", "{\"x\":\"b\"}", ",", "\u{0}"] {
        let fe = json_expect(name, ty, &JTok::Str("a".into(), false));
        let expect = if b.strict_json_tail {
            Expect::only_err("trailing-garbage", vec![deser_err(Channel::Json)])
        } else {
            Expect::combine("trailing-garbage", vec![(name.to_string(), fe)])
                .allow_err(deser_err(Channel::Json))
        };
        sink.check(Case {
            channel: Channel::Json,
            shape: e.name,
            wire: format!("{{\"x\":\"a\"}}{tail}").into_bytes(),
            content_type: Some(JSON_CT.to_vec()),
            logical: format!("x=\"a\" followed by {tail:?}"),
            base: "trailing-garbage",
            expect,
        });
    }
}

pub fn gen_multi_json(e: &Entry, b: &Bounds, only_perm: usize, sink: &mut dyn Sink) {
    let a_vals = strings(JSON_ALPHABET, b.multi_a_len.min(2));
    let b_vals = strings(JSON_ALPHABET, 1);
    let c_toks: [JTok; 5] = [
        JTok::Raw("0"),
        JTok::Raw("25"),
        JTok::Raw("4294967295"),
        JTok::Raw("4294967296"),
        JTok::Str("a".into(), false),
    ];
    for (k, perm) in PERMS.iter().enumerate() {
        if k != only_perm {
            continue;
        }
        for av in &a_vals {
            for (at, ae) in json_string_tokens(av) {
                for bv in &b_vals {
                    for (bt, be) in json_string_tokens(bv) {
                        for ct in &c_toks {
                            let c_wire = match ct {
                                JTok::Raw(r) => r.to_string(),
                                JTok::Str(s, _) => json_string_minimal(s),
                            };
                            let three = [
                                ("a", at.clone(), JTok::Str(av.clone(), ae)),
                                ("b", bt.clone(), JTok::Str(bv.clone(), be)),
                                ("c", c_wire, ct.clone()),
                            ];
                            let ordered: Vec<&(&str, String, JTok)> = perm.iter().map(|i| &three[*i]).collect();
                            let doc = format!(
                                "{{{}}}",
                                ordered
                                    .iter()
                                    .map(|(n, w, _)| format!("\"{n}\":{w}"))
                                    .collect::<Vec<_>>()
                                    .join(",")
                            );
                            let toks: Vec<(&str, JTok)> = ordered.iter().map(|(n, _, t)| (*n, t.clone())).collect();
                            let logical = format!("a={av:?} b={bv:?} c={:?}", three[2].1);
                            emit_json(sink, e, "multi", doc, &toks, logical);
                        }
                    }
                }
            }
        }
    }
    if only_perm != 0 {
        return;
    }
    emit_json(
        sink,
        e,
        "missing-field",
        "{\"a\":\"a\",\"b\":\"b\"}".into(),
        &[("a", JTok::Str("a".into(), false)), ("b", JTok::Str("b".into(), false))],
        "a=\"a\" b=\"b\"".into(),
    );
}

pub fn gen_wide_json(e: &Entry, sink: &mut dyn Sink) {
    // which wide fields are JSON strings
    let is_str = |i: usize| matches!(WIDE_NAMES[i], "s" | "w" | "c");
    for order in WIDE_ORDERS.iter() {
        for vals in &WIDE_VALUES {
            for bad in std::iter::once(usize::MAX).chain(2..12) {
                let mut parts = vec![];
                let mut toks: Vec<(&str, JTok)> = vec![];
                for i in order {
                    let n = WIDE_NAMES[*i];
                    if *i == bad {
                        parts.push(format!("\"{n}\":\"zz\""));
                        toks.push((n, JTok::Str("zz".into(), false)));
                    } else if is_str(*i) {
                        parts.push(format!("\"{n}\":{}", json_string_minimal(vals[*i])));
                        toks.push((n, JTok::Str(vals[*i].to_string(), false)));
                    } else {
                        // the table only holds literals that are also valid JSON tokens
                        let raw: &'static str = vals[*i];
                        parts.push(format!("\"{n}\":{raw}"));
                        toks.push((n, JTok::Raw(raw)));
                    }
                }
                let base = if bad == usize::MAX { "wide" } else { "wide-wrong-type" };
                let doc = format!("{{{}}}", parts.join(","));
                emit_json(sink, e, base, doc, &toks, "all field types".into());
            }
        }
    }
}

pub fn gen_seq_json(e: &Entry, b: &Bounds, sink: &mut dyn Sink) {
    let inner = e
        .fields
        .iter()
        .find_map(|(n, t)| match (n, t) {
            (&"v", Ty::Seq(i)) => Some(**i),
            _ => None,
        })
        .unwrap();
    let set: &[&str] = match inner {
        Ty::Str => &["\"a\"", "\"\"", "\"%41\"", "\"+\"", "\"\\u00e9\"", "2"],
        Ty::U32 => &["0", "25", "4294967295", "\"a\"", "-1"],
        _ => &["null", "0", "25", "\"zz\""],
    };
    let elem_expect = |t: &str| -> FieldExpect {
        let tok = if let Some(s) = t.strip_prefix('"') {
            let s = s.strip_suffix('"').unwrap();
            let (s, esc) = if s == "\\u00e9" { ("é", true) } else { (s, false) };
            JTok::Str(s.to_string(), esc)
        } else {
            // leak-free: all raw tokens here are 'static literals from `set`
            JTok::Raw(match t {
                "2" => "2",
                "0" => "0",
                "25" => "25",
                "4294967295" => "4294967295",
                "-1" => "-1",
                "null" => "null",
                _ => verif_common::machinery_error("unknown raw token in sequence set"),
            })
        };
        json_expect("v", inner, &tok)
    };
    for seq in seqs(set, b.seq_len) {
        for s_first in [true, false] {
            let arr = format!("[{}]", seq.join(","));
            let doc = if s_first {
                format!("{{\"s\":\"k\",\"v\":{arr}}}")
            } else {
                format!("{{\"v\":{arr},\"s\":\"k\"}}")
            };
            let mut oks: Option<Vec<Val>> = Some(vec![]);
            let mut errs = vec![];
            for t in &seq {
                let fe = elem_expect(t);
                for er in fe.err {
                    if !errs.contains(&er) {
                        errs.push(er);
                    }
                }
                match (&mut oks, fe.ok.first()) {
                    (Some(v), Some(x)) => v.push(x.clone()),
                    _ => oks = None,
                }
            }
            let v_fe = FieldExpect {
                ok: oks.map(|v| vec![Val::Seq(v)]).unwrap_or_default(),
                err: errs,
            };
            let fields = vec![
                ("v".to_string(), v_fe),
                ("s".to_string(), FieldExpect::must(Val::Str("k".into()))),
            ];
            sink.check(Case {
                channel: Channel::Json,
                shape: e.name,
                wire: doc.into_bytes(),
                content_type: Some(JSON_CT.to_vec()),
                logical: format!("v={arr} s=\"k\""),
                base: "sequence",
                expect: Expect::combine("sequence", fields),
            });
        }
    }
    // absent / non-array
    for (doc, what) in [("{\"s\":\"k\"}", "v absent"), ("{\"s\":\"k\",\"v\":\"a\"}", "v is a string"), ("{\"s\":\"k\",\"v\":null}", "v is null")] {
        sink.check(Case {
            channel: Channel::Json,
            shape: e.name,
            wire: doc.as_bytes().to_vec(),
            content_type: Some(JSON_CT.to_vec()),
            logical: what.into(),
            base: "sequence-malformed",
            expect: Expect::only_err("sequence-malformed", vec![deser_err(Channel::Json)]),
        });
    }
}

// ---------------------------------------------------------------------------------------------
// LENGTH dimension: long values with a multi-byte character at every byte offset around the
// sizes code likes to use as caps

/// Sizes (in bytes) that tend to be used as caps; every length in cap-2 ..= cap+2 is enumerated.
pub const LENGTH_CAPS: &[usize] = &[16, 32, 64, 128, 256, 1024];
/// Appended after the filler: nothing, a 2-, 3- and 4-byte character.
pub const LENGTH_MULTIBYTE: &[&str] = &["", "é", "€", "𝄞"];
pub const LENGTH_TAILS: &[&str] = &["zz", ""];

/// All long values: (value, description).
pub fn long_values() -> Vec<String> {
    let mut out: Vec<String> = vec![];
    let mut push = |v: String| {
        if !v.is_empty() && !out.contains(&v) {
            out.push(v)
        }
    };
    for cap in LENGTH_CAPS {
        // ASCII filler of every length in the window
        for l in cap - 2..=cap + 2 {
            for mb in LENGTH_MULTIBYTE {
                for tail in LENGTH_TAILS {
                    push(format!("{}{}{}", "a".repeat(l), mb, tail));
                }
            }
        }
        // 3-byte filler: boundaries fall inside characters all along the value
        for n in (cap - 2) / 3 - 1..=(cap + 2).div_ceil(3) + 1 {
            for mb in LENGTH_MULTIBYTE {
                push(format!("{}{}{}", "€".repeat(n), mb, "zz"));
            }
            push(format!("a{}", "€".repeat(n)));
            push(format!("aa{}", "€".repeat(n)));
        }
    }
    out
}

fn is_parsed_type(ty: Ty) -> bool {
    match ty {
        Ty::Str | Ty::BStr | Ty::CowStr => false,
        Ty::Opt(i) | Ty::Seq(i) => is_parsed_type(*i),
        _ => true,
    }
}

fn length_base(ty: Ty) -> &'static str {
    if is_parsed_type(ty) { "long-parse-error" } else { "long-roundtrip" }
}

/// Three encodings of a long value: everything literal that may be, non-ASCII characters
/// percent-encoded (upper-case hex), everything percent-encoded (lower-case hex).
fn long_encodings(v: &str, ctx: Ctx) -> Vec<String> {
    let mut out = vec![encoding_minimal(v, ctx)];
    let nonascii: String = v
        .chars()
        .map(|c| if c.is_ascii() && literal_legal(c, ctx) { c.to_string() } else { pct(c, true) })
        .collect();
    let all: String = v.chars().map(|c| pct(c, false)).collect();
    for w in [nonascii, all] {
        if !out.contains(&w) {
            out.push(w);
        }
    }
    out
}

pub fn gen_length_text(ch: Channel, e: &Entry, sink: &mut dyn Sink) {
    let (name, ty) = e.fields[0];
    let base = length_base(ty);
    let variants: Vec<(&str, Ctx)> = match ch {
        Channel::Path => vec![
            ("/s/{x}", Ctx::PathSeg),
            ("/k/{x}/tail", Ctx::PathSeg),
            ("/c/{*x}", Ctx::PathCatchAll),
        ],
        _ => vec![("", val_ctx(ch))],
    };
    let values = long_values();
    for (template, ctx) in &variants {
        for v in &values {
            for wire in long_encodings(v, *ctx) {
                let occ = Occ::new(name, v, &wire);
                emit_text(sink, ch, e, base, template, &[occ], false);
            }
        }
        // long values that are invalid UTF-8 after decoding: the documented error echoes the
        // whole raw segment (path)
        for cap in LENGTH_CAPS {
            for l in cap - 2..=cap + 2 {
                for bad in ["%FF", "%C3", "%E2%82"] {
                    let raw = format!("{}{}", "a".repeat(l), bad);
                    let (wire, ct) = match ch {
                        Channel::Path => (fill(template, &[(name, &raw)]).into_bytes(), None),
                        Channel::Query => (format!("/q?{name}={raw}").into_bytes(), None),
                        _ => (format!("{name}={raw}").into_bytes(), Some(FORM_CT.to_vec())),
                    };
                    let mut expect = invalid_utf8_expect(ch, name, &raw);
                    expect.class = "long-invalid-utf8".into();
                    sink.check(Case {
                        channel: ch,
                        shape: e.name,
                        wire,
                        content_type: ct,
                        logical: format!("{name}=<{l} x 'a' then bytes {bad}>"),
                        base: "long-invalid-utf8",
                        expect,
                    });
                }
            }
        }
    }
}

pub fn gen_length_json(e: &Entry, sink: &mut dyn Sink) {
    let (name, ty) = e.fields[0];
    let base = length_base(ty);
    for v in long_values() {
        // literal, and every non-ASCII character written as \u escapes
        let lit = json_string_minimal(&v);
        let mut esc = String::from("\"");
        let mut escaped = false;
        for c in v.chars() {
            if c.is_ascii() {
                esc.push(c);
            } else {
                escaped = true;
                let mut units = [0u16; 2];
                for u in c.encode_utf16(&mut units).iter() {
                    esc.push_str(&format!("\\u{u:04x}"));
                }
            }
        }
        esc.push('"');
        let mut toks = vec![(lit, false)];
        if escaped {
            toks.push((esc, true));
        }
        for (tok, was_escaped) in toks {
            let doc = format!("{{\"{name}\":{tok}}}");
            emit_json(
                sink,
                e,
                base,
                doc,
                &[(name, JTok::Str(v.clone(), was_escaped))],
                format!("{name}=<{} bytes: {:?}...>", v.len(), v.chars().rev().take(4).collect::<Vec<_>>()),
            );
        }
    }
}
